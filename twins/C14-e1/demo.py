"""Demo for C14 patch 1: shared _split_skip helper (save/load) and write_tree closure in save()."""
import contextlib
import gzip
import io
import json
import os
import shutil
import sys
import tempfile
from pathlib import Path
from typing import AbstractSet, Any, Literal, Sequence, Union, cast
from zipfile import ZipFile

import dill
import numpy as np
import torch
import zarr
from zarr.storage import LocalStore

import quantem.core.io.serialize as ser
from quantem.core.io.serialize import AutoSerialize, load

# ---------------------------------------------------------------------------
# VERBATIM copies of the ORIGINAL (pre-refactoring) functions, renamed orig_*
# ---------------------------------------------------------------------------

def orig_save(
    self,
    path: str | Path,
    mode: Literal["w", "o"] = "w",
    store: Literal["auto", "zip", "dir"] = "auto",
    skip: Union[str, type, Sequence[Union[str, type]]] = (),
    compression_level: int | None = 4,
) -> None:
    """
    Save the current object to disk using Zarr serialization.

    Parameters
    ----------
    path : str or Path
        Target file path. Use '.zip' extension for zip format, otherwise a directory.
    mode : {'w', 'o'}
        'w' = write only if file doesn't exist, 'o' = overwrite if it does.
    store : {'auto', 'zip', 'dir'}
        Storage format. 'auto' infers from file extension.
    skip : str, type, or list of (str or type)
        Attribute names/types to skip (by name or type) during serialization.
    compression_level : int or None
        If set (0–9), applies Zstandard compression with Blosc backend at that level.
        Level 0 disables compression. Raises ValueError if > 9.

    Notes
    -----
    Skipped attribute names and types are also stored in the file metadata for correct
    round-trip skipping during load().
    """
    # Validate compression level
    if compression_level is not None:
        if not (0 <= compression_level <= 9):
            raise ValueError(
                f"compression_level must be between 0 and 9, got {compression_level}"
            )
        compressors = [
            {
                "name": "blosc",
                "configuration": {
                    "cname": "zstd",
                    "clevel": int(compression_level),
                    "shuffle": "bitshuffle",
                },
            }
        ]
    else:
        compressors = None

    path = str(path)
    # Auto-infer storage format if needed
    if store == "auto":
        store = "zip" if path.endswith(".zip") else "dir"

    # Ensure .zip extension if requested
    if store == "zip" and not path.endswith(".zip"):
        print(f"Warning: appending .zip to path '{path}'")
        path += ".zip"

    # Handle overwrite vs. write protection
    if os.path.exists(path):
        if mode == "o":
            if os.path.isdir(path):
                shutil.rmtree(path)
            else:
                os.remove(path)
        else:
            raise FileExistsError(f"File '{path}' already exists. Use mode='o' to overwrite.")

    # Normalize skip argument (split to names and types)
    if isinstance(skip, (str, type)):
        skip = [skip]
    skip_names = {s for s in skip if isinstance(s, str)}
    skip_types = tuple(s for s in skip if isinstance(s, type))

    def write_skip_metadata(root):
        # Store skip info as attributes for correct deserialization
        root.attrs["_autoserialize_skip_names"] = list(skip_names)
        root.attrs["_autoserialize_skip_types"] = [
            f"{t.__module__}.{t.__qualname__}" for t in skip_types
        ]

    # Main branch: choose between zip and directory storage
    if store == "zip":
        # Always use tempdir for safe atomic write
        with tempfile.TemporaryDirectory() as tmpdir:
            store_obj = LocalStore(tmpdir)
            root = zarr.group(store=store_obj, overwrite=True)
            self._recursive_save(self, root, skip_names, skip_types, compressors)
            write_skip_metadata(root)
            # Zip up all files in tempdir
            try:
                with ZipFile(path, mode="w") as zf:
                    for dirpath, _, filenames in os.walk(tmpdir):
                        for filename in filenames:
                            full_path = os.path.join(dirpath, filename)
                            rel_path = os.path.relpath(full_path, tmpdir)
                            zf.write(full_path, arcname=rel_path)
            except BaseException:
                # Never leave a partial (but readable) archive behind
                if os.path.exists(path):
                    os.remove(path)
                raise
    elif store == "dir":
        # Directory mode requires no extension
        if os.path.splitext(path)[1]:
            raise ValueError(
                f"Expected a directory path for store='dir', but got file-like path '{path}'"
            )
        try:
            os.makedirs(path, exist_ok=True)
            store_obj = LocalStore(path)
            root = zarr.group(store=store_obj, overwrite=True)
            self._recursive_save(self, root, skip_names, skip_types, compressors)
            write_skip_metadata(root)
        except BaseException:
            # The target did not exist (or was removed above): never leave a partial,
            # but loadable, object behind when serialisation fails part-way
            shutil.rmtree(path, ignore_errors=True)
            raise
    else:
        raise ValueError(f"Unknown store type: {store}")


def orig_load(
    path: str | Path,
    skip: Union[str, type, Sequence[Union[str, type]]] = (),
) -> Any:
    """
    Load an AutoSerialize object from disk.

    Parameters
    ----------
    path : str or Path
        Directory or .zip file containing a serialized object.
    skip : str, type, or list of (str or type)
        Names/types of attributes to skip when loading.
        Combined with skip info stored in the file, if present.

    Returns
    -------
    obj : Any
        Reconstructed AutoSerialize instance.
    """
    # Normalize skip argument to sets/tuples for merging
    if isinstance(skip, (str, type)):
        skip = [skip]
    user_skip_names = {s for s in skip if isinstance(s, str)}
    user_skip_types = tuple(s for s in skip if isinstance(s, type))

    # Load Zarr store from directory or extracted zip
    if os.path.isdir(path):
        store = LocalStore(path)
    else:
        tempdir = tempfile.TemporaryDirectory()
        with ZipFile(path, "r") as zf:
            zf.extractall(tempdir.name)
        store = LocalStore(tempdir.name)

    root = zarr.group(store=store)
    if "_autoserialize" not in root.attrs:
        raise KeyError("Missing '_autoserialize' metadata in Zarr root attrs.")
    meta = cast(dict[str, Any], root.attrs["_autoserialize"])
    version = int(meta.get("version", 1))
    if version != 1:
        raise ValueError(f"Unsupported AutoSerialize version: {version}")

    # Read skip metadata (names/types) stored with the file, if present
    file_skip_names = set(cast(Sequence[str], root.attrs.get("_autoserialize_skip_names", [])))
    file_skip_types_raw = cast(
        Sequence[str] | None, root.attrs.get("_autoserialize_skip_types", [])
    )
    file_skip_types = (
        tuple(
            # Import each type by fully-qualified name from string
            __import__(t.rpartition(".")[0], fromlist=[t.rpartition(".")[2]]).__dict__[  # type: ignore[index]
                t.rpartition(".")[2]
            ]
            for t in file_skip_types_raw
        )
        if file_skip_types_raw
        else tuple()
    )

    # Merge user-specified and file-stored skip lists/types (avoid duplicates)
    skip_names = user_skip_names | file_skip_names
    skip_types = user_skip_types + tuple(t for t in file_skip_types if t not in user_skip_types)

    # Dynamically import target class, then reconstruct from Zarr
    mod = __import__(cast(str, meta["class_module"]), fromlist=[cast(str, meta["class_name"])])
    cls = getattr(mod, cast(str, meta["class_name"]))
    return cls._recursive_load(root, skip_names=skip_names, skip_types=skip_types)


# ---------------------------------------------------------------------------
# Shared harness: object graph, snapshots, pruning, tree comparison
# ---------------------------------------------------------------------------


class Leaf(AutoSerialize):
    def __init__(self, seed):
        rng = np.random.default_rng(seed)
        self.data = rng.normal(size=(3, 5))  # non-square float64
        self.label = f"leaf{seed}"
        self.count = seed
        self.flag = bool(seed % 2)
        self.weights = torch.arange(7, dtype=torch.float32) * seed
        self.shape_info = (3, 5)
        self.meta = {"a": 1, "b": "x"}


class Mid(AutoSerialize):
    def __init__(self, seed):
        self.leaf = Leaf(seed + 1)
        self.data = np.arange(4, dtype=np.int16).reshape(1, 4)
        self.label = "mid"
        self.ratio = 0.25
        self.empty = np.zeros((0, 3))


class Top(AutoSerialize):
    def __init__(self):
        self.mid = Mid(10)
        self.leaf = Leaf(1)
        self.data = (np.arange(6).reshape(2, 3, 1) * (1 + 2j)).astype(np.complex64)
        self.label = "top"
        self.count = 3
        self.where = Path("some") / "where"
        self.tags = ["a", "b", 3]
        self.none_val = None
        self.tensor = torch.ones(2, 3, dtype=torch.float64)


def snap(v):
    """Canonical, comparable snapshot of a loaded value (recursive)."""
    if AutoSerialize._is_autoserialize_instance(v):
        return ("obj", type(v).__module__, type(v).__qualname__,
                {k: snap(x) for k, x in sorted(vars(v).items())})
    if isinstance(v, torch.Tensor):
        a = v.detach().cpu().numpy()
        return ("tensor", str(v.dtype), tuple(v.shape), bool(v.requires_grad), a.tobytes())
    if isinstance(v, np.ndarray):
        return ("ndarray", str(v.dtype), tuple(v.shape), np.ascontiguousarray(v).tobytes())
    if isinstance(v, np.generic):
        return ("npscalar", str(v.dtype), v.item())
    if isinstance(v, (list, tuple)):
        return (type(v).__name__, [snap(x) for x in v])
    if isinstance(v, set):
        return ("set", sorted(repr(snap(x)) for x in v))
    if isinstance(v, dict):
        return ("dict", {str(k): snap(x) for k, x in sorted(v.items(), key=lambda kv: str(kv[0]))})
    if isinstance(v, Path):
        return ("path", str(v))
    if isinstance(v, (int, float, str, bool, type(None))):
        return (type(v).__name__, v)
    if isinstance(v, torch.optim.Optimizer):
        return ("optim", type(v).__name__, repr(v.state_dict()["param_groups"]),
                [snap(p) for g in v.param_groups for p in g["params"]])
    if hasattr(v, "step") and hasattr(v, "get_last_lr"):
        return ("sched", type(v).__name__, repr(sorted(
            (k, repr(x)) for k, x in v.state_dict().items())))
    if isinstance(v, torch.nn.Module):
        return ("module", type(v).__name__,
                {k: snap(t) for k, t in v.state_dict().items()})
    return ("other", type(v).__name__, repr(v))


def prune(obj, names=(), types=()):
    """Expected snapshot: drop skipped names / instances of skipped types at every object level."""
    assert AutoSerialize._is_autoserialize_instance(obj)
    out = {}
    for k, x in sorted(vars(obj).items()):
        if k in names or (types and isinstance(x, tuple(types))):
            continue
        if AutoSerialize._is_autoserialize_instance(x):
            out[k] = prune(x, names, types)
        else:
            out[k] = snap(x)
    return ("obj", type(obj).__module__, type(obj).__qualname__, out)


def all_names(s, acc=None):
    """All attribute names appearing at any object level of snapshot s."""
    acc = set() if acc is None else acc
    if isinstance(s, tuple) and s and s[0] == "obj":
        for k, x in s[3].items():
            acc.add(k)
            all_names(x, acc)
    return acc


def read_tree(path):
    """Relative file name -> bytes for a saved dir store or a zip archive."""
    path = str(path)
    out = {}
    if os.path.isdir(path):
        for dp, _, fns in os.walk(path):
            for fn in fns:
                full = os.path.join(dp, fn)
                with open(full, "rb") as fh:
                    out[os.path.relpath(full, path)] = fh.read()
    else:
        with ZipFile(path, "r") as zf:
            for n in zf.namelist():
                out[n] = zf.read(n)
    return out


def _canon_file(name, data):
    if os.path.basename(name) == "zarr.json":
        d = json.loads(data)
        att = d.get("attributes", {})
        if "_autoserialize_skip_names" in att:
            att["_autoserialize_skip_names"] = sorted(att["_autoserialize_skip_names"])
        return json.dumps(d, sort_keys=False)
    return data


def assert_same_tree(p1, p2, what=""):
    t1, t2 = read_tree(p1), read_tree(p2)
    assert sorted(t1) == sorted(t2), f"{what}: file sets differ: {sorted(set(t1) ^ set(t2))}"
    for n in t1:
        assert _canon_file(n, t1[n]) == _canon_file(n, t2[n]), f"{what}: content differs in {n}"


def root_attrs(path):
    """Root group attributes of a saved dir store or zip archive."""
    t = read_tree(path)
    return json.loads(t["zarr.json"])["attributes"]


def quiet(fn, *a, **k):
    """Call fn with stdout captured; returns (result, captured_text)."""
    buf = io.StringIO()
    with contextlib.redirect_stdout(buf):
        r = fn(*a, **k)
    return r, buf.getvalue()


# ---------------------------------------------------------------------------
# Demo body (patch 1)
# ---------------------------------------------------------------------------


class Unpicklable:
    def __reduce__(self):
        raise RuntimeError("cannot pickle me")


class Broken(AutoSerialize):
    def __init__(self):
        self.a = 1
        self.b = np.arange(3)
        self.c = Unpicklable()
        self.d = "after"


def gen_skip():
    # single-pass iterable mixing names and types
    yield "label"
    yield np.ndarray
    yield "count"


NAME_SUBSETS = [
    "label",
    ["data", "label"],
    ["leaf"],
    ["tensor", "weights", "meta", "nonexistent", "count"],
    ("mid", "data", "where", "tags", "none_val"),
    ["not_there", "also_missing"],
]

TYPE_LISTS = [
    [np.ndarray],
    torch.Tensor,
    [Leaf, dict],
    [tuple, list, str],
    [np.ndarray, "label"],
    ["leaf", torch.Tensor, "count", dict],
    ("label", "label", np.ndarray, np.ndarray),
]

EXTS = (".zip", "")


def as_lists(skip):
    if isinstance(skip, (str, type)):
        skip = [skip]
    skip = list(skip)
    return [s for s in skip if isinstance(s, str)], [s for s in skip if isinstance(s, type)]


def expect_raises(exc, fn, *a, **k):
    try:
        quiet(fn, *a, **k)
    except exc:
        return
    raise AssertionError(f"expected {exc.__name__}")


def main():
    top = Top()
    with tempfile.TemporaryDirectory() as td:
        td = Path(td)
        n = 0

        def fresh(ext):
            nonlocal n
            n += 1
            return td / f"f{n}{ext}"

        # reference: full save, full load, per store
        p_full, full, full_s = {}, {}, {}
        for ext in EXTS:
            p_full[ext] = fresh(ext)
            top.save(p_full[ext])
            full[ext] = load(p_full[ext])
            full_s[ext] = snap(full[ext])
            assert full_s[ext] == prune(full[ext]), "prune without skipping is the identity"
            att = root_attrs(p_full[ext])
            assert att["_autoserialize_skip_names"] == [] and att["_autoserialize_skip_types"] == []
        assert full_s[".zip"] == full_s[""], "both stores load the same object"
        assert {"data", "label", "leaf", "mid", "weights", "empty"} <= all_names(full_s[""])

        # ---- names: save-time, load-time, both; persisted lists honoured ----
        for i, S in enumerate(NAME_SUBSETS):
            names, _ = as_lists(S)
            saved = {}
            for ext in EXTS:
                expected = prune(full[ext], names=set(names))
                p = saved[ext] = fresh(ext)
                top.save(p, skip=S)
                assert sorted(root_attrs(p)["_autoserialize_skip_names"]) == sorted(set(names))
                got_save = snap(load(p))  # lists recorded in the file, not repeated
                got_load = snap(load(p_full[ext], skip=S))
                assert got_save == expected, f"save-time name skip {S!r} ({ext or 'dir'})"
                assert got_load == expected, f"load-time name skip {S!r} ({ext or 'dir'})"
                assert not (all_names(got_save) & set(names))
            # old vs new on one store (alternating): same files, same loaded objects;
            # skipping at both times gives the union
            ext = EXTS[i % 2]
            p = saved[ext]
            S2 = NAME_SUBSETS[(i + 3) % len(NAME_SUBSETS)]
            names2, _ = as_lists(S2)
            p_old = fresh(ext)
            orig_save(top, p_old, skip=S)
            assert_same_tree(p_old, p, f"names {S!r}")
            got_both = snap(load(p, skip=S2))
            assert got_both == prune(full[ext], names=set(names) | set(names2))
            assert snap(orig_load(p_full[ext], skip=S)) == got_load
            assert snap(orig_load(p_old, skip=S2)) == got_both

        # ---- types (and mixed lists) at save time ----
        for i, T in enumerate(TYPE_LISTS):
            names, types = as_lists(T)
            saved = {}
            for ext in EXTS:
                expected = prune(full[ext], names=set(names), types=types)
                p = saved[ext] = fresh(ext)
                top.save(p, skip=T)
                att = root_attrs(p)
                assert att["_autoserialize_skip_types"] == [
                    f"{t.__module__}.{t.__qualname__}" for t in types
                ]
                assert sorted(att["_autoserialize_skip_names"]) == sorted(set(names))
                assert snap(load(p)) == expected, f"save-time type skip {T!r} ({ext or 'dir'})"
            ext = EXTS[(i + 1) % 2]
            p = saved[ext]
            p_old = fresh(ext)
            orig_save(top, p_old, skip=T)
            assert_same_tree(p_old, p, f"types {T!r}")
            # repeating the same skip at load time changes nothing (old and new loader)
            assert snap(load(p_old, skip=T)) == expected
            assert snap(orig_load(p, skip=T)) == expected

        # ---- single-pass iterable / frozenset: the two-pass split is preserved ----
        for ext in EXTS:
            p_new, p_old = fresh(ext), fresh(ext)
            top.save(p_new, skip=gen_skip())
            orig_save(top, p_old, skip=gen_skip())
            assert_same_tree(p_old, p_new, "generator skip")
            att = root_attrs(p_new)
            assert sorted(att["_autoserialize_skip_names"]) == ["count", "label"]
            assert att["_autoserialize_skip_types"] == []  # generator exhausted by the names pass
            want = prune(full[ext], names={"label", "count"})
            assert snap(load(p_new)) == want
            assert snap(load(p_full[ext], skip=gen_skip())) == want
            assert snap(orig_load(p_full[ext], skip=gen_skip())) == want
        S = frozenset({"data", "tags", torch.Tensor})
        p_new, p_old = fresh(".zip"), fresh(".zip")
        top.save(p_new, skip=S)
        orig_save(top, p_old, skip=S)
        assert_same_tree(p_old, p_new, "frozenset skip")
        assert snap(load(p_new)) == prune(full[".zip"], names={"data", "tags"}, types=[torch.Tensor])

        # ---- failure ordering: bad skip is detected after the overwrite handling ----
        savers = (lambda p, **k: top.save(p, **k), lambda p, **k: orig_save(top, p, **k))
        for j, saver in enumerate(savers):
            ext = EXTS[j]
            p = fresh(ext)
            saver(p)
            assert os.path.exists(p)
            expect_raises(FileExistsError, saver, p, skip=["label"])
            assert snap(load(p)) == full_s[ext]  # untouched
            expect_raises(TypeError, saver, p, mode="o", skip=5)
            assert not os.path.exists(p), "mode='o' removes the old file before skip is parsed"
            expect_raises(ValueError, saver, p, skip="label", compression_level=11)
            assert not os.path.exists(p)

        # ---- serialisation failing half-way leaves nothing behind; skipping the culprit helps
        b = Broken()
        for ext in EXTS:
            for failing in (lambda p: b.save(p), lambda p: orig_save(b, p)):
                p = fresh(ext)
                expect_raises(RuntimeError, failing, p)
                assert not os.path.exists(p)
            for culprit in ("c", Unpicklable):
                p_new, p_old = fresh(ext), fresh(ext)
                b.save(p_new, skip=culprit)
                orig_save(b, p_old, skip=culprit)
                assert_same_tree(p_old, p_new, f"Broken skip {culprit!r}")
                lb = load(p_new)
                assert sorted(vars(lb)) == ["a", "b", "d"] and lb.d == "after" and lb.a == 1
        assert root_attrs(p_new)["_autoserialize_skip_types"] == ["__main__.Unpicklable"]

        # ---- load(): skip is parsed before the path is touched ----
        for loader in (load, orig_load):
            expect_raises(TypeError, loader, td / "does_not_exist.zip", skip=5)
            expect_raises(FileNotFoundError, loader, td / "does_not_exist.zip", skip="x")

        # store='zip' without extension appends .zip (with a warning), store='dir' with one raises
        _, text = quiet(top.save, td / "noext", store="zip", skip=["leaf"])
        assert "appending .zip" in text and os.path.isfile(td / "noext.zip")
        assert "leaf" not in vars(load(td / "noext.zip"))
        expect_raises(ValueError, top.save, td / "x.zarr", store="dir", skip="leaf")

    print("PASS")


if __name__ == "__main__":
    main()
