"""C19 demo (shared by all five behaviour-preserving patches).

Usage: PYTHONPATH=<root>/src /venv/bin/python demo.py

ORIG_SRC below is a VERBATIM copy of src/quantem/core/config.py at the worktree
HEAD (ee49a05).  It is executed as a private module and compared, bit for bit,
with the live quantem.core.config on the same histories.
"""
ORIG_SRC = r'''from __future__ import annotations

import ast
import os
import threading
import warnings
from collections.abc import Iterator, Mapping, Sequence
from pathlib import Path
from typing import TYPE_CHECKING, Any, Literal, Union

import yaml

if TYPE_CHECKING:
    import cupy as cp  # type: ignore
    import torch  # type: ignore

NUM_DEVICES = 0
_defaults = {}
try:
    import torch as torch  # type: ignore

    NUM_DEVICES = torch.cuda.device_count()
    _defaults["has_torch"] = True
except ModuleNotFoundError:
    _defaults["has_torch"] = False
try:
    import cupy as cp  # type: ignore

    NUM_DEVICES = cp.cuda.runtime.getDeviceCount()
    _defaults["has_cupy"] = True
except ModuleNotFoundError:
    _defaults["has_cupy"] = False
except Exception as e:
    if "cuda" in str(e):
        NUM_DEVICES = 0
    _defaults["has_cupy"] = False


defaults: list[Mapping] = [_defaults]
no_default = "__no_default__"
config_lock = threading.Lock()

PATH = Path(os.getenv("QUANTEM_CONFIG", "~/.config/quantem")).expanduser().resolve()

config: dict = {}
# aliases: dict[str, dict[str, str]] = {"device": {"gpu": "cuda:0"}}
aliases: dict[str, dict[str, str]] = {}
deprecations: dict[str, str | None] = {}


class set:
    """Temporarily set configuration values within a context manager

    Parameters
    ----------
    arg : mapping or None, optional
        A mapping of configuration key-value pairs to set.
    **kwargs :
        Additional key-value pairs to set. If ``arg`` is provided, values set
        in ``arg`` will be applied before those in ``kwargs``.
        Double-underscores (``__``) in keyword arguments will be replaced with
        ``.``, allowing nested values to be easily set.
    """

    def __init__(
        self,
        arg: Union[Mapping, None] = None,
        config: dict = config,
        **kwargs,
    ):
        self.config: dict = config
        self._record: list[tuple[Literal["insert", "replace"], tuple[str, ...], Any]] = []

        if arg is not None:
            if not isinstance(arg, (Mapping)):
                raise TypeError(f"arg must be a dictionary, got {type(arg).__name__}")
            for key, value in arg.items():
                key, value = check_key_val(key, value)
                self._assign(key.split("."), value, config)
        if kwargs:
            for key, value in kwargs.items():
                key = key.replace("__", ".")
                key, value = check_key_val(key, value)
                self._assign(key.split("."), value, config)

    def __enter__(self):
        return self.config

    def __exit__(self, exc_type, exc_value, traceback):
        for op, path, value in reversed(self._record):
            d = self.config
            if op == "replace":
                for key in path[:-1]:
                    d = d.setdefault(key, {})
                d[path[-1]] = value
            else:  # insert
                for key in path[:-1]:
                    try:
                        d = d[key]
                    except KeyError:
                        break
                else:
                    d.pop(path[-1], None)

    def _assign(
        self,
        keys: Sequence[str],
        value: Any,
        d: dict,
        path: tuple[str, ...] = (),
        record: bool = True,
    ) -> None:
        """Assign value into a nested configuration dictionary

        Parameters
        ----------
        keys : Sequence[str]
            The nested path of keys to assign the value.
        value : object
        d : dict
            The part of the nested dictionary into which we want to assign the
            value
        path : tuple[str], optional
            The path history up to this point.
        record : bool, optional
            Whether this operation needs to be recorded to allow for rollback.
        """
        key = canonical_name(keys[0], d)

        path = path + (key,)

        if len(keys) == 1:
            if record:
                if key in d:
                    self._record.append(("replace", path, d[key]))
                else:
                    self._record.append(("insert", path, None))
            d[key] = value
        else:
            if key not in d:
                if record:
                    self._record.append(("insert", path, None))
                d[key] = {}
                # No need to record subsequent operations after an insert
                record = False
            self._assign(keys[1:], value, d[key], path, record=record)


def refresh(config: dict = config, defaults: list[Mapping] = defaults, **kwargs) -> None:
    """
    Update configuration by re-reading yaml files and env variables

    This mutates the global quantem.config.config, or the config parameter if
    passed in.

    This goes through the following stages:

    1.  Clearing out all old configuration
    2.  Updating from the stored defaults from downstream libraries
        (see update_defaults)
    3.  Updating from yaml files and environment variables

    Note that some functionality only checks configuration once at startup and
    may not change behavior, even if configuration changes.  It is recommended
    to restart your python process if convenient to ensure that new
    configuration changes take place.

    See Also
    --------
    quantem.config.collect: for parameters
    quantem.config.update_defaults
    """
    config.clear()

    for d in defaults:
        update(config, d, priority="new")

    update(config, collect(**kwargs))


def get(
    key: str,
    default: Any = no_default,
    config: dict = config,
    override_with: Any = None,
) -> Any:
    """
    Get elements from global config

    If ``override_with`` is not None this value will be passed straight back.

    Use '.' for nested access
    """
    if override_with is not None:
        return override_with
    keys = key.split(".")
    result = config
    for k in keys:
        k = canonical_name(k, result)
        try:
            result = result[k]
        except (TypeError, IndexError, KeyError):
            if default is not no_default:
                return default
            else:
                raise
    return result


def update_defaults(new: dict, config: dict = config, defaults: list[Mapping] = defaults) -> None:
    """Add a new set of defaults to the configuration

    It does two things:

    1.  Add the defaults to a global collection to be used by refresh later
    2.  Updates the global config with the new configuration
        prioritizing older values over newer ones
    """
    for key, value in new.items():
        key, nval = check_key_val(key, value)
        new[key] = nval

    current_defaults = merge(*defaults)
    defaults.append(new)
    update(config, new, priority="new-defaults", defaults=current_defaults)


def _initialize() -> None:
    fn = os.path.join(os.path.dirname(__file__), "quantem.yaml")

    with open(fn) as f:
        _defaults = yaml.safe_load(f)

    update_defaults(_defaults)


def canonical_name(k: str, config: dict) -> str:
    """Return the canonical name for a key.

    Handles user choice of '-' or '_' conventions by standardizing on whichever
    version was set first. If a key already exists in either hyphen or
    underscore form, the existing version is the canonical name. If neither
    version exists the original key is used as is.
    """
    try:
        if k in config:
            return k
    except TypeError:
        # config is not a mapping, return the same name as provided
        return k

    altk = k.replace("_", "-") if "_" in k else k.replace("-", "_")

    if altk in config:
        return altk

    return k


def update(
    old: dict,
    new: Mapping,
    priority: Literal["old", "new", "new-defaults"] = "new",
    defaults: Mapping | None = None,
) -> dict:
    """Update a nested dictionary with values from another

    This is like dict.update except that it smoothly merges nested values

    This operates in-place and modifies old

    Parameters
    ----------
    priority: string {'old', 'new', 'new-defaults'}
        If new (default) then the new dictionary has preference.
        Otherwise the old dictionary does.
        If 'new-defaults', a mapping should be given of the current defaults.
        Only if a value in ``old`` matches the current default, it will be
        updated with ``new``.

    Examples
    --------
    >>> a = {'x': 1, 'y': {'a': 2}}
    >>> b = {'x': 2, 'y': {'b': 3}}
    >>> update(a, b)  # doctest: +SKIP
    {'x': 2, 'y': {'a': 2, 'b': 3}}

    >>> a = {'x': 1, 'y': {'a': 2}}
    >>> b = {'x': 2, 'y': {'b': 3}}
    >>> update(a, b, priority='old')  # doctest: +SKIP
    {'x': 1, 'y': {'a': 2, 'b': 3}}

    >>> d = {'x': 0, 'y': {'a': 2}}
    >>> a = {'x': 1, 'y': {'a': 2}}
    >>> b = {'x': 2, 'y': {'a': 3, 'b': 3}}
    >>> update(a, b, priority='new-defaults', defaults=d)  # doctest: +SKIP
    {'x': 1, 'y': {'a': 3, 'b': 3}}

    """
    for k, v in new.items():
        k, v = check_key_val(k, v)
        k = canonical_name(k, old)

        if isinstance(v, Mapping):
            if k not in old or old[k] is None or not isinstance(old[k], dict):
                old[k] = {}
            update(
                old[k],
                v,
                priority=priority,
                defaults=defaults.get(k) if defaults else None,
            )
        else:
            if (
                priority == "new"
                or k not in old
                or (
                    priority == "new-defaults"
                    and defaults
                    and k in defaults
                    and defaults[k] == old[k]
                )
            ):
                old[k] = v

    return old


def collect(path: Path | str = PATH, env: Mapping[str, str] | None = None) -> dict:
    """
    Collect configuration from paths and environment variables

    Parameters
    ----------
    paths : list[str]
        A list of paths to search for yaml config files

    env : Mapping[str, str]
        The system environment variables

    Returns
    -------
    config: dict

    """
    if env is None:
        env = os.environ

    # configs = [*collect_yaml(paths=paths), collect_env(env=env)] # skipping env
    configs = list([*collect_yaml(path=Path(path))])
    return merge(*configs)


def collect_yaml(
    path: Path,
) -> Iterator[dict]:
    """Collect configuration from yaml files

    This searches through a list of paths, expands to find all yaml or json
    files, and then parses each file.
    """
    file_paths = []
    if path.exists():
        if path.is_dir():
            try:
                file_paths.extend(path.glob("*.json"))
                file_paths.extend(path.glob("*.yaml"))
                file_paths.extend(path.glob("*.yml"))
                file_paths = sorted(file_paths)
            except OSError:
                # Ignore permission errors
                pass
        else:
            file_paths.append(path)
    # Parse yaml files
    for p in file_paths:
        config = _load_config_file(p)
        if config is not None:
            yield config


def collect_env(env: Mapping[str, str] | None = None) -> dict:
    """Collect config from environment variables

    This grabs environment variables of the form "QUANTEM_FOO__BAR_BAZ=123" and
    turns these into config variables of the form ``{"foo": {"bar-baz": 123}}``
    It transforms the key and value in the following way:

    -  Lower-cases the key text
    -  Treats ``__`` (double-underscore) as nested access
    -  Calls ``ast.literal_eval`` on the value
    """

    if env is None:
        env = os.environ

    d = {}

    for name, value in env.items():
        if name.startswith("QUANTEM_"):
            varname = name[5:].lower().replace("__", ".")
            d[varname] = interpret_value(value)

    result: dict = {}
    set(d, config=result)
    return result


def interpret_value(value: str) -> Any:
    try:
        return ast.literal_eval(value)
    except (SyntaxError, ValueError):
        pass

    # Avoid confusion of YAML vs. Python syntax
    hardcoded_map = {"none": None, "null": None, "false": False, "true": True}
    return hardcoded_map.get(value.lower(), value)


def merge(*dicts: Mapping) -> dict:
    """Update a sequence of nested dictionaries

    This prefers the values in the latter dictionaries to those in the former

    Examples
    --------
    >>> a = {'x': 1, 'y': {'a': 2}}
    >>> b = {'y': {'b': 3}}
    >>> merge(a, b)  # doctest: +SKIP
    {'x': 1, 'y': {'a': 2, 'b': 3}}
    """
    result: dict = {}
    for d in dicts:
        update(result, d)
    return result


def _load_config_file(path: str) -> dict | None:
    """A helper for loading a config file from a path, and erroring
    appropriately if the file is malformed."""
    try:
        with open(path) as f:
            config = yaml.safe_load(f.read())
    except OSError:
        # Ignore permission errors
        return None
    except Exception as exc:
        raise ValueError(
            f"A quantEM config file at {path!r} is malformed, original error message:\n\n{exc}"
        ) from None
    if config is not None and not isinstance(config, dict):
        raise ValueError(
            f"A quantEM config file at {path!r} is malformed - config files must have "
            f"a dict as the top level object, got a {type(config).__name__} instead"
        )
    return config


def check_key_val(key: str, val: Any, deprecations: dict = deprecations) -> tuple[str, Any]:
    """Check if the provided value has been renamed or removed

    Parameters
    ----------
    key : str
        The configuration key to check
    deprecations : Dict[str, str]
        The mapping of aliases

    Examples
    --------
    >>> deprecations = {"old_key": "new_key", "invalid": None}
    >>> check_deprecations("old_key", deprecations=deprecations)  # doctest: +SKIP
    UserWarning: Configuration key "old_key" has been deprecated. Please use "new_key"
    instead.

    >>> check_deprecations("invalid", deprecations=deprecations)
    Traceback (most recent call last):
        ...
    ValueError: Configuration value "invalid" has been removed

    >>> check_deprecations("another_key", deprecations=deprecations)
    'another_key'

    Returns
    -------
    new: str
        The proper key, whether the original (if no deprecation) or the aliased
        value
    """
    if key in deprecations:
        new = deprecations[key]
        if new:
            warnings.warn(
                'Configuration key "{}" has been deprecated. Please use "{}" instead'.format(
                    key, new
                )
            )
        else:
            raise ValueError(f'Configuration value "{key}" has been removed')

    new_val = val
    if key in aliases:
        val_aliases = aliases[key]
        if val in val_aliases:
            new_val = val_aliases[val]

    if key == "device":
        if "cpu" in str(new_val):
            new_val = "cpu"
        else:
            new_val, gpu_id = validate_device(new_val)
            if "cuda" in new_val:
                torch.cuda.set_device(gpu_id)
                if config["has_cupy"]:
                    cp.cuda.runtime.setDevice(gpu_id)
    return key, new_val


def validate_device(dev: str | int | torch.device | None = None) -> tuple[str, int]:
    """Return a normalized (device_str, device_id) tuple for torch.

    Examples
    --------
    >>> validate_device("cpu")       # ('cpu', -1)
    >>> validate_device("cuda:1")    # ('cuda:1', 1)
    >>> validate_device(0)           # ('cuda:0', 0) if CUDA available
    >>> validate_device("mps")       # ('mps', 0) if MPS available
    >>> validate_device(None)        # current default device
    """
    if dev is None:
        dev = torch.device(
            "cuda" if torch.cuda.is_available() else "mps" if torch.mps.is_available() else "cpu"
        )
    elif isinstance(dev, str):
        if "cuda" in dev.lower():
            dev = torch.device(dev)
        elif "gpu" in dev.lower():
            if torch.cuda.is_available():
                dev = torch.device("cuda")
            elif torch.mps.is_available():
                dev = torch.device("mps")
            else:
                raise RuntimeError("gpu requested but cuda and mps are not available.")
        elif dev.lower() == "mps":
            dev = torch.device("mps")
        elif dev.lower() == "cpu":
            dev = torch.device("cpu")
        else:
            raise ValueError(
                f"Requested unknown device type: {dev} (must be 'cuda', 'mps', or 'cpu')"
            )
    elif isinstance(dev, int):
        if dev < 0:
            raise ValueError(f"Requested negative GPU index: {dev} (must be >= 0)")
        if torch.cuda.is_available():
            dev = torch.device(f"cuda:{dev}")
        else:
            raise RuntimeError(f"Requested GPU index '{dev}' device, but cuda is not available.")
    elif not isinstance(dev, torch.device):
        raise TypeError(f"Unsupported device type: {type(dev)} ({dev})")

    if dev.type == "cuda":
        if not torch.cuda.is_available():
            raise RuntimeError("CUDA device requested but not available.")
        index = dev.index if dev.index is not None else torch.cuda.current_device()
        if index >= NUM_DEVICES:
            raise RuntimeError(
                f"CUDA device index {index} is out of range for {NUM_DEVICES} available devices."
            )
        return f"cuda:{index}", index

    elif dev.type == "mps":
        if not torch.mps.is_available():
            raise RuntimeError("MPS device requested but not available.")
        return "mps", 0

    elif dev.type == "cpu":
        return "cpu", -1

    else:
        raise ValueError(f"Unsupported torch device type: {dev.type}")


def write(path: Path | str = PATH / "config.yaml") -> None:
    """Write the current configuration to a yaml file.

    Parameters
    ----------
    path : Path or str, optional
        Path to write the yaml file to. Defaults to ~/.config/quantem/config.yaml
    """
    path = Path(path)
    path.parent.mkdir(parents=True, exist_ok=True)

    print("writing config to: ", path)
    with open(path, "w") as f:
        yaml.dump(config, f)


def set_device(dev: str | int | "torch.device") -> None:
    """Set the current device. Accepts a torch-style string, an integer index, or a
    torch.device object.
    Examples
    --------
    >>> set_device("cuda:0")
    >>> set_device(0)
    >>> set_device(torch.device("cuda:0"))
    >>> set_device("mps")
    >>> set_device("cpu")
    >>> set_device("gpu")
    """
    set({"device": dev})


def get_device() -> str:
    """Get the current device"""
    return get("device")


def device() -> str:
    """Get the current device"""
    return get("device")


refresh()
_initialize()
'''


# --------------------------------------------------------------------------
# C19 demo: the configuration store is a last-writer-wins nested map.
#
# Part A  differential: the ORIGINAL config module (verbatim copy above, in
#         ORIG_SRC) is executed as a private module and driven with exactly
#         the same random histories as the live quantem.core.config; every
#         return value, exception (type + message), warning, rollback record,
#         config dict and defaults list must agree (repr => key ORDER and
#         value TYPES are compared too).
# Part B  the property itself against a flat dictionary reference model.
# --------------------------------------------------------------------------
import copy
import json
import os
import random
import sys
import tempfile
import types
import warnings

import torch

import quantem.core.config as NEW

OLD = types.ModuleType("orig_quantem_config")
OLD.__file__ = NEW.__file__  # so that _initialize() reads the same quantem.yaml
exec(compile(ORIG_SRC, "<orig_quantem_config>", "exec"), OLD.__dict__)

N_COMPARED = 0


def outcome(fn, *args, **kwargs):
    """Run fn, return a comparable description of everything observable."""
    with warnings.catch_warnings(record=True) as rec:
        warnings.simplefilter("always")
        try:
            res = fn(*args, **kwargs)
            out = ("ok", repr(res))
        except Exception as e:  # noqa: BLE001
            out = ("exc", type(e).__name__, str(e))
            res = None
    warns = [(w.category.__name__, str(w.message)) for w in rec]
    return out + (tuple(warns),), res


def noaddr(o):
    """drop repr(result) (a `set` instance prints its address); keep everything else"""
    return (o[0], o[2]) if o[0] == "ok" else o


def same(label, a, b):
    global N_COMPARED
    N_COMPARED += 1
    if a != b:
        raise AssertionError(f"{label}: new != old\n new: {a!r}\n old: {b!r}")


# ----------------------------------------------------------------- generators
SEGS = [
    "a", "b-c", "b_c", "d_e-f", "d-e_f", "d-e-f", "d_e_f", "x", "y-z", "y_z", "w",
    "device", "dtype_real", "dtype-real", "fft-cache-size", "fft_cache_size", "viz",
]
DEVICES = [
    "cpu", "CPU", "cpu:0", "cuda", "cuda:0", "cuda:7", "gpu", "GPU", "mps", "tpu", "", 0, 1, -1,
    3.5, None, True, torch.device("cpu"), torch.device("cuda:0"), torch.device("meta"), ["cpu"],
]


def rnd_scalar(r):
    return r.choice(
        [0, 1, 2, -3, 1.0, 2.5, "s", "float32", "cpu", None, True, False, [1, 2], (3,), "0 MB"]
    )


def rnd_map(r, depth=0):
    out = {}
    for _ in range(r.randint(0, 3)):
        k = r.choice(SEGS)
        if depth < 2 and r.random() < 0.35:
            out[k] = rnd_map(r, depth + 1)
        elif k == "device" and r.random() < 0.7:
            out[k] = r.choice(DEVICES)
        else:
            out[k] = rnd_scalar(r)
    return out


def rnd_value(r, key):
    if key == "device" and r.random() < 0.8:
        return r.choice(DEVICES)
    if r.random() < 0.3:
        return rnd_map(r)
    return rnd_scalar(r)


def rnd_key(r):
    return ".".join(r.choice(SEGS) for _ in range(r.choice([1, 1, 2, 2, 3])))


def rnd_setarg(r):
    out = {}
    for _ in range(r.randint(1, 3)):
        k = rnd_key(r)
        out[k] = rnd_value(r, k)
    return out


def rnd_kwargs(r):
    out = {}
    for _ in range(r.randint(1, 2)):
        k = "__".join(r.choice(SEGS) for _ in range(r.choice([1, 2, 3])))
        if r.random() < 0.8:
            k = k.replace("-", "_")
        out[k] = rnd_value(r, k)
    return out


# --------------------------------------------------------- Part A differential
def part_a_histories(tmp):
    empty = os.path.join(tmp, "empty")
    os.mkdir(empty)
    multi = os.path.join(tmp, "multi")
    os.mkdir(multi)
    with open(os.path.join(multi, "b.yaml"), "w") as f:
        f.write("viz:\n  cmap: fromfile\n  y-z: 5\nb_c: 7\nmkl: {threads: 9}\n")
    with open(os.path.join(multi, "a.yml"), "w") as f:
        f.write("viz:\n  cmap: first\n  extra: 1\nx: null\n")
    with open(os.path.join(multi, "c.json"), "w") as f:
        json.dump({"viz": {"w": [1, 2]}, "b-c": 8, "a": {"x": {"y_z": 1}}}, f)
    with open(os.path.join(multi, "empty.yaml"), "w") as f:
        f.write("")
    single = os.path.join(tmp, "single.yaml")
    with open(single, "w") as f:
        f.write("a: {b-c: 1, b_c: 2}\ndtype-real: float64\n")
    bad = os.path.join(tmp, "bad.yaml")
    with open(bad, "w") as f:
        f.write("- 1\n- 2\n")
    paths = [empty, multi, single, bad, os.path.join(tmp, "missing")]

    for seed in range(400):
        r = random.Random(seed)
        cn, co = {}, {}
        dn, do = [], []
        if r.random() < 0.6:
            base = rnd_map(r)
            base.pop("device", None)
            for c, d, M in ((cn, dn, NEW), (co, do, OLD)):
                outcome(M.update_defaults, copy.deepcopy(base), config=c, defaults=d)
        for step in range(r.randint(3, 14)):
            op = r.choice(["set", "set", "kw", "ctx", "upd", "upd", "refresh", "get", "get"])
            lab = f"seed {seed} step {step} {op}"
            if op == "set":
                arg = rnd_setarg(r)
                if r.random() < 0.05:
                    arg = r.choice([[("a", 1)], 5, "a"])
                (on, sn), (oo, so) = (
                    outcome(NEW.set, copy.deepcopy(arg), config=cn),
                    outcome(OLD.set, copy.deepcopy(arg), config=co),
                )
                same(lab, noaddr(on), noaddr(oo))
                if sn is not None:
                    same(lab + " record", repr(sn._record), repr(so._record))
            elif op == "kw":
                kw = rnd_kwargs(r)
                arg = rnd_setarg(r) if r.random() < 0.3 else None
                (on, sn), (oo, so) = (
                    outcome(NEW.set, copy.deepcopy(arg), config=cn, **copy.deepcopy(kw)),
                    outcome(OLD.set, copy.deepcopy(arg), config=co, **copy.deepcopy(kw)),
                )
                same(lab, noaddr(on), noaddr(oo))
                if sn is not None:
                    same(lab + " record", repr(sn._record), repr(so._record))
            elif op == "ctx":
                arg, inner = rnd_setarg(r), rnd_setarg(r)
                res = []
                for M, c in ((NEW, cn), (OLD, co)):
                    log = []
                    try:
                        with M.set(copy.deepcopy(arg), config=c) as inside:
                            log.append(("in", repr(inside), inside is c))
                            if len(inner) > 1:
                                try:
                                    M.set(copy.deepcopy(inner), config=c)
                                except Exception as e:  # noqa: BLE001
                                    log.append(("inner-exc", type(e).__name__, str(e)))
                            log.append(("in2", repr(c)))
                    except Exception as e:  # noqa: BLE001
                        log.append(("exc", type(e).__name__, str(e)))
                    log.append(("out", repr(c)))
                    res.append(log)
                same(lab, res[0], res[1])
            elif op == "upd":
                new = rnd_map(r)
                an, ao = copy.deepcopy(new), copy.deepcopy(new)
                on, _ = outcome(NEW.update_defaults, an, config=cn, defaults=dn)
                oo, _ = outcome(OLD.update_defaults, ao, config=co, defaults=do)
                same(lab, on, oo)
                same(lab + " arg", repr(an), repr(ao))
            elif op == "refresh":
                p = r.choice(paths)
                on, _ = outcome(NEW.refresh, config=cn, defaults=dn, path=p)
                oo, _ = outcome(OLD.refresh, config=co, defaults=do, path=p)
                same(lab, on, oo)
            else:
                k = rnd_key(r)
                kwargs = {}
                if r.random() < 0.5:
                    kwargs["default"] = r.choice([None, 0, "dflt"])
                if r.random() < 0.1:
                    kwargs["override_with"] = r.choice([0, "ov", None])
                on, _ = outcome(NEW.get, k, config=cn, **kwargs)
                oo, _ = outcome(OLD.get, k, config=co, **kwargs)
                same(lab, on, oo)
            same(lab + " config", repr(cn), repr(co))
            same(lab + " defaults", repr(dn), repr(do))


def part_a_units():
    r = random.Random(12345)
    # update / merge on random nested dictionaries, all priorities
    for i in range(1500):
        old, new, dfl = rnd_map(r), rnd_map(r), rnd_map(r)
        if r.random() < 0.3:
            old = copy.deepcopy(new)
            if old and r.random() < 0.5:
                old[r.choice(list(old))] = None
        if r.random() < 0.4:
            dfl = copy.deepcopy(old)
        prio = r.choice(["old", "new", "new-defaults", "bogus"])
        d = r.choice([dfl, None, {}])
        a, b = copy.deepcopy(old), copy.deepcopy(old)
        on, rn = outcome(NEW.update, a, copy.deepcopy(new), priority=prio, defaults=copy.deepcopy(d))
        oo, ro = outcome(OLD.update, b, copy.deepcopy(new), priority=prio, defaults=copy.deepcopy(d))
        same(f"update {i}", on, oo)
        same(f"update {i} inplace", repr(a), repr(b))
        if on[0] == "ok":
            assert rn is a and ro is b, "update must return its first argument"
        dicts = [rnd_map(r) for _ in range(r.randint(0, 4))]
        if r.random() < 0.1:
            dicts.append(r.choice([None, 3, [1]]))
        on, rn = outcome(NEW.merge, *copy.deepcopy(dicts))
        oo, ro = outcome(OLD.merge, *copy.deepcopy(dicts))
        same(f"merge {i}", on, oo)
    # merge returns a fresh dict and does not alias/mutate its arguments
    a = {"x": 1, "y": {"a": 2}}
    b = {"y": {"b": 3}}
    a0, b0 = copy.deepcopy(a), copy.deepcopy(b)
    for M in (NEW, OLD):
        m = M.merge(a, b)
        assert m == {"x": 1, "y": {"a": 2, "b": 3}} and m is not a and m["y"] is not a["y"]
        assert a == a0 and b == b0
        assert M.merge() == {}

    # canonical_name
    confs = [
        {}, {"b-c": 1}, {"b_c": 1}, {"b-c": 1, "b_c": 2}, {"d-e-f": 1}, {"d_e_f": 1}, {"d_e-f": 1},
        {"d-e_f": 0, "d-e-f": 1}, 5, None, ["b-c"], "b_c", ("b_c",), {"": 1}, {"-": 1}, {"_": 2},
    ]
    for c in confs:
        for k in SEGS + ["", "-", "_", "__", "a-", "_a", "b--c", "b__c"]:
            on, _ = outcome(NEW.canonical_name, k, c)
            oo, _ = outcome(OLD.canonical_name, k, c)
            same(f"canonical_name {k!r} {c!r}", on, oo)
    for k in [None, 3, ("a",), b"b_c"]:
        for c in [{}, {"b-c": 1}, 5]:
            on, _ = outcome(NEW.canonical_name, k, c)
            oo, _ = outcome(OLD.canonical_name, k, c)
            same(f"canonical_name {k!r} {c!r}", on, oo)

    # check_key_val: devices, deprecations, value aliases
    deps = {"old_key": "new_key", "gone": None, "empty": ""}
    alias_tab = {
        "device": {"proc": "cpu", "accel": "cuda:0", 0: "cpu"},
        "mode": {"fast": "quick", "none": None, None: "nothing", 1: "one"},
        "emptytab": {},
    }
    for use_alias in (False, True):
        if use_alias:
            NEW.aliases.update(copy.deepcopy(alias_tab))
            OLD.aliases.update(copy.deepcopy(alias_tab))
        try:
            for key in ["device", "mode", "emptytab", "old_key", "gone", "empty", "x", "Device", ""]:
                vals = DEVICES + ["proc", "accel", "fast", "none", "FAST", 1, 1.0, {"a": 1}, {}, ()]
                for v in vals:
                    for dp in (None, deps):
                        kw = {} if dp is None else {"deprecations": dp}
                        on, _ = outcome(NEW.check_key_val, key, copy.deepcopy(v), **kw)
                        oo, _ = outcome(OLD.check_key_val, key, copy.deepcopy(v), **kw)
                        same(f"check_key_val {key!r} {v!r} alias={use_alias}", on, oo)
            if use_alias:
                for M in (NEW, OLD):
                    c = {}
                    M.set({"mode": "fast", "device": "proc", "other": "fast"}, config=c)
                    assert c == {"mode": "quick", "device": "cpu", "other": "fast"}, c
                    assert M.aliases == alias_tab, "alias table must not be mutated"
        finally:
            NEW.aliases.clear()
            OLD.aliases.clear()

    for v in DEVICES:
        on, _ = outcome(NEW.validate_device, v)
        oo, _ = outcome(OLD.validate_device, v)
        same(f"validate_device {v!r}", on, oo)

    # module state right after import (refresh() + _initialize() ran in both)
    same("initial config", repr(NEW.config), repr(OLD.config))
    same("initial defaults", repr(NEW.defaults), repr(OLD.defaults))


def part_a_global(tmp):
    """Same history on the real module-level store (default arguments)."""
    r = random.Random(777)
    empty = os.path.join(tmp, "empty_g")
    os.mkdir(empty)
    for step in range(300):
        op = r.choice(["set", "kw", "upd", "refresh", "get", "dev"])
        lab = f"global step {step} {op}"
        if op == "set":
            arg = rnd_setarg(r)
            on, _ = outcome(NEW.set, copy.deepcopy(arg))
            oo, _ = outcome(OLD.set, copy.deepcopy(arg))
            same(lab, noaddr(on), noaddr(oo))
        elif op == "kw":
            kw = rnd_kwargs(r)
            on, _ = outcome(NEW.set, **copy.deepcopy(kw))
            oo, _ = outcome(OLD.set, **copy.deepcopy(kw))
            same(lab, noaddr(on), noaddr(oo))
        elif op == "upd":
            new = rnd_map(r)
            on, _ = outcome(NEW.update_defaults, copy.deepcopy(new))
            oo, _ = outcome(OLD.update_defaults, copy.deepcopy(new))
            same(lab, on, oo)
        elif op == "refresh":
            on, _ = outcome(NEW.refresh, path=empty)
            oo, _ = outcome(OLD.refresh, path=empty)
            same(lab, on, oo)
        elif op == "dev":
            v = r.choice(DEVICES)
            on, _ = outcome(NEW.set_device, v)
            oo, _ = outcome(OLD.set_device, v)
            same(lab, on, oo)
            same(lab, NEW.get_device(), OLD.get_device())
            same(lab, NEW.device(), OLD.device())
        else:
            k = rnd_key(r)
            on, _ = outcome(NEW.get, k, "dflt")
            oo, _ = outcome(OLD.get, k, "dflt")
            same(lab, on, oo)
        same(lab + " config", repr(NEW.config), repr(OLD.config))
        same(lab + " defaults", repr(NEW.defaults), repr(OLD.defaults))


# ------------------------------------------------- Part B property vs. a model
TOP_LEAVES = ["k1", "k-2", "my-long-key"]
GROUPS = ["grp", "viz-opts"]
SUBGROUPS = ["sub-grp", "inner"]
MISSING = object()


def norm(seg):
    return seg.replace("-", "_")


def all_paths():
    ps = [(leaf,) for leaf in TOP_LEAVES]
    for g in GROUPS:
        ps += [(g, leaf) for leaf in TOP_LEAVES]
        for s in SUBGROUPS:
            ps += [(g, s, leaf) for leaf in TOP_LEAVES]
    return ps


PATHS = all_paths()


def spell(r, seg):
    """a random PURE spelling (all '-' or all '_') of one path segment"""
    return seg.replace("-", "_") if r.random() < 0.5 else seg.replace("_", "-")


def flatten(d, prefix=()):
    out = {}
    for k, v in d.items():
        p = prefix + (norm(k),)
        if isinstance(v, dict):
            sub = flatten(v, p)
            assert not (sub.keys() & out.keys()), f"two spellings of group {p} stored side by side"
            out.update(sub)
        else:
            assert p not in out, f"two spellings of {p} stored side by side"
            out[p] = v
    return out


def check_model(r, cfg, model, lab):
    flat = flatten(cfg)
    assert flat == model, f"{lab}: store != model\n store {flat}\n model {model}"
    for p, v in model.items():
        for _ in range(2):
            key = ".".join(spell(r, s) for s in p)
            got = NEW.get(key, config=cfg)
            assert got == v and type(got) is type(v), f"{lab}: get({key!r}) = {got!r}, expected {v!r}"
    # absent keys: default returned / KeyError raised
    for p in PATHS:
        np_ = tuple(norm(s) for s in p)
        if np_ not in model:
            key = ".".join(spell(r, s) for s in p)
            assert NEW.get(key, "absent", config=cfg) == "absent", (lab, key)
            try:
                NEW.get(key, config=cfg)
            except KeyError:
                pass
            else:
                raise AssertionError(f"{lab}: get({key!r}) should raise KeyError")


def nest(flatmap):
    """{path: v} (paths spelled) -> nested dict"""
    out = {}
    for p, v in flatmap.items():
        d = out
        for s in p[:-1]:
            d = d.setdefault(s, {})
        d[p[-1]] = v
    return out


def part_b_model(tmp):
    empty = os.path.join(tmp, "empty_b")
    os.mkdir(empty)
    counter = [0]

    def fresh(r):
        counter[0] += 1
        n = counter[0]
        return r.choice([n, float(n) + 0.5, f"v{n}", [n, n], (n,)])

    for seed in range(150):
        r = random.Random(10_000 + seed)
        cfg, defs = {}, []
        M, D = {}, {}  # model of current values / accumulated defaults (normalised paths)

        def exists(prefix):
            npre = tuple(norm(s) for s in prefix)
            return any(p[: len(npre)] == npre for p in M)

        def user_path(p):
            """random spelling; a group that does not exist yet is created in the
            default ('-') spelling, like the shipped yaml does"""
            out = []
            for i, s in enumerate(p):
                is_group = i < len(p) - 1
                if is_group and not exists(p[: i + 1]):
                    out.append(s)
                else:
                    out.append(spell(r, s))
            return tuple(out)

        def apply_defaults(newflat):
            NEW.update_defaults(nest(newflat), config=cfg, defaults=defs)
            for p, v in newflat.items():
                q = tuple(norm(s) for s in p)
                cur = D.get(q, MISSING)
                if q not in M or (cur is not MISSING and cur == M[q]):
                    M[q] = v
                D[q] = v

        # the shipped defaults: every path known, '-' spelling
        apply_defaults({p: fresh(r) for p in PATHS})
        check_model(r, cfg, M, f"seed {seed} init")
        assert len(defs) == 1

        for step in range(r.randint(4, 12)):
            op = r.choice(["set", "set", "kw", "setmap", "upd", "refresh", "ctx"])
            lab = f"model seed {seed} step {step} {op}"
            if op == "set":
                items = {}
                for _ in range(r.randint(1, 3)):
                    p = r.choice(PATHS)
                    items[p] = fresh(r)
                arg = {".".join(user_path(p)): v for p, v in items.items()}
                NEW.set(arg, config=cfg)
                for p, v in items.items():
                    M[tuple(norm(s) for s in p)] = v
            elif op == "kw":
                p = r.choice(PATHS)
                v = fresh(r)
                NEW.set(config=cfg, **{"__".join(user_path(p)): v})
                M[tuple(norm(s) for s in p)] = v
            elif op == "setmap":
                # a mapping value REPLACES the whole group (last writer wins on the group)
                g = r.choice(GROUPS)
                sub = {}
                for leaf in r.sample(TOP_LEAVES, r.randint(1, 3)):
                    sub[(spell(r, leaf),)] = fresh(r)
                if r.random() < 0.6:
                    s = r.choice(SUBGROUPS)
                    for leaf in r.sample(TOP_LEAVES, r.randint(1, 2)):
                        sub[(s, spell(r, leaf))] = fresh(r)
                NEW.set({spell(r, g): nest(sub)}, config=cfg)
                ng = norm(g)
                for q in [q for q in M if q[0] == ng]:
                    del M[q]
                for p, v in sub.items():
                    M[(ng,) + tuple(norm(s) for s in p)] = v
            elif op == "upd":
                apply_defaults({p: fresh(r) for p in r.sample(PATHS, r.randint(1, 6))})
            elif op == "refresh":
                NEW.refresh(config=cfg, defaults=defs, path=empty)
                M.clear()
                M.update(D)
                # "exactly the accumulated defaults"
                assert cfg == NEW.merge(*defs), lab
            else:  # ctx
                before = copy.deepcopy(cfg)
                Mb = dict(M)
                items = {r.choice(PATHS): fresh(r) for _ in range(r.randint(1, 3))}
                arg = {".".join(user_path(p)): v for p, v in items.items()}
                with NEW.set(arg, config=cfg) as inside:
                    assert inside is cfg
                    for p, v in items.items():
                        M[tuple(norm(s) for s in p)] = v
                    check_model(r, cfg, M, lab + " inside")
                M.clear()
                M.update(Mb)
                assert cfg == before, f"{lab}: context manager did not restore\n{cfg}\n{before}"
            check_model(r, cfg, M, lab)
            assert flatten(NEW.merge(*defs)) == D, lab


def part_b_directed(tmp):
    empty = os.path.join(tmp, "empty_d")
    os.mkdir(empty)
    cfg, defs = {}, []
    NEW.update_defaults(
        {"device": "cpu", "viz": {"cmap": "gray", "real_space_units": "A"}, "cupy": {"fft-cache-size": "0 MB"}},
        config=cfg,
        defaults=defs,
    )
    # '-' and '_' are one entry, whichever was first stays the stored spelling
    NEW.set({"cupy.fft_cache_size": "8 MB"}, config=cfg)
    assert cfg["cupy"] == {"fft-cache-size": "8 MB"}
    assert NEW.get("cupy.fft-cache-size", config=cfg) == NEW.get("cupy.fft_cache_size", config=cfg) == "8 MB"
    NEW.set(config=cfg, viz__real_space_units="nm", viz__new_key=3)
    assert NEW.get("viz.real-space-units", config=cfg) == "nm"
    assert NEW.get("viz.new-key", config=cfg) == 3
    assert NEW.get("viz.cmap", config=cfg) == "gray", "sibling dropped"
    # nested update merges, siblings survive
    NEW.update(cfg, {"viz": {"cmap": "magma"}, "cupy": {"other": 1}})
    assert cfg["viz"] == {"cmap": "magma", "real_space_units": "nm", "new_key": 3}, cfg["viz"]
    assert cfg["cupy"] == {"fft-cache-size": "8 MB", "other": 1}
    # update replaces a None / scalar by a mapping, priority old keeps scalars
    d = {"a": None, "b": 3, "c": {"k": 1}}
    NEW.update(d, {"a": {"x": 1}, "b": {"y": 2}, "c": {"k": 5, "j": 6}}, priority="old")
    assert d == {"a": {"x": 1}, "b": {"y": 2}, "c": {"k": 1, "j": 6}}, d
    # new-defaults: only values still at their default move
    NEW.update_defaults({"viz": {"cmap": "viridis", "real_space_units": "pm"}}, config=cfg, defaults=defs)
    assert NEW.get("viz.cmap", config=cfg) == "magma" and NEW.get("viz.real_space_units", config=cfg) == "nm"
    NEW.update_defaults({"cupy": {"fft-cache-size": "1 MB", "z": 0}}, config=cfg, defaults=defs)
    assert cfg["cupy"] == {"fft-cache-size": "8 MB", "other": 1, "z": 0}
    # refresh = exactly the accumulated defaults
    NEW.refresh(config=cfg, defaults=defs, path=empty)
    assert cfg == {
        "device": "cpu",
        "viz": {"cmap": "viridis", "real_space_units": "pm"},
        "cupy": {"fft-cache-size": "1 MB", "z": 0},
    }, cfg
    assert cfg == NEW.merge(*defs)
    # devices: rejected requests leave the stored device unchanged
    accel = torch.cuda.is_available() or torch.mps.is_available()
    for bad in ["cuda", "cuda:0", "cuda:3", "gpu", "mps", "tpu", "", 0, 2, -1, 3.5, torch.device("meta")]:
        if accel and not (bad in ("tpu", "", -1, 3.5) or isinstance(bad, torch.device)):
            continue
        snap_c, snap_d = copy.deepcopy(cfg), copy.deepcopy(defs)
        for call in (
            lambda: NEW.set({"device": bad}, config=cfg),
            lambda: NEW.set(config=cfg, device=bad),
            lambda: NEW.update_defaults({"device": bad}, config=cfg, defaults=defs),
            lambda: NEW.update(cfg, {"device": bad}),
        ):
            try:
                call()
            except (RuntimeError, ValueError, TypeError):
                pass
            else:
                raise AssertionError(f"device {bad!r} accepted")
            assert cfg == snap_c and defs == snap_d, f"rejected device {bad!r} changed the store"
        assert NEW.get("device", config=cfg) == "cpu"
    for good in ["cpu", "CPU", torch.device("cpu"), "cpu:0"]:
        NEW.set({"device": good}, config=cfg)
        assert NEW.get("device", config=cfg) == "cpu"
    # a failing set inside a multi-key call keeps the earlier keys (history semantics)
    try:
        NEW.set({"viz.cmap": "hot", "device": "tpu", "viz.never": 1}, config=cfg)
    except ValueError:
        pass
    assert NEW.get("viz.cmap", config=cfg) == "hot" and NEW.get("viz.never", None, config=cfg) is None
    # context manager restores replaced values and removes inserted ones (also nested groups)
    before = copy.deepcopy(cfg)
    with NEW.set({"viz.cmap": "jet", "viz.fresh-key": 1, "brand.new.group": 2, "cupy": {"only": 1}}, config=cfg):
        assert NEW.get("viz.cmap", config=cfg) == "jet"
        assert NEW.get("brand.new.group", config=cfg) == 2
        assert cfg["cupy"] == {"only": 1}
        with NEW.set(config=cfg, viz__cmap="inner", brand__new__other=3):
            assert NEW.get("viz.cmap", config=cfg) == "inner"
            assert NEW.get("brand.new", config=cfg) == {"group": 2, "other": 3}
        assert NEW.get("viz.cmap", config=cfg) == "jet"
        assert NEW.get("brand.new", config=cfg) == {"group": 2}
    assert cfg == before, (cfg, before)
    try:
        with NEW.set({"viz.cmap": "boom"}, config=cfg):
            raise KeyError("user error")
    except KeyError:
        pass
    assert cfg == before
    # the real module-level store
    start = NEW.get("dtype_real")
    NEW.set({"dtype-real": "int32"})
    assert NEW.get("dtype_real") == "int32" and "dtype-real" not in NEW.config
    NEW.refresh(path=empty)
    assert NEW.get("dtype_real") == start
    assert NEW.config == NEW.merge(*NEW.defaults)
    assert NEW.get("viz.colors.set")[0] == "#3A7D44" and NEW.get("mkl.threads") == 2
    assert NEW.get("warnings.suppress-all-") is False and NEW.get("device") == "cpu"


def main():
    with tempfile.TemporaryDirectory() as tmp:
        part_a_units()
        part_a_histories(tmp)
        part_b_directed(tmp)
        part_b_model(tmp)
        part_a_global(tmp)  # last: it scrambles the module-level store
    print(f"C19 demo OK ({N_COMPARED} old/new comparisons identical; model + directed checks passed)")


if __name__ == "__main__":
    main()
    sys.exit(0)
