"""Demo for C01 / patch 2: the four copies of "torch.save into a BytesIO, store the bytes" inside
AutoSerialize._serialize_value are extracted into one helper (and the
BytesIO -> np.frombuffer -> tobytes detour is replaced by BytesIO.getvalue()).

Checks
 (a) old-vs-new: a verbatim copy of the ORIGINAL _serialize_value is temporarily installed on
     AutoSerialize; the same object graphs (tensors of many dtypes/shapes/requires_grad, modules,
     optimizers, schedulers, loggers, containers of them, plus every non-torch value kind) are
     saved to a directory store with the original and with the tree under test, and the two
     directory trees must be byte-for-byte identical (same files, same contents);
 (b) failure injection: an un-picklable torch module in the middle of the graph makes both
     versions raise the same exception and leave no partial target behind;
 (c) the round-trip property itself on both stores / several compression levels / str and Path
     targets, including the save->load->save->load fixed point.
Exits 0 on success.
"""

import gzip
import io
import logging
import os
import sys
import tempfile
from pathlib import Path
from typing import Any

import dill
import numpy as np
import torch
import zarr

from quantem.core.io.serialize import AutoSerialize, load


# --------------------------------------------------------------------------------------------
# verbatim copy of the ORIGINAL AutoSerialize._serialize_value (tree before the patch)
# --------------------------------------------------------------------------------------------
def orig_serialize_value(
    self,
    value: Any,
    group: zarr.Group,
    name: str,
    skip_names: set[str] = set(),
    skip_types: tuple[type, ...] = (),
    compressors=None,
) -> None:
    """
    Unified method to serialize any value type to a Zarr group.
    This eliminates duplication between _recursive_save and _serialize_container.
    """
    # --- Serialization handlers by type ---
    if isinstance(value, torch.Tensor):
        # Save entire tensor with torch.save to preserve requires_grad, grad_fn, etc.
        # This is more robust than converting to numpy which loses gradient information
        subgroup = group.require_group(name)
        subgroup.attrs["_torch_tensor"] = True
        subgroup.attrs["_tensor_shape"] = list(value.shape)
        subgroup.attrs["_tensor_dtype"] = str(value.dtype)
        subgroup.attrs["_tensor_device"] = str(value.device)
        subgroup.attrs["_tensor_requires_grad"] = bool(value.requires_grad)

        buffer = io.BytesIO()
        torch.save(value, buffer)
        buffer.seek(0)
        byte_arr = np.frombuffer(buffer.read(), dtype="uint8")
        self._write_bytes(subgroup, "tensor", byte_arr.tobytes(), compressors=None)

    elif isinstance(value, torch.optim.Optimizer):
        # Save entire optimizer with torch.save for robustness
        subgroup = group.require_group(name)
        subgroup.attrs["_torch_optimizer"] = True
        subgroup.attrs["class_name"] = value.__class__.__name__

        buffer = io.BytesIO()
        torch.save(value, buffer)
        buffer.seek(0)
        byte_arr = np.frombuffer(buffer.read(), dtype="uint8")
        self._write_bytes(subgroup, "optimizer", byte_arr.tobytes(), compressors=None)

    elif hasattr(value, "step") and hasattr(value, "get_last_lr"):
        # Handle LR schedulers with torch.save for robustness
        subgroup = group.require_group(name)
        subgroup.attrs["_torch_scheduler"] = True
        subgroup.attrs["class_name"] = value.__class__.__name__

        buffer = io.BytesIO()
        torch.save(value, buffer)
        buffer.seek(0)
        byte_arr = np.frombuffer(buffer.read(), dtype="uint8")
        self._write_bytes(subgroup, "scheduler", byte_arr.tobytes(), compressors=None)

    elif hasattr(value, "add_scalar") and hasattr(value, "add_image"):
        # Handle PyTorch loggers (SummaryWriter, etc.) - save basic info only
        subgroup = group.require_group(name)
        subgroup.attrs["_torch_logger"] = True
        subgroup.attrs["class_name"] = value.__class__.__name__

        # Store basic logger information that can be reconstructed
        if hasattr(value, "log_dir"):
            subgroup.attrs["log_dir"] = str(value.log_dir)
        if hasattr(value, "comment"):
            subgroup.attrs["comment"] = str(value.comment) if value.comment else ""
        if hasattr(value, "max_queue"):
            subgroup.attrs["max_queue"] = int(value.max_queue)
        if hasattr(value, "flush_secs"):
            subgroup.attrs["flush_secs"] = int(value.flush_secs)
        if hasattr(value, "filename_suffix"):
            subgroup.attrs["filename_suffix"] = (
                str(value.filename_suffix) if value.filename_suffix else ""
            )
    elif hasattr(value, "log") and hasattr(value, "info"):
        # Handle other logging objects (like Python's logging.Logger)
        subgroup = group.require_group(name)
        subgroup.attrs["_python_logger"] = True
        subgroup.attrs["class_name"] = value.__class__.__name__

        # Store logger name and level if available
        if hasattr(value, "name"):
            subgroup.attrs["logger_name"] = str(value.name)
        if hasattr(value, "level"):
            subgroup.attrs["logger_level"] = int(value.level)

    elif isinstance(value, torch.nn.Module) or (
        hasattr(value, "__module__") and ("torch" in str(value.__module__))
    ):
        # Save entire torch module with torch.save for robustness
        subgroup = group.require_group(name)
        subgroup.attrs["_torch_whole_module"] = True
        buffer = io.BytesIO()
        torch.save(value, buffer)
        buffer.seek(0)
        byte_arr = np.frombuffer(buffer.read(), dtype="uint8")
        self._write_bytes(subgroup, "module", byte_arr.tobytes(), compressors=None)

    elif isinstance(value, np.ndarray):
        # Save as native array
        if name not in group:
            self._write_ndarray(group, name, value, compressors)

    elif isinstance(value, (int, float, str, bool, type(None))):
        # Scalars saved as attributes
        group.attrs[name] = value
    elif hasattr(value, "dtype") and hasattr(value, "item"):
        # Handle numpy scalar types (np.float32, np.int64, etc.)
        group.attrs[name] = value.item()
    elif hasattr(value, "__fspath__") or str(type(value)).startswith("<class 'pathlib."):
        # Handle pathlib.Path objects and other path-like objects
        group.attrs[name] = str(value)
        group.attrs[f"{name}.is_path"] = True

    elif self._is_autoserialize_instance(value):
        # Nested AutoSerialize subtree
        subgroup = group.require_group(name)
        self._recursive_save(value, subgroup, skip_names, skip_types, compressors)

    elif isinstance(value, (list, tuple, dict)):
        # Save containers recursively (with nested AutoSerialize support)
        subgroup = group.require_group(name)
        self._serialize_container(value, subgroup, skip_names, skip_types, compressors)

    elif isinstance(value, set):
        # Convert set to list for serialization, store type info
        subgroup = group.require_group(name)
        # Convert set items to list and serialize
        list_value = list(value)
        self._serialize_container(list_value, subgroup, skip_names, skip_types, compressors)
        # Tag after the list has been written: _serialize_container tags the group as "list"
        subgroup.attrs["_container_type"] = "set"

    elif hasattr(value, "bit_generator"):
        # NumPy random generator - save state through bit_generator
        subgroup = group.require_group(name)
        subgroup.attrs["_numpy_rng"] = True
        # Get state from the bit_generator
        rng_state = value.bit_generator.state
        if hasattr(rng_state, "tolist"):
            subgroup.attrs["_rng_state"] = rng_state.tolist()
        else:
            subgroup.attrs["_rng_state"] = rng_state
        subgroup.attrs["_rng_type"] = value.__class__.__name__
        subgroup.attrs["_bit_generator_type"] = value.bit_generator.__class__.__name__

    elif hasattr(value, "get_state") and hasattr(value, "set_state"):
        # PyTorch generator - skip for now as state structure is complex
        # Just store a marker that this was a generator
        subgroup = group.require_group(name)
        subgroup.attrs["_torch_rng_skipped"] = True
        subgroup.attrs["_rng_type"] = "torch.Generator"
        # Don't try to save the state - it's not essential for core functionality

    else:
        # Fallback: dill-serialize + gzip-compress
        print(f"falling back in serialize for {name} of type {type(value)}")
        serialized = dill.dumps(value)
        compressed = gzip.compress(serialized)
        self._write_bytes(group, name, compressed, compressors)


# --------------------------------------------------------------------------------------------
# comparison helpers
# --------------------------------------------------------------------------------------------
def is_num(v):
    return isinstance(v, (int, float, bool, np.integer, np.floating, np.bool_)) and not isinstance(
        v, (np.ndarray,)
    )


def same(a, b, path="root", strict=False):
    """Structural equality of an original value `a` and a loaded value `b`.

    strict=False applies the relaxations of the property (NumPy scalars and all-numeric sequences
    are compared by numeric value); strict=True (loaded vs re-loaded) requires identical types.
    """
    if isinstance(a, torch.nn.Module):
        assert type(a) is type(b), path
        sa, sb = a.state_dict(), b.state_dict()
        assert list(sa) == list(sb), path
        for k in sa:
            same(sa[k], sb[k], f"{path}.{k}", strict)
        return
    if isinstance(a, torch.optim.Optimizer) or (
        hasattr(a, "step") and hasattr(a, "get_last_lr")
    ):
        assert type(a) is type(b), (path, type(a), type(b))
        same(a.state_dict(), b.state_dict(), f"{path}.state_dict()", strict)
        return
    if isinstance(a, logging.Logger):
        assert isinstance(b, logging.Logger), (path, type(b))
        assert a.name == b.name and a.level == b.level, path
        return
    if isinstance(a, torch.Tensor):
        assert type(a) is type(b), (path, type(a), type(b))
        assert a.dtype == b.dtype and a.shape == b.shape, path
        assert a.requires_grad == b.requires_grad, path
        assert torch.equal(a.detach(), b.detach()), path
        return
    if isinstance(a, np.ndarray):
        assert isinstance(b, np.ndarray), (path, type(b))
        assert a.dtype == b.dtype, (path, a.dtype, b.dtype)
        assert a.shape == b.shape, (path, a.shape, b.shape)
        assert a.tobytes() == b.tobytes(), path
        return
    if isinstance(a, np.random.Generator):
        assert isinstance(b, np.random.Generator), path
        assert type(a.bit_generator) is type(b.bit_generator), path
        return
    if isinstance(a, AutoSerialize):
        assert type(a) is type(b), (path, type(a), type(b))
        assert set(vars(a)) == set(vars(b)), (path, set(vars(a)) ^ set(vars(b)))
        for k in vars(a):
            same(vars(a)[k], vars(b)[k], f"{path}.{k}", strict)
        return
    if isinstance(a, (list, tuple)):
        assert type(a) is type(b), (path, type(a), type(b))
        assert len(a) == len(b), path
        if not strict and len(a) > 0 and all(is_num(v) for v in a):
            for i, (x, y) in enumerate(zip(a, b)):
                assert x == y, (path, i, x, y)
            return
        for i, (x, y) in enumerate(zip(a, b)):
            same(x, y, f"{path}[{i}]", strict)
        return
    if isinstance(a, dict):
        assert type(b) is dict, (path, type(b))
        assert set(map(str, a)) == set(map(str, b)) and len(a) == len(b), path
        for k in a:
            same(a[k], b[k if k in b else str(k)], f"{path}[{k!r}]", strict)
        return
    if isinstance(a, (set, frozenset)):
        assert type(b) is set, (path, type(b))
        assert a == b, (path, a, b)
        if strict:
            assert sorted(map(repr, a)) == sorted(map(repr, b)), path
        return
    if isinstance(a, Path):
        assert isinstance(b, Path) and a == b, (path, a, b)
        return
    if not strict and isinstance(a, np.generic):
        assert not isinstance(b, np.ndarray), path
        assert a.item() == b or (a != a and b != b), (path, a, b)
        return
    # plain python scalars / None / str
    assert type(a) is type(b), (path, type(a), type(b))
    assert a == b or (a != a and b != b), (path, a, b)


# --------------------------------------------------------------------------------------------
# object graphs
# --------------------------------------------------------------------------------------------
class Leaf(AutoSerialize):
    def __init__(self, k):
        self.k = k
        self.a0 = np.array(k, dtype=np.int16)
        self.e = np.empty((k, 0, 2), dtype=np.complex64)
        self.t = torch.arange(k + 1, dtype=torch.float64)


class Graph(AutoSerialize):
    def __init__(self, seed):
        rng = np.random.default_rng(seed)
        self.i = int(rng.integers(-5, 5))
        self.f = float(rng.normal())
        self.b = bool(seed % 2)
        self.none = None
        self.s = f"text-{seed}"
        self.empty_str = ""
        self.p = Path("/tmp/some/where") / f"f{seed}.bin"
        self.np_f32 = np.float32(1.5)
        self.np_i64 = np.int64(-(2**40))
        self.np_bool = np.bool_(True)
        self.a_0d = np.array(rng.normal())
        self.a_0d_c = np.array(2.0 - 1.0j, dtype=np.complex64)
        self.a_0d_u8 = np.array(255, dtype=np.uint8)
        self.a_empty1 = np.zeros((0,), dtype=np.float32)
        self.a_empty2 = np.zeros((3, 0), dtype=np.int8)
        self.a_empty3 = np.zeros((0, 4, 0), dtype=np.bool_)
        self.a_rect = rng.normal(size=(3, 7)).astype(np.float32)
        self.a_3d = rng.integers(0, 255, size=(2, 5, 3)).astype(np.uint16)
        self.a_bool = rng.integers(0, 2, size=(5,)).astype(bool)
        self.a_c128 = rng.normal(size=(4, 1)) + 1j * rng.normal(size=(4, 1))
        self.a_view = np.arange(24, dtype=np.int32).reshape(4, 6)[::2, ::-1]
        self.t_plain = torch.tensor(rng.normal(size=(2, 3)), dtype=torch.float32)
        self.t_grad = torch.ones(3, 1, requires_grad=True)
        self.t_int = torch.arange(5, dtype=torch.int16)
        self.t_0d = torch.tensor(3.5)
        self.t_empty = torch.zeros(0, 2)
        self.mod = torch.nn.Linear(3, 2)
        self.lst_num = [1, 2, 3]
        self.lst_float = [0.5, -1.25]
        self.lst_mixed = [1, "a", None, 2.5, Path("rel/x"), [np.array(1.0), (2, 3)], {"k": 1}]
        self.lst_empty = []
        self.tup = (np.zeros((2, 0)), "z", (1.5, 2.5), ())
        self.tup_num = (True, False, True)
        self.dct = {
            "arr": np.arange(3),
            "zero_d": np.array(7, dtype=np.int8),
            "empty": np.zeros((0, 0)),
            "nested": {"deep": [np.ones((1, 2)), {"x": None}], "p": Path("q")},
            "t": torch.zeros(2, dtype=torch.bool),
            "leaf": Leaf(2),
            "none": None,
            "set": {1, 2, 3},
        }
        self.dct_empty = {}
        self.st_num = {3, 1, 2}
        self.st_str = {"a", "bb"}
        self.st_mixed = {"a", 1, (1, 2)}
        self.st_empty = set()
        self.leaf = Leaf(seed)
        self.leaves = [Leaf(0), Leaf(1)]
        self.rng = np.random.default_rng(seed)


class Small(AutoSerialize):
    def __init__(self):
        self.z = np.array(-3, dtype=np.int32)
        self.e = np.zeros((2, 0, 3), dtype=np.float16)
        self.m = np.arange(15, dtype=np.float32).reshape(5, 3)
        self.seq = [np.array(1.5), np.zeros((0,), dtype=np.uint8), (1, 2)]
        self.t = torch.arange(3.0, requires_grad=True)
        self.p = Path("a/b")
        self.n = None


def roundtrip(obj, target, store, level):
    obj.save(target, mode="w", store=store, compression_level=level)
    back = load(target)
    same(obj, back)
    # overwrite mode + fixed point
    back.save(target, mode="o", store=store, compression_level=level)
    again = load(target)
    same(back, again, strict=True)
    same(obj, again)
    return back


class TorchZoo(AutoSerialize):
    """Everything that goes through a torch.save payload, at top level and inside containers."""

    def __init__(self, seed):
        g = torch.Generator().manual_seed(seed)
        self.t_f32 = torch.randn(3, 5, generator=g)
        self.t_f64 = torch.randn(7, generator=g, dtype=torch.float64)
        self.t_f16 = torch.randn(2, 1, 3, generator=g).to(torch.float16)
        self.t_bf16 = torch.randn(4, generator=g).to(torch.bfloat16)
        self.t_c64 = torch.randn(2, 2, generator=g, dtype=torch.complex64)
        self.t_i8 = torch.arange(-3, 3, dtype=torch.int8)
        self.t_u8 = torch.arange(6, dtype=torch.uint8).reshape(2, 3)
        self.t_i64 = torch.tensor([2**62, -(2**62)])
        self.t_bool = torch.tensor([[True], [False]])
        self.t_0d = torch.tensor(1.25)
        self.t_0d_grad = torch.tensor(-2.0, requires_grad=True)
        self.t_empty = torch.zeros(0, 3)
        self.t_empty_grad = torch.zeros(2, 0, requires_grad=True)
        self.t_grad = torch.randn(3, 2, generator=g).requires_grad_(True)
        self.t_view = torch.arange(24.0).reshape(4, 6)[::2, 1::2]
        self.t_T = torch.arange(6.0).reshape(2, 3).T
        self.param = torch.nn.Parameter(torch.randn(2, 2, generator=g))
        self.param_frozen = torch.nn.Parameter(torch.randn(3, generator=g), requires_grad=False)
        torch.manual_seed(seed)
        self.lin = torch.nn.Linear(3, 2)
        self.seq = torch.nn.Sequential(torch.nn.Linear(2, 4), torch.nn.ReLU(), torch.nn.Linear(4, 1))
        self.conv = torch.nn.Conv2d(1, 2, kernel_size=(3, 1), bias=False)
        self.opt = torch.optim.Adam(self.lin.parameters(), lr=1e-3 * (seed + 1))
        self.sgd = torch.optim.SGD(self.seq.parameters(), lr=0.1, momentum=0.9)
        self.sched = torch.optim.lr_scheduler.StepLR(self.sgd, step_size=2, gamma=0.5)
        # take a few optimisation steps so that optimizer/scheduler carry state
        for _ in range(3):
            self.sgd.zero_grad()
            self.seq(torch.ones(5, 2)).sum().backward()
            self.sgd.step()
            self.sched.step()
        self.sgd.zero_grad()
        self.logger = logging.getLogger(f"demo.zoo.{seed}")
        self.logger.setLevel(logging.WARNING)
        self.in_list = [torch.ones(2), torch.nn.Tanh(), np.arange(3), "s", torch.zeros(0)]
        self.in_tuple = (torch.tensor(3), (torch.eye(2, requires_grad=True),))
        self.in_dict = {
            "w": torch.full((2, 2), 0.5),
            "m": torch.nn.Linear(1, 1),
            "deep": {"t": [torch.arange(3)], "n": None},
        }
        self.plain_after = np.float32(0.5)  # non-torch kinds after torch kinds
        self.path_after = Path("x/y.z")


def tree_bytes(root):
    out = {}
    for d, _, files in os.walk(root):
        for f in files:
            full = os.path.join(d, f)
            with open(full, "rb") as fh:
                out[os.path.relpath(full, root)] = fh.read()
    return out


class use_original:
    """Context manager installing the verbatim original _serialize_value on AutoSerialize."""

    def __enter__(self):
        self._saved = AutoSerialize.__dict__["_serialize_value"]
        AutoSerialize._serialize_value = orig_serialize_value
        return self

    def __exit__(self, *exc):
        AutoSerialize._serialize_value = self._saved
        return False


def check_same_files(tmp):
    n = 0
    zoo = TorchZoo(0)
    cases = [(zoo, None), (zoo, 5), (TorchZoo(2), 0), (Graph(1), None), (Small(), 3)]
    for ci, (obj, level) in enumerate(cases):
        p_old = os.path.join(tmp, f"old_{ci}")
        p_new = os.path.join(tmp, f"new_{ci}")
        with use_original():
            obj.save(p_old, store="dir", compression_level=level)
        obj.save(p_new, store="dir", compression_level=level)
        t_old, t_new = tree_bytes(p_old), tree_bytes(p_new)
        assert len(t_old) > 3
        assert sorted(t_old) == sorted(t_new), set(t_old) ^ set(t_new)
        for k in t_old:
            assert t_old[k] == t_new[k], (type(obj).__name__, level, k)
        # and both load to equal graphs
        back_new = load(p_new)
        same(load(p_old), back_new, strict=True)
        same(obj, back_new)
        n += 1
    return n


class BadModule(torch.nn.Module):
    def __init__(self):
        super().__init__()
        self.w = torch.nn.Parameter(torch.ones(2))
        self.fn = lambda x: x  # noqa: E731  (lambdas cannot be pickled by torch.save)


class HalfWay(AutoSerialize):
    def __init__(self, where):
        self.a = np.arange(4)
        self.t = torch.ones(2)
        if where == "top":
            self.bad = BadModule()
        elif where == "list":
            self.bad = [torch.zeros(1), BadModule()]
        else:
            self.bad = {"k": (BadModule(),)}
        self.z = "never written"


def check_failures(tmp):
    n = 0
    for where in ("top", "list", "dict"):
        for store in ("dir", "zip"):
            errs = []
            for which in ("old", "new"):
                target = os.path.join(tmp, f"fail_{where}_{store}_{which}")
                target += ".zip" if store == "zip" else ""
                obj = HalfWay(where)
                try:
                    if which == "old":
                        with use_original():
                            obj.save(target, store=store)
                    else:
                        obj.save(target, store=store)
                except Exception as e:  # noqa: BLE001
                    errs.append(e)
                else:
                    raise AssertionError("saving an un-picklable module did not fail")
                assert not os.path.exists(target), f"partial target left behind: {target}"
            assert type(errs[0]) is type(errs[1]), errs
            assert str(errs[0]) == str(errs[1]), errs
            n += 1
    return n


def roundtrip_zoo(tmp):
    n = 0
    configs = [("zip", 0, Path), ("dir", None, str), ("zip", 9, str)]
    zoo = TorchZoo(1)
    loaded_all = []
    for ci, (store, level, kind) in enumerate(configs):
        name = f"zoo_{ci}" + (".zip" if store == "zip" else "")
        loaded_all.append(roundtrip(zoo, kind(os.path.join(tmp, name)), store, level))
        n += 1
    for other in loaded_all[1:]:
        same(loaded_all[0], other, strict=True)
    g = Graph(2)
    for ci, (store, level, kind) in enumerate(configs[:1]):
        name = f"graph_{ci}" + (".zip" if store == "zip" else "")
        roundtrip(g, kind(os.path.join(tmp, name)), store, level)
        n += 1
    return n


def main():
    torch.manual_seed(0)
    with tempfile.TemporaryDirectory() as tmp:
        n_files = check_same_files(tmp)
        n_fail = check_failures(tmp)
        n_rt = roundtrip_zoo(tmp)
    print(
        f"PASS: {n_files} saves byte-identical old==new, {n_fail} failure injections, "
        f"{n_rt} round-trips"
    )
    return 0


if __name__ == "__main__":
    sys.exit(main())
