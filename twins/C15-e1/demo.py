"""Demo for C15 patch 1: initial knot placement in DriftCorrection.preprocess.

Checks (on the unmodified tree and with the patch applied):
  * knots / scan vectors produced by preprocess are bit-identical to a verbatim copy of
    the ORIGINAL construction (per-coordinate xa / ya + np.stack);
  * resampling geometry: pixel (r, c) lands at canvas centre + rotation of its offset from
    the image centre, for every shape, angle, pad fraction and knot count 1..4, and the
    coordinates agree between knot counts;
  * unit total weight per image pixel;
  * a stack of identical images is a fixed point of align_translation;
  * failure injection: bad knot count / too few scan directions leave the same partial state.
"""

import itertools
import warnings

import matplotlib

matplotlib.use("Agg")

import numpy as np

from quantem.imaging.drift import DriftCorrection

warnings.filterwarnings("ignore")


# ----------------------------------------------------------------------------------------
# verbatim copy of the ORIGINAL code from DriftCorrection.preprocess (HEAD of the worktree)
# ----------------------------------------------------------------------------------------
def original_scan_vectors(scan_direction_degrees):
    scan_direction = np.deg2rad(scan_direction_degrees)
    scan_fast = np.stack(
        [
            np.sin(-scan_direction),
            np.cos(-scan_direction),
        ],
        axis=1,
    )
    scan_slow = np.stack(
        [
            np.cos(-scan_direction),
            -np.sin(-scan_direction),
        ],
        axis=1,
    )
    return scan_direction, scan_fast, scan_slow


def original_knots(image_shapes, canvas_shape, scan_fast, scan_slow, number_knots):
    self_shape = (len(image_shapes),) + tuple(canvas_shape)
    knots = []
    for a0 in range(self_shape[0]):
        shape = image_shapes[a0]

        v_slow = np.linspace(-(shape[0] - 1) / 2, (shape[0] - 1) / 2, shape[0])
        u_fast = np.linspace(-(shape[1] - 1) / 2, (shape[1] - 1) / 2, number_knots)

        xa = (
            (self_shape[1] - 1) / 2
            + u_fast[None, :] * scan_fast[a0, 0]
            + v_slow[:, None] * scan_slow[a0, 0]
        )
        ya = (
            (self_shape[2] - 1) / 2
            + u_fast[None, :] * scan_fast[a0, 1]
            + v_slow[:, None] * scan_slow[a0, 1]
        )

        knots.append(np.stack([xa, ya], axis=0))
    return knots


# ----------------------------------------------------------------------------------------
def make_image(shape, seed):
    rng = np.random.default_rng(seed)
    im = rng.normal(size=shape)
    # a few blobs so that the autocorrelation has one clear peak
    r, c = np.meshgrid(np.arange(shape[0]), np.arange(shape[1]), indexing="ij")
    for _ in range(4):
        r0, c0 = rng.uniform(1, shape[0] - 2), rng.uniform(1, shape[1] - 2)
        im += 6.0 * np.exp(-((r - r0) ** 2 + (c - c0) ** 2) / (2 * 1.3**2))
    return im


def expected_coordinates(shape, canvas_shape, angle_deg):
    """canvas centre + scan-direction rotation of the offset from the image centre."""
    t = np.deg2rad(angle_deg)
    fast = np.array([np.sin(-t), np.cos(-t)])
    slow = np.array([np.cos(-t), -np.sin(-t)])
    dr = np.arange(shape[0])[:, None] - (shape[0] - 1) / 2
    dc = np.arange(shape[1])[None, :] - (shape[1] - 1) / 2
    xa = (canvas_shape[0] - 1) / 2 + dr * slow[0] + dc * fast[0]
    ya = (canvas_shape[1] - 1) / 2 + dr * slow[1] + dc * fast[1]
    return xa, ya


shapes = [(8, 8), (7, 11), (12, 5), (9, 10), (16, 13)]
angle_sets = {
    2: [[0.0, 90.0], [33.0, 217.5], np.array([10, 100])],  # last one: integer dtype
    3: [[0.0, 90.0, 180.0], [359.0, 12.25, 45.0]],
    4: [[0.0, 90.0, 180.0, 270.0], np.array([15.5, 105.5, 195.5, 285.5], dtype=np.float32)],
}
pad_fractions = [0.0, 0.25, 0.6]

n_cases = 0
for shape, n_img, pad_fraction in itertools.product(shapes, (2, 3, 4), pad_fractions):
    for angles in angle_sets[n_img]:
        images = [make_image(shape, seed=100 * i + shape[0]) for i in range(n_img)]
        coords_by_knots = {}
        for number_knots in (1, 2, 3, 4):
            dc = DriftCorrection.from_data(images, angles).preprocess(
                pad_fraction=pad_fraction, number_knots=number_knots
            )
            canvas = dc.shape[1:]

            # ---- old == new (bit for bit) ------------------------------------------------
            sd, sf, ss = original_scan_vectors(dc.scan_direction_degrees)
            assert np.array_equal(dc.scan_direction, sd)
            assert dc.scan_fast.dtype == sf.dtype and np.array_equal(dc.scan_fast, sf)
            assert dc.scan_slow.dtype == ss.dtype and np.array_equal(dc.scan_slow, ss)
            ref = original_knots([shape] * n_img, canvas, sf, ss, number_knots)
            assert isinstance(dc.knots, list) and len(dc.knots) == n_img
            for k_new, k_old in zip(dc.knots, ref):
                assert k_new.shape == k_old.shape == (2, shape[0], number_knots)
                assert k_new.dtype == k_old.dtype == np.float64
                assert k_new.flags["C_CONTIGUOUS"] and k_new.flags["WRITEABLE"]
                assert np.array_equal(k_new, k_old)
            assert all(dc.knots[i] is not dc.knots[j] for i in range(n_img) for j in range(i))

            # ---- geometry ----------------------------------------------------------------
            for ind in range(n_img):
                xa, ya = dc.interpolator[ind].transform_coordinates(dc.knots[ind])
                xe, ye = expected_coordinates(shape, canvas, float(np.asarray(angles)[ind]))
                assert xa.shape == ya.shape == shape
                tol = 1e-9 if np.asarray(angles).dtype != np.float32 else 1e-4
                assert np.allclose(xa, xe, atol=tol, rtol=0), (shape, angles, number_knots)
                assert np.allclose(ya, ye, atol=tol, rtol=0), (shape, angles, number_knots)
                coords_by_knots.setdefault(ind, []).append((xa, ya))

                # ---- unit total weight per pixel ------------------------------------------
                w = dc.weights_warped.array[ind]
                assert abs(w.sum() - shape[0] * shape[1]) <= 2e-3 * shape[0] * shape[1]
            n_cases += 1

        # straight lines described by 1, 2, 3 or 4 knots give identical coordinates
        for ind, lst in coords_by_knots.items():
            for xa, ya in lst[1:]:
                assert np.allclose(xa, lst[0][0], atol=1e-9, rtol=0)
                assert np.allclose(ya, lst[0][1], atol=1e-9, rtol=0)

# ---- fixed point of translation alignment -------------------------------------------------
for shape, n_img, angle, number_knots, pad_fraction, kde_sigma, upsample in [
    ((16, 16), 2, 0.0, 1, 0.25, 0.5, 8),
    ((15, 22), 3, 90.0, 2, 0.25, 0.5, 8),
    ((21, 14), 4, 37.0, 3, 0.5, 0.8, 4),
    ((18, 25), 2, 200.0, 4, 0.1, 1.0, 16),
    ((17, 19), 3, 305.0, 1, 0.4, 0.5, 1),
]:
    im = make_image(shape, seed=7)
    dc = DriftCorrection.from_data([im.copy() for _ in range(n_img)], [angle] * n_img)
    dc.preprocess(pad_fraction=pad_fraction, number_knots=number_knots, kde_sigma=kde_sigma)
    before = [k.copy() for k in dc.knots]
    ids = [id(k) for k in dc.knots]
    for _ in range(2):  # repeated calls stay at the fixed point
        dc.align_translation(upsample_factor=upsample, show_merged=False)
    for k0, k1, i in zip(before, dc.knots, ids):
        assert k1.shape == k0.shape
        assert np.allclose(k1, k0, atol=1e-6, rtol=0), np.abs(k1 - k0).max()
    for ind in range(1, n_img):
        assert np.allclose(dc.images_warped.array[ind], dc.images_warped.array[0], atol=1e-5)

# ---- failure injection: same partial state as the original ---------------------------------
im = make_image((6, 9), seed=3)
dc = DriftCorrection.from_data([im, im.copy()], [0.0, 90.0])
try:
    dc.preprocess(number_knots=-1)
except ValueError:
    pass
else:
    raise AssertionError("negative knot count must raise ValueError")
assert dc.knots == [] and not hasattr(dc, "interpolator")

dc = DriftCorrection.from_data([im, im.copy(), im.copy()], [0.0, 90.0])  # one angle missing
try:
    dc.preprocess(number_knots=2)
except IndexError as e:
    assert "out of bounds" in str(e)
else:
    raise AssertionError("missing scan direction must raise IndexError")
assert len(dc.knots) == 2 and not hasattr(dc, "interpolator")
ref = original_knots([(6, 9)] * 2, dc.shape[1:], dc.scan_fast, dc.scan_slow, 2)
assert all(np.array_equal(a, b) for a, b in zip(dc.knots, ref))

# in-place updates of one coordinate of a knot array (as done by the aligners) still work
dc = DriftCorrection.from_data([im, im.copy()], [20.0, 110.0]).preprocess(number_knots=3)
k = dc.knots[1].copy()
dc.knots[1][0] += 1.5
dc.knots[1][1] -= 0.25
assert np.array_equal(dc.knots[1][0], k[0] + 1.5) and np.array_equal(dc.knots[1][1], k[1] - 0.25)

print(f"PASS ({n_cases} preprocess configurations)")
