"""
Demo for property C03 (Dataset containers stay coherent under any history of operations).

Embeds a verbatim copy of the ORIGINAL Dataset.from_array / crop / bin / fourier_resample /
__getitem__ (class _Orig below) and checks, on a spread of inputs and on random operation
histories, that the functions currently in the tree give bit-identical results (array bytes,
dtype, shape, origin, sampling, units, name, class, raised exception type and message).
It also asserts the property itself: one calibration entry per axis, class matches the
dimensionality, the source of a copying operation is untouched and the in-place variant
equals the copying variant.

Run as:  PYTHONPATH=<root>/src /venv/bin/python demo.py
"""

import itertools
import numbers
import random
import sys
import warnings
from typing import Any, Optional, Self, Union  # noqa: F401

import numpy as np
from numpy.typing import DTypeLike, NDArray  # noqa: F401

from quantem.core.datastructures import (  # noqa: F401
    Dataset,
    Dataset2d,
    Dataset3d,
    Dataset4d,
    Dataset4dstem,
)
from quantem.core.utils.validators import ensure_valid_array  # noqa: F401

warnings.simplefilter("ignore")


# --------------------------------------------------------------------------------------
# Verbatim copy of the original methods (HEAD of the worktree, src/quantem/core/
# datastructures/dataset.py).  They are called unbound on real Dataset instances.
# --------------------------------------------------------------------------------------
class _Orig:
    @classmethod
    def from_array(
        cls,
        array: Any,  # Input can be array-like
        name: str | None = None,
        origin: NDArray | tuple | list | float | int | None = None,
        sampling: NDArray | tuple | list | float | int | None = None,
        units: list[str] | tuple | list | None = None,
        signal_units: str = "arb. units",
    ) -> Self:
        """
        Validates and creates a Dataset from an array.

        Parameters
        ----------
        array: Any
            The array to validate and create a Dataset from.
        name: str | None
            The name of the Dataset.
        origin: NDArray | tuple | list | float | int | None
            The origin of the Dataset.
        sampling: NDArray | tuple | list | float | int | None
            The sampling of the Dataset.
        units: list[str] | tuple | list | None
            The units of the Dataset.
        signal_units: str
            The units of the signal.

        Returns
        -------
        Dataset
            A Dataset object with the validated array and metadata.
        """
        validated_array = ensure_valid_array(array)
        if not isinstance(validated_array, np.ndarray):
            raise TypeError(
                "Dataset requires a NumPy array (CuPy is not supported on this branch)."
            )
        _ndim = validated_array.ndim

        # Set defaults if None
        _name = name if name is not None else f"{_ndim}d dataset"
        _origin = origin if origin is not None else np.zeros(_ndim)
        _sampling = sampling if sampling is not None else np.ones(_ndim)
        _units = units if units is not None else ["pixels"] * _ndim

        return cls(
            array=validated_array,
            name=_name,
            origin=_origin,
            sampling=_sampling,
            units=_units,
            signal_units=signal_units,
            _token=cls._token,
        )

    def crop(
        self,
        crop_widths: tuple[tuple[int, int], ...],
        axes: tuple | None = None,
        modify_in_place: bool = False,
    ) -> Self | None:
        """
        Crops Dataset

        Parameters
        ----------
        crop_widths:tuple
            Min and max for cropping each axis specified as a tuple
        axes:
            Axes over which to crop. If None specified, all are cropped.
        modify_in_place: bool
            If True, modifies dataset

        Returns
        --------
        Dataset (cropped) only if modify_in_place is False
        """
        if axes is None:
            if len(crop_widths) != self.ndim:
                raise ValueError("crop_widths must match number of dimensions when axes is None.")
            axes = tuple(range(self.ndim))
        elif isinstance(axes, int | float):
            axes = (int(axes),)
            crop_widths = (crop_widths[0],)  # Take first crop_width for single axis
        else:
            axes = tuple(int(a) for a in axes)

        if len(crop_widths) != len(axes):
            raise ValueError("Length of crop_widths must match length of axes.")

        full_slices = []
        crop_dict = dict(zip(axes, crop_widths))
        for axis, _ in enumerate(self.shape):
            if axis in crop_dict:
                before, after = crop_dict[axis]
                start = before
                stop = after if after != 0 else None
                full_slices.append(slice(start, stop))
            else:
                full_slices.append(slice(None))

        if modify_in_place is False:
            dataset = self.copy()
            dataset.array = dataset.array[tuple(full_slices)]
            return dataset

        self.array = self.array[tuple(full_slices)]
        return None

    def bin(
        self,
        bin_factors,
        axes=None,
        modify_in_place: bool = False,
        reducer: str = "sum",
    ) -> Self | None:
        """
        Bin the Dataset by integer factors along selected axes using block reduction.

        Parameters
        ----------
        bin_factors : int | tuple[int, ...]
            Bin factors per specified axis (positive integers).
        axes : int | tuple[int, ...] | None
            Axes to bin. If None, all axes are binned.
        modify_in_place : bool
            If True, modifies this dataset; otherwise returns a new Dataset.
        reducer : {"sum","mean"}
            Reduction applied within each block. "sum" (default) preserves counts;
            "mean" averages over each block (block volume = product of factors).

        Notes
        -----
        - Any remainder (shape % factor) is dropped on each binned axis.
        - Sampling is multiplied by the factor on each binned axis.
        - Origin is shifted to the center of the first block:
            origin_new = origin_old + 0.5 * (factor - 1) * sampling_old
        """
        reducer_norm = str(reducer).lower()
        if reducer_norm not in ("sum", "mean"):
            raise ValueError("reducer must be 'sum' or 'mean'")

        if axes is None:
            axes = tuple(range(self.ndim))
        elif isinstance(axes, int | float):
            axes = (int(axes),)
        else:
            axes = tuple(int(ax) for ax in axes)

        if isinstance(bin_factors, numbers.Integral):
            bin_factors = (int(bin_factors),) * len(axes)
        elif isinstance(bin_factors, (list, tuple)):
            if len(bin_factors) != len(axes):
                raise ValueError("bin_factors and axes must have the same length.")
            for fac in bin_factors:
                if not isinstance(fac, numbers.Integral):
                    raise TypeError(f"Each bin factor must be an integer, got {fac!r}")
            bin_factors = tuple(int(fac) for fac in bin_factors)
        else:
            raise TypeError("bin_factors must be an int or tuple of ints.")

        if any(fac <= 0 for fac in bin_factors):
            raise ValueError("All bin factors must be positive integers.")

        axis_to_factor = dict(zip(axes, bin_factors))

        slices = []
        effective_lengths = []
        for a0 in range(self.ndim):
            if a0 in axis_to_factor:
                fac = axis_to_factor[a0]
                length_eff = (self.shape[a0] // fac) * fac
                slices.append(slice(0, length_eff))
                effective_lengths.append(length_eff)
            else:
                slices.append(slice(None))
                effective_lengths.append(self.shape[a0])

        reshape_dims = []
        reduce_axes = []
        running_axis = 0
        for a1 in range(self.ndim):
            if a1 in axis_to_factor:
                fac = axis_to_factor[a1]
                nblocks = effective_lengths[a1] // fac
                reshape_dims.extend([nblocks, fac])
                reduce_axes.append(running_axis + 1)
                running_axis += 2
            else:
                reshape_dims.append(effective_lengths[a1])
                running_axis += 1

        array_view = self.array[tuple(slices)].reshape(tuple(reshape_dims))
        array_binned = np.sum(array_view, axis=tuple(reduce_axes))
        if reducer_norm == "mean":
            block_volume = 1
            for fac_b in axis_to_factor.values():
                block_volume *= fac_b
            array_binned = array_binned / block_volume

        new_sampling = self.sampling.astype(float).copy()
        new_origin = self.origin.astype(float).copy()
        for ax_binned, fac_binned in axis_to_factor.items():
            old_sampling = new_sampling[ax_binned]
            new_sampling[ax_binned] = old_sampling * fac_binned
            new_origin[ax_binned] = new_origin[ax_binned] + 0.5 * (fac_binned - 1) * old_sampling

        if modify_in_place:
            self._array = array_binned
            self._sampling = new_sampling
            self._origin = new_origin
            return None

        dataset = self.copy()
        dataset.array = array_binned
        dataset.sampling = new_sampling
        dataset.origin = new_origin

        factors_str = " ".join(
            f"{axis_to_factor[a2]:.3g}" if a2 in axis_to_factor else "1" for a2 in range(self.ndim)
        )
        suffix = f"(binned factors {factors_str}" + (", mean)" if reducer_norm == "mean" else ")")
        dataset.name = f"{self.name} {suffix}"
        return dataset

    def fourier_resample(
        self,
        out_shape: Optional[tuple[int, ...]] = None,
        factors: Optional[Union[float, tuple[float, ...]]] = None,
        axes: Optional[tuple[int, ...]] = None,
        modify_in_place: bool = False,
    ) -> Optional["Dataset"]:
        """
        Fourier resample the dataset by centered cropping (downsample) or zero padding (upsample).
        The operation is performed in the Fourier domain using fftshift alignment and default FFT
        normalization. The physical center is preserved and the mean intensity is kept constant.

        Parameters
        ----------
        out_shape : tuple of int, optional
            Output lengths for the selected axes. Must have the same length as `axes`.
            Use this when specifying the exact output shape.
        factors : float or tuple of float, optional
            Multiplicative resampling factors for each axis. A scalar factor is applied
            to all axes. Use this when specifying scaling rather than absolute size.
            Exactly one of `out_shape` or `factors` must be provided.
        axes : tuple of int, optional
            Axes to resample. Defaults to all axes. A scalar is interpreted as a single axis.
        modify_in_place : bool
            If True, update the dataset in place and return None.
            If False, return a new Dataset with the resampled array and updated metadata.

        Returns
        -------
        Dataset or None
            A new resampled dataset if `modify_in_place` is False, otherwise None.
        """
        if axes is None:
            axes = tuple(range(self.ndim))
        elif isinstance(axes, int | float):
            axes = (int(axes),)
        else:
            axes = tuple(int(a0) for a0 in axes)

        if (out_shape is None) == (factors is None):
            raise ValueError("Specify exactly one of out_shape or factors.")

        # Resolve out_shape & factors
        if factors is not None:
            if isinstance(factors, int | float):
                factors = (float(factors),) * len(axes)
            else:
                factors = tuple(float(f) for f in factors)
                if len(factors) != len(axes):
                    raise ValueError("factors length must match number of axes.")
            out_shape = tuple(
                max(1, int(round(self.shape[a1] * f))) for a1, f in zip(axes, factors)
            )
        else:
            assert out_shape is not None  # Guaranteed by check above
            if len(out_shape) != len(axes):
                raise ValueError("out_shape length must match number of axes.")
            out_shape = tuple(int(nl) for nl in out_shape)
            factors = tuple(out_len / self.shape[a2] for a2, out_len in zip(axes, out_shape))

        if any(nl < 1 for nl in out_shape):
            raise ValueError("All output lengths must be >= 1.")

        def _shift_center_index(n: int) -> int:
            # index of DC after fftshift: n//2 for even, (n-1)//2 for odd
            return n // 2 if (n % 2 == 0) else (n - 1) // 2

        # Forward FFT (default normalization: forward unscaled, inverse 1/N)
        F = np.fft.fftn(self.array, axes=axes)
        F = np.fft.fftshift(F, axes=axes)

        # Center-aligned crop/pad per axis (so DC stays centered)
        axis_to_outlen = dict(zip(axes, out_shape))
        slices: list[slice] = []
        pad_specs: list[tuple[int, int]] = []
        for a3 in range(self.ndim):
            if a3 in axis_to_outlen:
                old_len = self.shape[a3]
                new_len = axis_to_outlen[a3]
                oc = _shift_center_index(old_len)
                nc = _shift_center_index(new_len)

                if new_len < old_len:
                    start = oc - nc
                    end = start + new_len
                    slices.append(slice(start, end))
                    pad_specs.append((0, 0))
                elif new_len > old_len:
                    slices.append(slice(None))
                    before = nc - oc
                    after = new_len - old_len - before
                    pad_specs.append((before, after))
                else:
                    slices.append(slice(None))
                    pad_specs.append((0, 0))
            else:
                slices.append(slice(None))
                pad_specs.append((0, 0))

        F_rs = F[tuple(slices)]
        if any(pw != (0, 0) for pw in pad_specs):
            F_rs = np.pad(F_rs, pad_specs, mode="constant")

        # Inverse FFT
        F_rs = np.fft.ifftshift(F_rs, axes=axes)
        array_resampled = np.fft.ifftn(F_rs, axes=axes)

        if np.isrealobj(self.array):
            array_resampled = array_resampled.real

        # Mean preservation with default FFTs:
        # ones -> F(0)=N_in, IFFT size N_out -> constant N_in/N_out; multiply by N_out/N_in.
        N_in = int(np.prod([self.shape[a4] for a4 in axes]))
        N_out = int(np.prod([axis_to_outlen[a5] for a5 in axes]))
        if N_in > 0 and N_out > 0:
            array_resampled *= N_out / N_in

        # Metadata (ensure float arrays to avoid truncation)
        new_sampling = self.sampling.astype(float).copy()
        for a6, out_len in zip(axes, out_shape):
            fac_actual = out_len / self.shape[a6]
            new_sampling[a6] = new_sampling[a6] / fac_actual

        new_origin = self.origin.astype(float).copy()
        for a7, out_len in zip(axes, out_shape):
            old_len = self.shape[a7]
            old_center_idx = (old_len - 1) / 2.0
            new_center_idx = (out_len - 1) / 2.0
            old_sampling = self.sampling[a7]
            new_origin[a7] = (
                self.origin[a7] + old_center_idx * old_sampling - new_center_idx * new_sampling[a7]
            )

        if modify_in_place:
            self._array = array_resampled
            self._sampling = new_sampling
            self._origin = new_origin
            return None

        ds = self.copy()
        ds.array = array_resampled
        ds.sampling = new_sampling
        ds.origin = new_origin
        return ds

    def __getitem__(self, index) -> Self:
        """
        General indexing method for Dataset objects.

        Returns a new Dataset (or subclass) corresponding to the indexed data.
        Metadata (origin, sampling, units) is sliced or reduced accordingly.
        Handles step slicing (e.g., [::2]) by multiplying sampling accordingly.

        Parameters
        ----------
        index : int | slice | tuple | Ellipsis
            Indexing expression applied to the underlying array.

        Returns
        -------
        Dataset
            A new Dataset instance with appropriately adjusted metadata.
        """
        array_view = self.array[index]

        # Normalize index into tuple form
        if not isinstance(index, tuple):
            index = (index,)

        # Expand Ellipsis
        if Ellipsis in index:
            ellipsis_pos = index.index(Ellipsis)
            num_missing = self.ndim - (len(index) - 1)
            index = index[:ellipsis_pos] + (slice(None),) * num_missing + index[ellipsis_pos + 1 :]

        # Pad with slices if index shorter than ndim
        if len(index) < self.ndim:
            index = index + (slice(None),) * (self.ndim - len(index))

        # Compute which dimensions are kept
        kept_axes = [i for i, idx in enumerate(index) if not isinstance(idx, (int, np.integer))]

        # Slice/reduce metadata accordingly
        new_origin = (
            np.asarray(self.origin)[kept_axes] if np.ndim(self.origin) > 0 else self.origin
        )
        new_sampling = (
            np.asarray(self.sampling)[kept_axes] if np.ndim(self.sampling) > 0 else self.sampling
        )
        new_units = [self.units[i] for i in kept_axes] if len(self.units) > 0 else self.units

        # Adjust sampling for slice steps (e.g. [::2] doubles spacing)
        for i, idx in enumerate(index):
            if isinstance(idx, slice) and idx.step not in (None, 1):
                if i in kept_axes:
                    j = kept_axes.index(i)
                    new_sampling[j] *= idx.step

        out_ndim = array_view.ndim

        if out_ndim == self.ndim:
            cls = type(self)
        else:
            try:
                cls = self._registry[out_ndim]
            except KeyError:
                cls = Dataset

        # Construct new dataset
        return cls.from_array(  # type: ignore ## would be nice to properly type slicing, but hard
            array=array_view,
            name=f"{self.name}{index}",
            origin=new_origin,
            sampling=new_sampling,
            units=new_units,
            signal_units=self.signal_units,
        )


orig_from_array = _Orig.__dict__["from_array"].__func__  # plain function (cls, array, ...)
orig_crop = _Orig.crop
orig_bin = _Orig.bin
orig_fourier_resample = _Orig.fourier_resample
orig_getitem = _Orig.__getitem__

ORIG = {
    "crop": orig_crop,
    "bin": orig_bin,
    "fourier_resample": orig_fourier_resample,
}

CLS = {2: Dataset2d, 3: Dataset3d, 4: Dataset4d}
COUNTS = {"from_array": 0, "crop": 0, "bin": 0, "fourier_resample": 0, "getitem": 0, "hist": 0}


# --------------------------------------------------------------------------------------
# helpers
# --------------------------------------------------------------------------------------
def snap(ds):
    """Bit-exact snapshot of everything observable on a Dataset."""
    if ds is None:
        return None
    assert isinstance(ds, Dataset), type(ds)
    return (
        type(ds).__name__,
        ds.array.dtype.str,
        tuple(ds.array.shape),
        ds.array.tobytes(),
        ds.origin.dtype.str,
        tuple(ds.origin.shape),
        ds.origin.tobytes(),
        ds.sampling.dtype.str,
        tuple(ds.sampling.shape),
        ds.sampling.tobytes(),
        tuple(ds.units),
        type(ds.units).__name__,
        ds.name,
        ds.signal_units,
    )


def calib(ds):
    """Array + calibration only (no name): used for in-place == copying."""
    s = snap(ds)
    return s[:12] + (s[13],)


def run(fn):
    try:
        return ("ok", fn())
    except Exception as e:  # noqa: BLE001
        return ("err", type(e).__name__, str(e))


def same_outcome(r_old, r_new, what):
    assert r_old[0] == r_new[0], (what, r_old, r_new)
    if r_old[0] == "err":
        assert r_old == r_new, (what, r_old, r_new)
    else:
        assert snap(r_old[1]) == snap(r_new[1]), (what, "results differ")


def coherent(ds, what=""):
    nd = ds.array.ndim
    assert ds.ndim == nd
    assert isinstance(ds.origin, np.ndarray) and ds.origin.shape == (nd,), (what, ds.origin)
    assert isinstance(ds.sampling, np.ndarray) and ds.sampling.shape == (nd,), (what, ds.sampling)
    assert isinstance(ds.units, list) and len(ds.units) == nd, (what, ds.units)
    expected = Dataset._registry.get(nd, Dataset)
    assert isinstance(ds, expected), (what, type(ds), expected)


def make_arr(shape, dtype, rng):
    dtype = np.dtype(dtype)
    if np.issubdtype(dtype, np.complexfloating):
        a = rng.normal(size=shape) + 1j * rng.normal(size=shape)
    elif np.issubdtype(dtype, np.floating):
        a = rng.normal(size=shape) * 10.0
    else:
        a = rng.integers(0, 100, size=shape)
    return a.astype(dtype)


def make_ds(shape, dtype, rng, cls=None):
    arr = make_arr(shape, dtype, rng)
    nd = arr.ndim
    if cls is None:
        cls = CLS.get(nd, Dataset)
    return cls.from_array(
        arr,
        name="d",
        origin=rng.uniform(-5, 5, nd),
        sampling=rng.uniform(0.1, 3.0, nd),
        units=[f"u{i}" for i in range(nd)],
        signal_units="e",
    )


# --------------------------------------------------------------------------------------
# per-operation checks (old == new, plus the property)
# --------------------------------------------------------------------------------------
def check_method(ds, name, args, kwargs):
    """crop / bin / fourier_resample: copying and in-place variant, old vs new."""
    COUNTS[name] += 1
    what = (name, ds.shape, str(ds.dtype), args, kwargs)
    before = snap(ds)
    a, b = ds.copy(), ds.copy()
    assert snap(a) == before and snap(b) == before, (what, "copy not identical")

    r_old = run(lambda: ORIG[name](a, *args, **kwargs))
    r_new = run(lambda: getattr(b, name)(*args, **kwargs))
    same_outcome(r_old, r_new, what)
    # the source of a copying operation stays bit-identical
    assert snap(a) == before and snap(b) == before, (what, "source modified")

    a2, b2 = ds.copy(), ds.copy()
    r_old2 = run(lambda: ORIG[name](a2, *args, modify_in_place=True, **kwargs))
    r_new2 = run(lambda: getattr(b2, name)(*args, modify_in_place=True, **kwargs))
    same_outcome(r_old2, r_new2, what + ("in_place",))
    assert snap(a2) == snap(b2), (what, "in-place state differs")
    assert r_new[0] == r_new2[0], (what, "in-place / copying disagree on raising")

    if r_new[0] == "ok":
        res = r_new[1]
        assert r_new2[1] is None
        coherent(res, what)
        coherent(b2, what)
        assert type(res) is type(ds), what
        # in-place variant == copying variant (array and calibration)
        assert calib(b2) == calib(res), (what, "in-place != copying")
        assert not np.shares_memory(res.array, b.array), (what, "result aliases the source")
    else:
        assert snap(b2) == before, (what, "failed in-place op modified the object")
    return r_old, r_new


def expected_getitem_calibration(ds, entries):
    """Independent statement of the property for one full-rank list of per-axis entries."""
    o, s, u = [], [], []
    for ax, e in enumerate(entries):
        if isinstance(e, (int, np.integer)):
            continue
        o.append(ds.origin[ax])
        step = e.step if isinstance(e, slice) and e.step is not None else 1
        s.append(ds.sampling[ax] * step)
        u.append(ds.units[ax])
    return np.array(o, dtype=ds.origin.dtype), np.array(s, dtype=ds.sampling.dtype), u


def check_getitem(ds, index, entries=None):
    COUNTS["getitem"] += 1
    what = ("getitem", ds.shape, str(ds.dtype), index)
    before = snap(ds)
    r_old = run(lambda: orig_getitem(ds, index))
    r_new = run(lambda: ds[index])
    same_outcome(r_old, r_new, what)
    assert snap(ds) == before, (what, "source modified by indexing")
    if r_new[0] == "ok":
        res = r_new[1]
        coherent(res, what)
        ref = ds.array[index]
        assert res.array.dtype == ref.dtype and res.array.shape == ref.shape, what
        assert res.array.tobytes() == ref.tobytes(), what
        if entries is not None:
            eo, es, eu = expected_getitem_calibration(ds, entries)
            assert res.origin.tobytes() == eo.tobytes(), (what, res.origin, eo)
            assert res.sampling.tobytes() == es.tobytes(), (what, res.sampling, es)
            assert res.units == eu, (what, res.units, eu)
    return r_old, r_new


def check_from_array(arr, kwargs, cls=Dataset):
    COUNTS["from_array"] += 1
    what = ("from_array", cls.__name__, type(arr).__name__, kwargs)
    kw_snapshot = repr(kwargs)
    r_old = run(lambda: orig_from_array(cls, arr, **kwargs))
    r_new = run(lambda: cls.from_array(arr, **kwargs))
    same_outcome(r_old, r_new, what)
    assert repr(kwargs) == kw_snapshot, (what, "arguments modified")
    if r_new[0] == "ok":
        old, new = r_old[1], r_new[1]
        assert type(old) is type(new) is cls
        nd = new.array.ndim
        assert new.origin.shape == (nd,) and new.sampling.shape == (nd,) and len(new.units) == nd
        # aliasing behaviour must be the same
        if isinstance(arr, np.ndarray):
            assert (old.array is arr) == (new.array is arr), what
        for key in ("origin", "sampling"):
            v = kwargs.get(key)
            if isinstance(v, np.ndarray):
                assert np.shares_memory(getattr(old, key), v) == np.shares_memory(
                    getattr(new, key), v
                ), what
        if kwargs.get("origin") is None:
            assert new.origin.tobytes() == np.zeros(nd).tobytes(), what
        if kwargs.get("sampling") is None:
            assert new.sampling.tobytes() == np.ones(nd).tobytes(), what
        if kwargs.get("units") is None:
            assert new.units == ["pixels"] * nd, what
        if kwargs.get("name") is None:
            assert new.name == f"{nd}d dataset", what
    return r_old, r_new


# --------------------------------------------------------------------------------------
# random argument generators
# --------------------------------------------------------------------------------------
def rand_axes(nd, pyr, allow_scalar=True):
    mode = pyr.choice(["none", "int", "tuple", "tuple", "list"] if allow_scalar else ["none", "tuple"])
    if mode == "none":
        return None
    if mode == "int":
        return pyr.randrange(nd)
    k = pyr.randint(1, nd)
    axes = pyr.sample(range(nd), k)
    if pyr.random() < 0.6:
        axes.sort()
    return tuple(axes) if mode == "tuple" else list(axes)


def n_axes(axes, nd):
    if axes is None:
        return nd
    if isinstance(axes, int):
        return 1
    return len(axes)


def rand_crop(ds, pyr):
    nd = ds.ndim
    axes = rand_axes(nd, pyr)
    k = n_axes(axes, nd)
    if isinstance(axes, int) and pyr.random() < 0.5:
        k = pyr.randint(1, 3)  # scalar axis takes only the first crop width
    cw = []
    for _ in range(k):
        before = pyr.choice([0, 0, 1, 2])
        after = pyr.choice([0, 0, -1, -2, 1, 2, 3, 5])
        cw.append((before, after))
    if pyr.random() < 0.1:
        cw.append((0, 0))  # length mismatch -> error path (unless scalar axis)
    return (tuple(cw),), ({} if axes is None and pyr.random() < 0.5 else {"axes": axes})


def rand_bin(ds, pyr):
    nd = ds.ndim
    axes = rand_axes(nd, pyr)
    k = n_axes(axes, nd)
    r = pyr.random()
    if r < 0.35:
        fac = pyr.choice([1, 2, 2, 3])
    elif r < 0.45:
        fac = np.int64(2)
    elif r < 0.9:
        fac = tuple(pyr.choice([1, 2, 3]) for _ in range(k))
        if pyr.random() < 0.3:
            fac = list(fac)
    elif r < 0.95:
        fac = tuple(pyr.choice([1, 2]) for _ in range(k + 1))  # length mismatch
    else:
        fac = pyr.choice([0, -1, 2.0, "2", (2.5,) * k, (0,) * k])  # invalid
    kw = {"axes": axes}
    rr = pyr.random()
    if rr < 0.4:
        kw["reducer"] = "mean"
    elif rr < 0.5:
        kw["reducer"] = pyr.choice(["SUM", "Mean", "median"])
    return (fac,), kw


def rand_fourier(ds, pyr):
    nd = ds.ndim
    axes = rand_axes(nd, pyr)
    k = n_axes(axes, nd)
    kw = {"axes": axes}
    r = pyr.random()
    if r < 0.45:
        kw["out_shape"] = tuple(pyr.randint(1, 8) for _ in range(k))
    elif r < 0.6:
        kw["factors"] = pyr.choice([0.5, 1.0, 1.5, 2, 0.3, 1.3])
    elif r < 0.9:
        kw["factors"] = tuple(pyr.choice([0.5, 1.0, 1.5, 2.0, 0.4, 3]) for _ in range(k))
    elif r < 0.93:
        kw["out_shape"] = tuple(pyr.randint(1, 8) for _ in range(k + 1))  # mismatch
    elif r < 0.96:
        kw["factors"] = tuple(1.5 for _ in range(k + 1))  # mismatch
    elif r < 0.98:
        kw["out_shape"] = (0,) * k  # invalid
    else:
        pass  # neither -> error
    return (), kw


def rand_index(ds, pyr, allow_all_int=False):
    """Return (index, entries): entries is the full-rank per-axis list (or None when the
    independent calibration check does not apply)."""
    nd = ds.ndim
    entries = []
    have_list = False
    for ax in range(nd):
        n = ds.shape[ax]
        kinds = ["slice", "slice", "full", "step"]
        if n > 0:
            kinds += ["int", "npint"]
            if not have_list:
                kinds.append("list")
        k = pyr.choice(kinds)
        if k == "int":
            entries.append(pyr.randrange(-n, n))
        elif k == "npint":
            entries.append(np.int64(pyr.randrange(-n, n)))
        elif k == "full":
            entries.append(slice(None))
        elif k == "slice":
            start = pyr.choice([None, 0, 1, 2, -1, -2])
            stop = pyr.choice([None, n, n - 1, -1, 1, 3])
            step = pyr.choice([None, 1, 1, 2, 3])
            entries.append(slice(start, stop, step))
        elif k == "step":
            entries.append(slice(None, None, pyr.choice([2, 3, -1, -2, np.int64(2)])))
        else:
            have_list = True
            entries.append([pyr.randrange(n) for _ in range(pyr.randint(1, 3))])
    if not allow_all_int and all(isinstance(e, (int, np.integer)) for e in entries):
        entries[pyr.randrange(nd)] = slice(None, None, 2)
    index = list(entries)
    # optionally replace a run of full slices by Ellipsis, or drop trailing full slices
    r = pyr.random()
    if r < 0.4:
        i = pyr.randrange(nd + 1)
        j = pyr.randint(i, nd)
        for t in range(i, j):
            entries[t] = slice(None)
        index = entries[:i] + [Ellipsis] + entries[j:]
    elif r < 0.6:
        j = pyr.randrange(nd + 1)
        for t in range(j, nd):
            entries[t] = slice(None)
        index = entries[:j]
        if not index:
            index = [Ellipsis]
    n_adv = sum(isinstance(e, (int, np.integer, list)) for e in entries)
    check_entries = entries
    if have_list and any(isinstance(e, list) for e in entries) and n_adv > 1:
        # mixed list + int: NumPy may transpose the broadcast axis; only compare old vs new
        check_entries = None
    if len(index) == 1 and pyr.random() < 0.5:
        return index[0], check_entries
    return tuple(index), check_entries


# --------------------------------------------------------------------------------------
# 1. from_array
# --------------------------------------------------------------------------------------
def test_from_array():
    rng = np.random.default_rng(0)
    shapes = [(5,), (1,), (3, 4), (1, 4), (2, 3, 4), (2, 1, 3, 2), (2, 2, 1, 3, 2)]
    dtypes = [np.float64, np.float32, np.int16, np.uint8, np.complex64, bool]
    for shape, dtype in itertools.product(shapes, dtypes):
        arr = make_arr(shape, dtype, rng)
        nd = arr.ndim
        origins = [None, 0, 0.0, 1.5, np.zeros(nd), list(range(nd)), tuple(rng.uniform(-1, 1, nd)),
                   np.arange(nd, dtype=np.int32), np.ones(nd + 1), "a", [None] * nd]
        samplings = [None, 0, 2, 0.25, np.full(nd, 0.5), [1] * nd, np.ones(max(nd - 1, 0)), {}]
        unitss = [None, "nm", ["A"] * nd, tuple("xyzuv"[:nd]), ["a"] * (nd + 1), 3, [1] * nd, []]
        names = [None, "", "foo", 7]
        for origin in origins:
            check_from_array(arr, {"origin": origin})
            check_from_array(arr, {"origin": origin, "sampling": 2.0, "units": "nm", "name": "n"})
        for sampling in samplings:
            check_from_array(arr, {"sampling": sampling})
        for units in unitss:
            check_from_array(arr, {"units": units})
        for name in names:
            check_from_array(arr, {"name": name, "signal_units": "counts"})
        check_from_array(arr, {})
        check_from_array(arr.tolist(), {"origin": None})
        check_from_array(arr.tolist(), {"origin": np.arange(nd)})
    # invalid arrays
    for bad in [3.0, "abc", [["a", "b"]], None, [[1, 2], [3]], np.float64(2.0)]:
        check_from_array(bad, {})
        check_from_array(bad, {"origin": 1.0})
    # positional use and subclasses that inherit Dataset.from_array semantics via copy()
    arr = make_arr((3, 4, 2, 2, 2), np.float32, rng)
    a = orig_from_array(Dataset, arr, "nm", (1, 2, 3, 4, 5), 2, "A", "e")
    b = Dataset.from_array(arr, "nm", (1, 2, 3, 4, 5), 2, "A", "e")
    assert snap(a) == snap(b)


# --------------------------------------------------------------------------------------
# 2. crop / bin / fourier_resample on a grid of explicit arguments
# --------------------------------------------------------------------------------------
def test_methods_explicit():
    rng = np.random.default_rng(1)
    cases = [
        ((7,), np.float64),
        ((1,), np.float32),
        ((6, 5), np.float32),
        ((1, 6), np.int16),
        ((4, 5, 6), np.complex64),
        ((4, 1, 6), np.uint8),
        ((3, 4, 5, 6), np.float64),
        ((2, 3, 1, 4, 5), np.float32),
    ]
    for shape, dtype in cases:
        ds = make_ds(shape, dtype, rng)
        nd = ds.ndim
        # --- bin
        for fac in [1, 2, 3, np.int32(2), (2,) * nd, [3] * nd, tuple(range(1, nd + 1)), 0, -2, 2.0,
                    (2,) * (nd + 1), "2", (1.5,) * nd, 100]:
            for reducer in ["sum", "mean", "MEAN", "max"]:
                check_method(ds, "bin", (fac,), {"reducer": reducer})
        for ax in list(range(nd)) + [-1, float(0)]:
            check_method(ds, "bin", (2,), {"axes": ax})
            check_method(ds, "bin", ((3,),), {"axes": (ax,), "reducer": "mean"})
        if nd >= 2:
            check_method(ds, "bin", ((2, 3),), {"axes": (nd - 1, 0)})
            check_method(ds, "bin", ((2, 3),), {"axes": [0, 1], "reducer": "mean"})
            check_method(ds, "bin", ((2, 3),), {"axes": (0, 0)})
        # --- crop
        full = tuple((0, 0) for _ in range(nd))
        check_method(ds, "crop", (full,), {})
        check_method(ds, "crop", (tuple((1, -1) for _ in range(nd)),), {})
        check_method(ds, "crop", (tuple((0, 3) for _ in range(nd)),), {})
        check_method(ds, "crop", (tuple((2, 0) for _ in range(nd)),), {"axes": None})
        check_method(ds, "crop", (tuple([1, 0] for _ in range(nd)),), {"axes": tuple(range(nd))})
        check_method(ds, "crop", (full + ((0, 0),),), {})
        check_method(ds, "crop", (((np.int64(1), np.int64(0)),) * nd,), {})
        check_method(ds, "crop", (((1, 0.0),) * nd,), {})
        check_method(ds, "crop", (((None, 0),) * nd,), {})
        check_method(ds, "crop", (((1, None),) * nd,), {})
        check_method(ds, "crop", (((1, 2, 3),) * nd,), {})
        check_method(ds, "crop", ((), ), {"axes": ()})
        for ax in list(range(nd)) + [-1, 0.0]:
            check_method(ds, "crop", (((1, 0),),), {"axes": ax})
            check_method(ds, "crop", (((0, -1), (5, 5)),), {"axes": ax})
            check_method(ds, "crop", (((1, 4),),), {"axes": (ax,)})
            check_method(ds, "crop", (((1, 4),),), {"axes": [ax]})
        if nd >= 2:
            check_method(ds, "crop", (((1, 0), (0, -1)),), {"axes": (nd - 1, 0)})
            check_method(ds, "crop", (((1, 0),),), {"axes": (0, 1)})
        # --- fourier_resample
        for kw in [
            {"out_shape": tuple(s + 2 for s in shape)},
            {"out_shape": tuple(max(1, s - 1) for s in shape)},
            {"out_shape": tuple(shape)},
            {"out_shape": [1] * nd},
            {"out_shape": (0,) * nd},
            {"out_shape": tuple(shape) + (3,)},
            {"factors": 2},
            {"factors": 0.5},
            {"factors": 1.0},
            {"factors": (1.5,) * nd},
            {"factors": [0.7] * nd},
            {"factors": (2.0,) * (nd + 1)},
            {},
            {"out_shape": tuple(shape), "factors": 1.0},
            {"factors": 2.0, "axes": 0},
            {"factors": 0.5, "axes": nd - 1},
            {"out_shape": (9,), "axes": (0,)},
            {"out_shape": (3,), "axes": [nd - 1]},
            {"out_shape": (4.0,), "axes": 0.0},
        ]:
            check_method(ds, "fourier_resample", (), kw)
        if nd >= 2:
            check_method(ds, "fourier_resample", (), {"out_shape": (8, 3), "axes": (nd - 1, 0)})
            check_method(ds, "fourier_resample", (), {"factors": (2, 0.5), "axes": (0, 1)})
    # Dataset4dstem goes through the same base-class code
    ds = make_ds((3, 4, 5, 6), np.float32, rng, cls=Dataset4dstem)
    check_method(ds, "bin", (2,), {"axes": (2, 3)})
    check_method(ds, "crop", (((1, 0), (0, -1)),), {"axes": (0, 1)})
    check_method(ds, "fourier_resample", (), {"out_shape": (8, 8), "axes": (2, 3)})


# --------------------------------------------------------------------------------------
# 3. indexing
# --------------------------------------------------------------------------------------
def test_getitem():
    rng = np.random.default_rng(2)
    pyr = random.Random(2)
    cases = [
        ((7,), np.float64),
        ((1,), np.int16),
        ((6, 5), np.float32),
        ((1, 6), np.complex64),
        ((4, 5, 6), np.float32),
        ((4, 1, 6), np.uint8),
        ((3, 4, 5, 6), np.float64),
        ((2, 3, 1, 4, 5), np.float32),
    ]
    E = Ellipsis
    for shape, dtype in cases:
        ds = make_ds(shape, dtype, rng)
        nd = ds.ndim
        explicit = [
            E, (E,), slice(None), 0, -1, np.int64(0), slice(None, None, 2), slice(1, None, 3),
            slice(None, None, -1), slice(None, None, 1), [0], [0, 0], (E, 0), (0, E), (E, slice(None, None, 2)),
            (slice(None, None, 2), E), (E, [0]), ([0], E), (slice(0, 1), E, slice(None, None, -2)),
            (0,) * nd, (slice(None),) * nd, (slice(None, None, 2),) * nd, (0,) * (nd + 1),
            (E, E), None, (None, E), (E, None), shape[0], -shape[0] - 1, 1.0, "a",
            np.array([0]), (np.array([0]),), True, slice(5, 2),
        ]
        if nd >= 2:
            explicit += [
                (0, slice(None, None, 2)), (slice(None, None, 2), 0), (E, 0, slice(None)), (0, E, 0),
                ([0], slice(None, None, 2)), (slice(None, None, 3), [0, 0]), ([0], [0]),
                (0, [0]), ([0], 0), (slice(1, None), E, -1), (np.int32(0), E, slice(None, None, -1)),
            ]
        if nd >= 3:
            explicit += [
                (0, E, 0), (0, slice(None), 0), (slice(None, None, 2), 0, slice(1, None, 2)),
                (E, slice(None, None, 2), 0, slice(None)), (0, [0, 1], slice(None)),
                ([0, 1], slice(None), 0), (slice(None), 0, E),
            ]
        for idx in explicit:
            check_getitem(ds, idx)
        for _ in range(250):
            idx, entries = rand_index(ds, pyr, allow_all_int=pyr.random() < 0.05)
            check_getitem(ds, idx, entries)
    ds = make_ds((3, 4, 5, 6), np.float32, rng, cls=Dataset4dstem)
    for idx in [E, 0, (0, 0), (E, slice(None, None, 2)), (slice(None), 1), (E, 0, 0), ([0, 1], E)]:
        check_getitem(ds, idx)


# --------------------------------------------------------------------------------------
# 4. random operation histories: reference (original functions) and current tree in lockstep
# --------------------------------------------------------------------------------------
def test_histories(n_hist=260, depth=10):
    pyr = random.Random(3)
    rng = np.random.default_rng(3)
    dtypes = [np.float64, np.float32, np.int16, np.uint8, np.complex64, np.complex128]
    gens = {"crop": rand_crop, "bin": rand_bin, "fourier_resample": rand_fourier}
    for h in range(n_hist):
        nd = pyr.randint(1, 5)
        shape = tuple(pyr.choice([1, 2, 3, 4, 5, 6, 7]) for _ in range(nd))
        cls = Dataset4dstem if nd == 4 and pyr.random() < 0.3 else None
        ds0 = make_ds(shape, pyr.choice(dtypes), rng, cls=cls)
        ref, new = ds0.copy(), ds0.copy()
        for d in range(depth):
            COUNTS["hist"] += 1
            assert snap(ref) == snap(new), (h, d, "state diverged")
            coherent(new, (h, d))
            op = pyr.choice(["crop", "bin", "fourier_resample", "getitem", "getitem", "copy", "set"])
            if op == "copy":
                ref, new = ref.copy(), new.copy()
                continue
            if op == "set":
                k = new.ndim
                o = rng.uniform(-3, 3, k)
                s = pyr.choice([2, 0.5, rng.uniform(0.5, 2, k), tuple(rng.uniform(0.5, 2, k))])
                for x in (ref, new):
                    x.origin = o
                    x.sampling = s
                    x.units = ["q%d" % i for i in range(k)]
                continue
            if op == "getitem":
                if new.array.size == 0:
                    continue
                idx, entries = rand_index(new, pyr)
                r_old = run(lambda: orig_getitem(ref, idx))
                _, r_new = check_getitem(new, idx, entries)
                same_outcome(r_old, r_new, (h, d, "getitem", idx))
                if r_new[0] == "ok":
                    ref, new = r_old[1], r_new[1]
                continue
            args, kw = gens[op](new, pyr)
            # full old/new + property check on the current state
            check_method(new, op, args, kw)
            in_place = pyr.random() < 0.5
            if in_place:
                r_old = run(lambda: ORIG[op](ref, *args, modify_in_place=True, **kw))
                r_new = run(lambda: getattr(new, op)(*args, modify_in_place=True, **kw))
                same_outcome(r_old, r_new, (h, d, op, args, kw, "in place"))
            else:
                r_old = run(lambda: ORIG[op](ref, *args, **kw))
                r_new = run(lambda: getattr(new, op)(*args, **kw))
                same_outcome(r_old, r_new, (h, d, op, args, kw))
                if r_new[0] == "ok":
                    ref, new = r_old[1], r_new[1]
            if new.array.size == 0 or new.array.size > 20000:
                break
        assert snap(ref) == snap(new), (h, "final state diverged")
        coherent(new, (h, "final"))


if __name__ == "__main__":
    test_from_array()
    test_methods_explicit()
    test_getitem()
    test_histories()
    print("checks:", COUNTS)
    print("OK")
    sys.exit(0)
