"""Demo for C02 / patch 3: PtychographyDatasetRaster._normalize_diffraction_intensities
(per-pattern centring extracted into _center_amplitude, loop body regrouped, the four
flatten / mask / crop copies folded into one local helper).

1. Property check: data simulated by an independent numpy multislice / mixed-state reference
   are reproduced by the library forward pipeline at the ground truth (every data-fidelity loss
   ~ 0), and the loss is strictly larger at a perturbed object / probe.
2. Mechanism check: with descan correction disabled the centred amplitudes are the square
   roots of the (clipped) measured patterns, and the mean diffraction intensity is the mean
   pattern sum.
3. Old-vs-new check: a verbatim copy of the ORIGINAL _normalize_diffraction_intensities is run
   next to the library one on the same dataset (negative counts, fractional / per-position
   origins, Fourier and bilinear shifts, odd / non-square / 1xN shapes, repeated calls,
   positions_mask / crop_patterns incl. the combinations that are rejected) and every piece of
   state it writes must agree bit for bit - or both must fail with the same exception and
   leave the same state behind.

Run:  PYTHONPATH=<root>/src /venv/bin/python demo.py
"""

import warnings

warnings.filterwarnings("ignore")
import matplotlib

matplotlib.use("Agg")
import numpy as np
import torch

from quantem.core import config
from quantem.core.datastructures.dataset4dstem import Dataset4dstem
from quantem.core.utils.utils import electron_wavelength_angstrom, tqdmnd
from quantem.diffractive_imaging.dataset_models import PtychographyDatasetRaster
from quantem.diffractive_imaging.detector_models import DetectorPixelated
from quantem.diffractive_imaging.object_models import ObjectPixelated
from quantem.diffractive_imaging.probe_models import ProbePixelated
from quantem.diffractive_imaging.ptycho_utils import shift_array
from quantem.diffractive_imaging.ptychography import Ptychography

ENERGY = 300e3
ALL_LOSSES = ("l2_amplitude", "l1_amplitude", "l2_intensity", "l1_intensity")


# --------------------------------------------------------------------------------------
# independent reference implementation (numpy only)
# --------------------------------------------------------------------------------------
def ref_probe(roi, dk, n_modes, c10=40.0, qprobe_frac=0.5):
    """corner-centred mixed-state probe (aperture + defocus), modes made distinct by low-order
    polynomials in q"""
    R, C = roi
    sampling = 1.0 / (np.array(roi) * np.array(dk))
    qr = np.fft.fftfreq(R, sampling[0])
    qc = np.fft.fftfreq(C, sampling[1])
    q2 = qr[:, None] ** 2 + qc[None, :] ** 2
    q = np.sqrt(q2)
    qprobe = min(np.abs(qr).max(), np.abs(qc).max()) * qprobe_frac
    ap = np.sqrt(np.clip((qprobe - q) / min(dk) + 0.5, 0, 1))
    lam = electron_wavelength_angstrom(ENERGY)
    base = ap * np.exp(-1j * np.pi * lam * q2 * c10)
    modes = []
    for m in range(n_modes):
        if m == 0:
            f = base
        elif m == 1:
            f = base * (qr[:, None] / qprobe) * 0.6
        else:
            f = base * (qc[None, :] / qprobe) * 0.4 * np.exp(1j * 0.3)
        modes.append(np.fft.ifft2(f))
    return np.stack(modes, 0)


def ref_simulate(trans, probes, positions_px, dz, sampling):
    """multislice mixed-state forward model.
    trans: (S,H,W) complex transmission, probes: (M,R,C) corner centred, positions_px: (J,2)
    returns detector-centred (fftshifted) intensities (J,R,C)"""
    S, H, W = trans.shape
    M, R, C = probes.shape
    lam = electron_wavelength_angstrom(ENERGY)
    kr = np.fft.fftfreq(R, sampling[0])
    kc = np.fft.fftfreq(C, sampling[1])
    k2 = kr[:, None] ** 2 + kc[None, :] ** 2
    fr = np.fft.fftfreq(R)
    fc = np.fft.fftfreq(C)
    ir = np.round(np.fft.fftfreq(R, 1.0 / R)).astype(int)
    ic = np.round(np.fft.fftfreq(C, 1.0 / C)).astype(int)
    out = np.zeros((positions_px.shape[0], R, C))
    for j, (pr, pc) in enumerate(positions_px):
        r0 = int(np.round(pr))
        c0 = int(np.round(pc))
        ramp = np.exp(-2j * np.pi * (fr[:, None] * (pr - r0) + fc[None, :] * (pc - c0)))
        rows = (r0 + ir) % H
        cols = (c0 + ic) % W
        tot = np.zeros((R, C))
        for m in range(M):
            psi = np.fft.ifft2(np.fft.fft2(probes[m]) * ramp)
            for s in range(S):
                if s > 0:
                    psi = np.fft.ifft2(
                        np.fft.fft2(psi) * np.exp(-1j * np.pi * lam * dz[s - 1] * k2)
                    )
                psi = psi * trans[s][np.ix_(rows, cols)]
            tot += np.abs(np.fft.fft2(psi, norm="ortho")) ** 2
        out[j] = np.fft.fftshift(tot)
    return out


# --------------------------------------------------------------------------------------
# library pipeline at the ground truth
# --------------------------------------------------------------------------------------
def build_ground_truth_case(
    gpts=(5, 4),
    roi=(12, 16),
    step=(1.7, 2.3),
    dk=(0.05, 0.04),
    n_slices=1,
    n_modes=1,
    obj_type="complex",
    pad=(0, 0),
    seed=0,
    thick=None,
):
    rng = np.random.default_rng(seed)
    roi = np.array(roi)
    dk = np.array(dk, dtype=float)
    sampling = 1.0 / (roi * dk)
    if thick is None:
        thick = [3.0 + 1.5 * i for i in range(n_slices - 1)]
    probes = ref_probe(roi, dk, n_modes)

    def make(arr4):
        d4 = Dataset4dstem.from_array(
            array=arr4,
            sampling=(step[0], step[1], dk[0], dk[1]),
            units=("A", "A", "A^-1", "A^-1"),
        )
        pd = PtychographyDatasetRaster.from_dataset4dstem(d4, verbose=0)
        pd.preprocess(
            com_fit_function="no_shift",
            plot_rotation=False,
            plot_com=False,
            probe_energy=ENERGY,
            force_com_rotation=0,
            force_com_transpose=False,
        )
        om = ObjectPixelated.from_uniform(
            num_slices=n_slices,
            obj_type=obj_type,
            slice_thicknesses=thick if n_slices > 1 else None,
        )
        pm = ProbePixelated.from_array(
            probe_array=probes.astype(np.complex64),
            num_probes=n_modes,
            probe_params={"energy": ENERGY},
            rng=1,
        )
        pt = Ptychography.from_models(
            dset=pd,
            obj_model=om,
            probe_model=pm,
            detector_model=DetectorPixelated(),
            rng=3,
            verbose=0,
        )
        pt.preprocess(obj_padding_px=pad, plot_rotation=False, plot_com=False)
        pt.constraints = {"probe": {"orthogonalize_probe": False}}
        return pt

    # geometry pass with dummy data (object shape / effective padding chosen by the library)
    pt0 = make(np.ones((*gpts, *roi), dtype=np.float32))
    S, H, W = [int(x) for x in pt0.obj_shape_full]
    padf = np.array(pt0.obj_padding_px, dtype=float)
    rr, cc = np.meshgrid(np.arange(gpts[0]) * step[0], np.arange(gpts[1]) * step[1], indexing="ij")
    pos = np.stack([rr.ravel() / sampling[0] + padf[0], cc.ravel() / sampling[1] + padf[1]], -1)
    assert np.allclose(pos, pt0.dset.scan_positions_px.detach().numpy(), atol=1e-4)
    pos = np.clip(pos, 0, [H - 1, W - 1])  # library default constraint: clip_scan_positions
    assert np.abs(np.abs(pos - np.round(pos)) - 0.5).min() > 1e-3, "avoid rounding ties"

    ph = rng.uniform(0.0, 0.8, size=(S, H, W))
    obj_param = ph if obj_type == "potential" else np.exp(1j * ph)
    intens = ref_simulate(np.exp(1j * ph), probes, pos, thick, sampling) * 50.0
    pt = make(intens.reshape(*gpts, *roi).astype(np.float32))
    assert tuple(int(x) for x in pt.obj_shape_full) == (S, H, W)

    with torch.no_grad():
        pt.obj_model._obj.data = torch.tensor(obj_param, dtype=pt.obj_model._obj.dtype)
    scale = np.sqrt(
        pt.dset.mean_diffraction_intensity
        / np.sum(np.abs(np.fft.fft2(probes, norm="ortho")) ** 2)
    )
    pt.probe_model.probe = (probes * scale).astype(np.complex64)  # public probe setter
    return pt


def predict(pt, b):
    pi, _p, pf, ds = pt.dset.forward(b, pt.obj_padding_px)
    sp = pt.probe_model.forward(pf)
    op = pt.obj_model.forward(pi)
    _pp, ov = pt.forward_operator(op, sp, ds)
    return pt.detector_model.forward(ov)


def losses(pt, batch=None, loss_types=ALL_LOSSES):
    n = pt.dset.num_gpts
    bs = n if batch is None else batch
    out = {}
    for lt in loss_types:
        pt.dset._set_targets(lt)
        tot, nb = 0.0, 0
        with torch.no_grad():
            for i in range(0, n, bs):
                b = np.arange(n)[i : i + bs]
                loss, _t = pt.error_estimate(predict(pt, b), b, loss_type=lt)
                tot += float(loss)
                nb += 1
        out[lt] = tot / nb
    return out


def check_property(pt, batches=(None, 7, 1)):
    """zero loss at the ground truth for all losses / batch sizes, larger when perturbed"""
    gt = {}
    for bs in batches:
        res = losses(pt, batch=bs)
        for lt, v in res.items():
            # losses are sums over all patterns (float32 pipeline): tolerance per pattern
            tol = (1e-10 if "l2" in lt else 1e-4) * pt.dset.num_gpts
            assert 0 <= v < tol, (lt, bs, v)
        gt[bs] = res
    obj0 = pt.obj_model._obj.data.clone()
    prb0 = pt.probe_model._probe.data.clone()
    # perturbed object: flatten it
    with torch.no_grad():
        pt.obj_model._obj.data = torch.full_like(obj0, 0.3)
    per_obj = losses(pt)
    with torch.no_grad():
        pt.obj_model._obj.data = obj0.clone()
    # perturbed probe: tilt (phase ramp in real space) + 10% amplitude
    R, C = prb0.shape[-2:]
    ramp = torch.exp(2j * torch.pi * torch.fft.fftfreq(R)[:, None] * 1.3) * torch.ones(1, C)
    pt.probe_model.probe = prb0 * ramp * 1.1
    per_prb = losses(pt)
    pt.probe_model.probe = prb0.clone()
    for lt in ALL_LOSSES:
        assert per_obj[lt] > 1e-3 and per_obj[lt] > 1e3 * gt[None][lt], (lt, per_obj[lt])
        assert per_prb[lt] > 1e-3 and per_prb[lt] > 1e3 * gt[None][lt], (lt, per_prb[lt])
    back = losses(pt)
    for lt in ALL_LOSSES:
        assert back[lt] == gt[None][lt], "restoring the ground truth must restore the loss"
    return gt[None]


# --------------------------------------------------------------------------------------
# verbatim copy of the ORIGINAL PtychographyDatasetRaster._normalize_diffraction_intensities
# --------------------------------------------------------------------------------------
def orig_normalize_diffraction_intensities(
    self,
    positions_mask=None,
    crop_patterns: bool = False,
    bilinear: bool = False,
):
    dtype = config.get("dtype_real")
    diff_intensities = self.intensities_4d.copy().astype(dtype)
    com_fit = self.com_fit

    # Aggressive cropping for when off-centered high scattering angle data was recorded
    if crop_patterns:
        crop_r = int(np.minimum(diff_intensities.shape[2] - com_fit[0].max(), com_fit[0].min()))
        crop_c = int(np.minimum(diff_intensities.shape[3] - com_fit[1].max(), com_fit[1].min()))
        crop_m = np.minimum(crop_c, crop_r)

        pattern_crop_mask = np.zeros(self.roi_shape, dtype="bool")
        pattern_crop_mask[:crop_m, :crop_m] = True
        pattern_crop_mask[-crop_m:, :crop_m] = True
        pattern_crop_mask[:crop_m:, -crop_m:] = True
        pattern_crop_mask[-crop_m:, -crop_m:] = True
        pattern_crop_mask_shape = (crop_m * 2, crop_m * 2)

    else:
        pattern_crop_mask = None
        pattern_crop_mask_shape = self.roi_shape

    mean_intensity = 0
    mean_amplitude = 0
    centered_amplitudes = np.zeros(diff_intensities.shape, dtype=dtype)
    amplitudes = np.zeros(diff_intensities.shape, dtype=dtype)
    centered_intensities = np.zeros(diff_intensities.shape, dtype=dtype)
    intensities = np.zeros(diff_intensities.shape, dtype=dtype)
    ## there is some additional memory overhead in this loop due to numpy array assignment
    ## but I don't think it's easy to avoid -- ARCM 251212
    for Rr, Rc in tqdmnd(
        range(diff_intensities.shape[0]),
        range(diff_intensities.shape[1]),
        desc="Normalizing intensities",
        unit="probe position",
        disable=not self._verbose,
    ):
        if positions_mask is not None:
            if not positions_mask[Rr, Rc]:
                continue

        intensity = np.maximum(diff_intensities[Rr, Rc], 0)
        intensities[Rr, Rc] = intensity
        mean_intensity += np.sum(intensity)
        ### shifting amplitude rather than intensity to minimize ringing artifacts
        amplitude = np.maximum(np.sqrt(intensity), 0)
        mean_amplitude += np.sum(amplitude)
        amplitudes[Rr, Rc] = amplitude

        shift_amplitude = shift_array(  # shifting to 0,0 then fftshift
            amplitude,
            -(com_fit[0, Rr, Rc] + 0.0),
            -(com_fit[1, Rr, Rc] + 0.0),
            bilinear=bilinear,
        )
        shift_amplitude = np.maximum(shift_amplitude, 0)
        shift_amplitude = np.fft.fftshift(shift_amplitude)

        centered_amplitudes[Rr, Rc] = shift_amplitude
        centered_intensities[Rr, Rc] = shift_amplitude**2

    if positions_mask is not None:
        amplitudes = amplitudes[positions_mask]
        centered_amplitudes = centered_amplitudes[positions_mask]
        intensities = intensities[positions_mask]
        centered_intensities = centered_intensities[positions_mask]
    else:
        amplitudes = amplitudes.reshape((-1, *self.roi_shape))
        centered_amplitudes = centered_amplitudes.reshape((-1, *self.roi_shape))
        intensities = intensities.reshape((-1, *self.roi_shape))
        centered_intensities = centered_intensities.reshape((-1, *self.roi_shape))

    if crop_patterns:
        amplitudes = amplitudes[:, pattern_crop_mask].reshape((-1, *pattern_crop_mask_shape))
        centered_amplitudes = centered_amplitudes[:, pattern_crop_mask].reshape(
            (-1, *pattern_crop_mask_shape)
        )
        intensities = intensities[:, pattern_crop_mask].reshape((-1, *pattern_crop_mask_shape))
        centered_intensities = centered_intensities[:, pattern_crop_mask].reshape(
            (-1, *pattern_crop_mask_shape)
        )

    mean_intensity /= amplitudes.shape[0]
    mean_amplitude /= amplitudes.shape[0]

    self.centered_amplitudes = centered_amplitudes
    self.amplitudes = amplitudes
    self.centered_intensities = centered_intensities
    self.intensities = intensities
    descan_shifts = -1 * np.stack((com_fit[0].flatten(), com_fit[1].flatten()))
    descan_shifts = -1 * com_fit.reshape((2, -1))  # (2, rr*rc)
    descan_shifts += self.roi_shape[:, None] / 2
    self.descan_shifts = descan_shifts.T
    self.initial_descan_shifts = self.descan_shifts.data.clone()

    self.mean_diffraction_intensity = mean_intensity
    self.mean_diffraction_amplitude = mean_amplitude
    self._pattern_crop_mask = pattern_crop_mask
    self._pattern_crop_mask_shape = pattern_crop_mask_shape
    return


STATE = (
    "_centered_amplitudes",
    "_amplitudes",
    "_centered_intensities",
    "_intensities",
    "_descan_shifts",
    "_initial_descan_shifts",
    "_mean_diffraction_intensity",
    "mean_diffraction_amplitude",
    "_pattern_crop_mask",
    "_pattern_crop_mask_shape",
)


def snapshot(dset):
    out = {}
    for name in STATE:
        v = getattr(dset, name, "<unset>")
        if isinstance(v, torch.Tensor):
            v = ("tensor", v.dtype, tuple(v.shape), v.detach().clone().numpy().tobytes())
        elif isinstance(v, np.ndarray):
            v = ("ndarray", v.dtype, v.shape, v.tobytes())
        elif isinstance(v, (np.generic, float, int)):
            v = (type(v).__name__, np.asarray(v).dtype, np.asarray(v).tobytes())
        elif isinstance(v, tuple):
            v = ("tuple", tuple((type(x).__name__, int(x)) for x in v))
        out[name] = v
    return out


def scrub(dset):
    """overwrite everything the function writes, so that stale values cannot mask a difference"""
    n, (R, C) = dset.num_gpts, dset.roi_shape
    for name in ("centered_amplitudes", "amplitudes", "centered_intensities", "intensities"):
        setattr(dset, name, np.full((n, R, C), 7.0, dtype=np.float32))
    dset.descan_shifts = np.full((n, 2), -3.0, dtype=np.float32)
    dset.initial_descan_shifts = np.full((n, 2), -4.0, dtype=np.float32)
    dset.mean_diffraction_intensity = 123.0
    dset.mean_diffraction_amplitude = 45.0
    dset._pattern_crop_mask = "stale"
    dset._pattern_crop_mask_shape = "stale"


def run_one(dset, fn, **kw):
    scrub(dset)
    try:
        fn(**kw)
        err = None
    except Exception as e:  # noqa: BLE001
        err = (type(e), str(e))
    return err, snapshot(dset)


def make_dataset(gpts, roi, data, step=(1.3, 0.8), dk=(0.06, 0.05)):
    d4 = Dataset4dstem.from_array(
        array=data,
        sampling=(step[0], step[1], dk[0], dk[1]),
        units=("A", "A", "A^-1", "A^-1"),
    )
    return PtychographyDatasetRaster.from_dataset4dstem(d4, verbose=0)


def check_old_vs_new_normalisation(seed=0):
    rng = np.random.default_rng(seed)
    n_ok, n_raise = 0, 0
    configs = [((3, 4), (8, 8)), ((1, 5), (6, 10)), ((4, 1), (7, 9)), ((2, 2), (12, 8)),
               ((1, 1), (5, 5))]
    for gpts, roi in configs:
        R, C = roi
        data = rng.gamma(0.7, 3.0, size=(*gpts, R, C)).astype(np.float32)
        data -= 0.4  # some negative counts -> clipped
        data[0, 0, :2] = 0.0
        dset = make_dataset(gpts, roi, data)
        origins = {
            "centre": np.stack([np.full(gpts, R / 2), np.full(gpts, C / 2)]),
            "constant-fractional": np.stack([np.full(gpts, R / 2 - 0.37), np.full(gpts, 2.81)]),
            "per-position": np.stack(
                [rng.uniform(1, R - 1, size=gpts), rng.uniform(-2, C + 2, size=gpts)]
            ),
            "integer": np.stack(
                [
                    rng.integers(0, R, size=gpts).astype(float),
                    rng.integers(0, C, size=gpts).astype(float),
                ]
            ),
        }
        some = rng.random(gpts) > 0.4
        some[0, 0] = True
        masks = {
            "none": None,
            "all": np.ones(gpts, dtype=bool),
            "some": some,
            "nothing": np.zeros(gpts, dtype=bool),
        }
        for oname, com in origins.items():
            dset.com_fit = (com[0], com[1])
            for bilinear in (False, True):
                for mname, pmask in masks.items():
                    for crop in (False, True):
                        kw = dict(positions_mask=pmask, crop_patterns=crop, bilinear=bilinear)
                        e_new, s_new = run_one(
                            dset, dset._normalize_diffraction_intensities, **kw
                        )
                        e_old, s_old = run_one(
                            dset,
                            lambda **k: orig_normalize_diffraction_intensities(dset, **k),
                            **kw,
                        )
                        assert e_new == e_old, (gpts, roi, oname, mname, crop, e_new, e_old)
                        assert s_new == s_old, (gpts, roi, oname, mname, crop, bilinear)
                        if e_new is None:
                            n_ok += 1
                        else:
                            n_raise += 1
            # repeated calls are idempotent and identical to the original
            e1, s1 = run_one(dset, dset._normalize_diffraction_intensities)
            e2, s2 = run_one(dset, dset._normalize_diffraction_intensities)
            e3, s3 = run_one(dset, lambda: orig_normalize_diffraction_intensities(dset))
            assert e1 is e2 is e3 is None and s1 == s2 == s3
    assert n_ok > 50 and n_raise > 50, (n_ok, n_raise)
    return n_ok, n_raise


CASES = [
    dict(),
    dict(n_slices=3, n_modes=2, obj_type="potential", pad=(4, 6)),
    dict(n_slices=2, n_modes=3, obj_type="pure_phase", pad=(3, 3), roi=(16, 12), gpts=(3, 6)),
    dict(
        n_slices=4,
        n_modes=3,
        obj_type="potential",
        gpts=(2, 7),
        roi=(10, 20),
        pad=(5, 9),
        step=(2.9, 1.1),
        thick=[2.0, 7.5, 0.5],
    ),
    dict(n_modes=2, obj_type="pure_phase", gpts=(6, 3), roi=(8, 8), pad=(8, 8), step=(0.9, 3.3)),
    dict(n_slices=2, obj_type="complex", gpts=(1, 5), roi=(14, 10), pad=(2, 2), seed=5),
]

if __name__ == "__main__":
    torch.set_num_threads(1)
    torch.manual_seed(0)
    for k, kw in enumerate(CASES):
        pt = build_ground_truth_case(**kw)
        gt = check_property(pt)
        # mechanism: centred amplitudes == sqrt(measured), mean intensity == mean pattern sum
        d = pt.dset
        meas = np.maximum(d.intensities_4d.reshape(d.num_gpts, *d.roi_shape), 0)
        assert np.allclose(d.centered_amplitudes.numpy(), np.sqrt(meas), atol=2e-5 * np.sqrt(meas.max()))
        assert np.allclose(d.amplitudes.numpy(), np.sqrt(meas), atol=1e-6 * np.sqrt(meas.max()))
        assert np.isclose(d.mean_diffraction_intensity, meas.sum((-2, -1)).mean(), rtol=1e-5)
        assert np.allclose(d.descan_shifts.detach().numpy(), 0.0)
        # a second preprocessing pass over the same data leaves the targets unchanged
        before = snapshot(d)
        d._set_targets("l2_amplitude")
        tgt = d.targets.clone()
        d._normalize_diffraction_intensities()
        d._set_targets("l2_amplitude")
        assert snapshot(d) == before and torch.equal(tgt, d.targets)
        e_old, s_old = run_one(d, lambda: orig_normalize_diffraction_intensities(d))
        assert e_old is None and s_old == before
        assert losses(pt) == gt
        print(f"case {k}: {kw} obj={tuple(int(x) for x in pt.obj_shape_full)} "
              f"gt-loss={max(gt.values()):.2e} ok")
    n_ok, n_raise = check_old_vs_new_normalisation()
    print(f"PASS (old-vs-new identical: {n_ok} successful calls, {n_raise} rejected calls)")
