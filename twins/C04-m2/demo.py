"""Shared demo for the C04 behaviour-preserving edits.

Embeds a VERBATIM copy of the original (pre-edit) methods of DirectPtychography
(_preprocess, _return_bf_context, _return_kernel_contributions,
_normalize_kernel_name, reconstruct; only the long reconstruct docstring was
dropped) in a subclass, and asserts that the installed methods give bit-for-bit
identical results over kernels x aliases x upsampling x batch sizes x sub-masks x
aberrations x rotation x filters.  It additionally asserts the C04 property
itself (batch invariance, linearity, sub-mask recombination, analytic parallax
limit) on the installed code.

Run:  PYTHONPATH=<root>/src /venv/bin/python demo.py
"""

import gc
import math
import tempfile

import numpy as np
import torch
from tqdm.auto import tqdm

from quantem.core.datastructures import Dataset2d, Dataset3d
from quantem.diffractive_imaging.complex_probe import (
    aberration_surface,
    aberration_surface_cartesian_gradients,
    evaluate_probe,
    gamma_factor,
    polar_coordinates,
    spatial_frequencies,
)
from quantem.diffractive_imaging.direct_ptychography import (
    BrightFieldContext,
    DirectPtychography,
)
from quantem.diffractive_imaging.ptycho_utils import SimpleBatcher

torch.manual_seed(0)
torch.set_num_threads(1)


class OrigDirectPtychography(DirectPtychography):
    """Verbatim copies of the ORIGINAL methods (worktree HEAD)."""

    def _preprocess(
        self,
    ):
        """ """

        self._vbf_fourier = torch.fft.fft2(self.vbf_stack, dim=(-2, -1))
        self._dc_per_image = self._vbf_fourier[..., 0, 0].mean(0)
        self._vbf_fourier[..., 0, 0] = 0  # zero DC
        self._corrected_stack = None
        self._q_signal_power = self._vbf_fourier.abs().square().sum(dim=0)  # (N_qx, N_qy)

        return self

    def _return_bf_context(self, bf_mask):
        """
        Given a BF mask, compute all BF-dependent geometry and indexing.
        """
        bf_mask = torch.as_tensor(bf_mask, dtype=torch.bool, device=self.device)

        bf_inds_i, bf_inds_j = torch.nonzero(bf_mask, as_tuple=True)
        vbf_index_mapping = torch.where(bf_mask[self.bf_mask])[0]
        num_bf = bf_inds_i.numel()

        return BrightFieldContext(
            bf_mask=bf_mask,
            bf_inds_i=bf_inds_i,
            bf_inds_j=bf_inds_j,
            num_bf=num_bf,
            vbf_index_mapping=vbf_index_mapping,
        )

    def _return_kernel_contributions(
        self,
        bf,
        deconvolution_kernel,
        vbf_fourier,
        kxa,
        kya,
        qxa,
        qya,
        cmplx_probe_k,
        grad_k,
        sign_sin_chi_q,
        aberration_coefs,
        batch_idx,
    ):
        """ """
        ind_i = bf.bf_inds_i[batch_idx]
        ind_j = bf.bf_inds_j[batch_idx]

        kx = kxa[ind_i, ind_j].view(-1, 1, 1)
        ky = kya[ind_i, ind_j].view(-1, 1, 1)

        power = None

        if deconvolution_kernel in ("ssb", "obf", "mf"):
            qmkxa = qxa.unsqueeze(0) - kx
            qmkya = qya.unsqueeze(0) - ky
            qpkxa = qxa.unsqueeze(0) + kx
            qpkya = qya.unsqueeze(0) + ky

            cmplx_probe_at_k = cmplx_probe_k[ind_i, ind_j].view(-1, 1, 1)

            gamma = gamma_factor(
                (qmkxa, qmkya),
                (qpkxa, qpkya),
                cmplx_probe_at_k,
                self.wavelength,
                self.semiangle_cutoff,
                self.soft_edges,
                angular_sampling=self.angular_sampling,
                aberration_coefs=aberration_coefs,
                normalize=False,
            )

            fourier_factor = -1.0j * vbf_fourier * gamma.conj()
            abs_gamma = gamma.abs()

            if deconvolution_kernel == "ssb":
                fourier_factor = fourier_factor / abs_gamma.clip(1e-8)
            else:
                power = abs_gamma.square().sum(0)

        elif deconvolution_kernel == "prlx":
            qvec = torch.stack((qxa, qya), 0)
            grad_kq = torch.einsum("na,amp->nmp", grad_k[batch_idx], qvec)
            operator = torch.exp(-1j * grad_kq) * sign_sin_chi_q
            fourier_factor = vbf_fourier * operator

        else:
            q2 = qxa.square() + qya.square()
            qx_op = -1.0j * qxa / q2
            qy_op = -1.0j * qya / q2
            qx_op[0, 0] = 0.0
            qy_op[0, 0] = 0.0

            operator = kx * qx_op + ky * qy_op
            fourier_factor = vbf_fourier * operator

        return fourier_factor, power

    def _normalize_kernel_name(self, kernel):
        kernel = kernel.lower()

        aliases = {
            "ssb": "ssb",
            "single-sideband": "ssb",
            "acbf": "ssb",
            "aberration-corrected-bright-field": "ssb",
            "obf": "obf",
            "optimum-bright-field": "obf",
            "mf": "mf",
            "matched-filter": "mf",
            "prlx": "prlx",
            "parallax": "prlx",
            "tcbf": "prlx",
            "tilt-corrected-bright-field": "prlx",
            "icom": "icom",
            "center-of-mass": "icom",
        }

        if kernel not in aliases:
            raise ValueError(f"Unknown deconvolution kernel '{kernel}'")

        return aliases[kernel]

    def reconstruct(
        self,
        bf_mask=None,
        override_aberration_coefs=None,
        upsampling_factor=None,
        override_rotation_angle=None,
        max_batch_size=None,
        deconvolution_kernel="single-sideband",
        q_highpass=None,
        q_lowpass=None,
        butterworth_order=12,
        matched_filter_norm_epsilon=1e-1,
        parallax_flip_phase=True,
        verbose=None,
        use_initial_state=False,
    ):
        """ """

        state = self.hyperparameter_state

        if verbose is None:
            verbose = self.verbose

        if use_initial_state:
            if verbose:
                print("Reconstructing with:\n\n", state.summarize(which="initial"))
            aberration_coefs = state.initial_aberrations
            rotation_angle = state.initial_rotation_angle
        else:
            if verbose:
                print(
                    "Reconstructing with:\n\n",
                    state.summarize(
                        which="current",
                        override_aberration_coefs=override_aberration_coefs,
                        override_rotation_angle=override_rotation_angle,
                    ),
                )
            aberration_coefs = state.current_aberrations(override_aberration_coefs)
            rotation_angle = state.current_rotation_angle(override_rotation_angle)

        if upsampling_factor is None:
            upsampling_factor = 1
        upsampling_factor = math.ceil(upsampling_factor)

        if bf_mask is None:
            bf_mask = self.bf_mask
        bf = self._return_bf_context(bf_mask)

        num_bf = bf.num_bf
        bf_mask = bf.bf_mask
        vbf_index_mapping = bf.vbf_index_mapping

        if max_batch_size is None:
            max_batch_size = num_bf

        deconvolution_kernel = self._normalize_kernel_name(deconvolution_kernel)

        # Get upsampled q-space grid
        qxa, qya = self._return_upsampled_qgrid(upsampling_factor)
        q, theta = polar_coordinates(qxa, qya)

        # Get k-space grid
        kxa, kya = spatial_frequencies(
            self.gpts, self.sampling, rotation_angle=rotation_angle, device=self.device
        )
        k, phi = polar_coordinates(kxa, kya)

        # compute global / cheap functions for prlx
        if deconvolution_kernel == "prlx":
            dx, dy = aberration_surface_cartesian_gradients(
                k * self.wavelength,
                phi,
                aberration_coefs=aberration_coefs,
            )
            grad_k = torch.stack((dx[bf_mask], dy[bf_mask]), -1)

            if parallax_flip_phase:
                chi_q = aberration_surface(
                    q * self.wavelength,
                    theta,
                    self.wavelength,
                    aberration_coefs=aberration_coefs,
                )
                sign_sin_chi_q = torch.sign(torch.sin(chi_q))
            else:
                sign_sin_chi_q = torch.ones_like(q)
        else:
            grad_k = None
            sign_sin_chi_q = None

        # compute global / cheap functions for all
        cmplx_probe_k = evaluate_probe(
            k * self.wavelength,
            phi,
            self.semiangle_cutoff,
            self.angular_sampling,
            self.wavelength,
            aberration_coefs=aberration_coefs,
        )
        BF_weights = cmplx_probe_k[bf_mask].abs().square().sum()

        butterworth_env = torch.ones_like(q)
        if q_lowpass:
            butterworth_env *= 1 / (1 + (q / q_lowpass) ** (2 * butterworth_order))
        if q_highpass:
            butterworth_env *= 1 - 1 / (1 + (q / q_highpass) ** (2 * butterworth_order))

        # Process batches
        pbar = tqdm(range(num_bf), disable=not verbose)
        batcher = SimpleBatcher(num_bf, batch_size=max_batch_size, shuffle=False, rng=self.rng)

        fourier_factor = torch.empty(
            (num_bf,) + qxa.shape, device=self.device, dtype=torch.complex64
        )
        if deconvolution_kernel in ("obf", "mf"):
            power = torch.zeros(qxa.shape, device=self.device)
        else:
            power = None

        # first pass
        for batch_idx in batcher:
            mapped_idx = vbf_index_mapping[batch_idx]
            vbf_fourier = self._vbf_fourier[mapped_idx]

            # Fourier-space tiling
            vbf_fourier = torch.cat(
                [torch.cat([vbf_fourier] * upsampling_factor, dim=-1)] * upsampling_factor,
                dim=-2,
            )

            num, pow = self._return_kernel_contributions(
                bf,
                deconvolution_kernel,
                vbf_fourier,
                kxa,
                kya,
                qxa,
                qya,
                cmplx_probe_k,
                grad_k,
                sign_sin_chi_q,
                aberration_coefs,
                batch_idx,
            )
            if power is None:
                num *= butterworth_env
                # num[:, 0, 0] = self._dc_per_image

                fourier_factor[batch_idx] = torch.fft.ifft2(num)
            else:
                fourier_factor[batch_idx] = num
                power += pow

            pbar.update(len(batch_idx))
        pbar.close()

        if power is not None:
            power /= BF_weights

            if deconvolution_kernel == "obf":
                norm = power.sqrt().clamp_min(1e-8)
            elif deconvolution_kernel == "mf":
                norm = (power + matched_filter_norm_epsilon * power.max()).clamp_min(1e-8)

            # second pass
            for batch_idx in batcher:
                ff = fourier_factor[batch_idx]

                if power is not None:
                    ff /= norm

                ff *= butterworth_env
                # ff[:, 0, 0] = self._dc_per_image

                fourier_factor[batch_idx] = torch.fft.ifft2(ff)

        self.corrected_stack = fourier_factor.real / BF_weights

        # memory management
        gc.collect()
        torch.cuda.empty_cache()
        if hasattr(torch, "mps") and torch.backends.mps.is_available():
            torch.mps.empty_cache()
        gc.collect()

        return self


# --------------------------------------------------------------------------- #
# harness
# --------------------------------------------------------------------------- #
from quantem.core.utils.utils import electron_wavelength_angstrom  # noqa: E402

ENERGY = 80e3
SEMIANGLE = 20.0
WAVELENGTH = electron_wavelength_angstrom(ENERGY)


def bits(t):
    """Bit pattern of a float32/complex64/bool/int tensor (NaN-safe comparison)."""
    t = t.detach().contiguous()
    if t.is_complex():
        t = torch.view_as_real(t).contiguous()
    if t.dtype == torch.float32:
        return t.view(torch.int32)
    if t.dtype == torch.float64:
        return t.view(torch.int64)
    return t


def assert_same(a, b, what):
    if a is None or b is None:
        assert a is None and b is None, what
        return
    assert a.dtype == b.dtype, (what, a.dtype, b.dtype)
    assert a.shape == b.shape, (what, a.shape, b.shape)
    assert a.stride() == b.stride(), (what, a.stride(), b.stride())
    assert torch.equal(bits(a), bits(b)), f"bitwise mismatch: {what}"


def make_inputs(det_n, recip, scan_shape, seed):
    g = torch.Generator().manual_seed(seed)
    fx = torch.fft.fftfreq(det_n[0], 1.0 / (det_n[0] * recip[0]))
    fy = torch.fft.fftfreq(det_n[1], 1.0 / (det_n[1] * recip[1]))
    kcut = SEMIANGLE * 1e-3 / WAVELENGTH
    mask = (fx[:, None] ** 2 + fy[None, :] ** 2) <= kcut**2
    num_bf = int(mask.sum())
    stack = 1.0 + 0.2 * torch.randn((num_bf,) + tuple(scan_shape), generator=g)
    return stack.float().numpy(), mask.numpy()


def build(cls, stack, mask, recip, scan_sampling, rot, abers, crop, soft):
    vbf = Dataset3d.from_array(
        np.array(stack, copy=True),
        name="vbf",
        units=("index", "A", "A"),
        sampling=(1,) + tuple(scan_sampling),
    )
    m = Dataset2d.from_array(
        np.array(mask, copy=True), name="mask", units=("A^-1", "A^-1"), sampling=tuple(recip)
    )
    return cls.from_virtual_bfs(
        vbf,
        m,
        energy=ENERGY,
        rotation_angle=rot,
        aberration_coefs=dict(abers),
        semiangle_cutoff=SEMIANGLE,
        soft_edges=soft,
        crop_bf_mask=crop,
        rng=0,
        device="cpu",
        verbose=False,
    )


KERNELS = [
    "ssb",
    "single-sideband",
    "ACBF",
    "obf",
    "Optimum-Bright-Field",
    "mf",
    "matched-filter",
    "prlx",
    "parallax",
    "tcBF",
    "icom",
    "center-of-mass",
]
CANON = ["ssb", "obf", "mf", "prlx", "icom"]

CONFIGS = [
    # det_n, recip, scan_shape, scan_sampling, rot, aberrations, crop, soft
    ((10, 10), (0.2, 0.2), (9, 12), (0.4, 0.4), 0.0, {}, True, True),
    ((12, 10), (0.18, 0.2), (8, 7), (0.5, 0.45), 0.3, {"C10": 150.0}, False, True),
    ((10, 12), (0.2, 0.17), (11, 6), (0.35, 0.5), -1.1,
     {"defocus": -200.0, "C12": 40.0, "phi12": 0.4}, True, False),
    ((9, 9), (0.22, 0.22), (5, 5), (0.6, 0.6), 2.0,
     {"C10": -80.0, "C21": 500.0, "phi21": 0.2, "C30": 1e4}, True, True),
]


def sub_masks(full_mask, seed):
    """Two complementary sub-masks of the (possibly cropped) construction mask."""
    g = torch.Generator().manual_seed(seed)
    pick = torch.rand(full_mask.shape, generator=g) < 0.5
    a = full_mask & pick
    b = full_mask & ~pick
    return a, b


def compare_old_new():
    n_cmp = 0
    for ci, (det_n, recip, scan_shape, scan_sampling, rot, abers, crop, soft) in enumerate(
        CONFIGS
    ):
        stack, mask = make_inputs(det_n, recip, scan_shape, seed=10 + ci)
        new = build(DirectPtychography, stack, mask, recip, scan_sampling, rot, abers, crop, soft)
        old = build(
            OrigDirectPtychography, stack, mask, recip, scan_sampling, rot, abers, crop, soft
        )

        # _preprocess state
        for name in ("_vbf_fourier", "_dc_per_image", "_q_signal_power"):
            assert_same(getattr(new, name), getattr(old, name), f"cfg{ci} {name}")
        assert new._corrected_stack is None and old._corrected_stack is None

        # _normalize_kernel_name
        for kname in KERNELS:
            assert new._normalize_kernel_name(kname) == old._normalize_kernel_name(kname)
        for bad in ("nope", ""):
            msgs = []
            for obj in (new, old):
                try:
                    obj._normalize_kernel_name(bad)
                except ValueError as e:
                    msgs.append(str(e))
            assert len(msgs) == 2 and msgs[0] == msgs[1], msgs

        # _return_bf_context
        sm_a, sm_b = sub_masks(new.bf_mask, seed=100 + ci)
        for msk in (new.bf_mask, sm_a, sm_b, sm_a.numpy(), torch.zeros_like(sm_a)):
            cn, co = new._return_bf_context(msk), old._return_bf_context(msk)
            assert type(cn) is type(co) is BrightFieldContext
            assert type(cn.num_bf) is type(co.num_bf) is int and cn.num_bf == co.num_bf
            for f in ("bf_mask", "bf_inds_i", "bf_inds_j", "vbf_index_mapping"):
                assert_same(getattr(cn, f), getattr(co, f), f"cfg{ci} ctx.{f}")

        # _return_kernel_contributions, called directly
        qxa, qya = new._return_upsampled_qgrid(2)
        kxa, kya = spatial_frequencies(new.gpts, new.sampling, rotation_angle=rot, device="cpu")
        k, phi = polar_coordinates(kxa, kya)
        q, theta = polar_coordinates(qxa, qya)
        ab = new.hyperparameter_state.current_aberrations()
        probe_k = evaluate_probe(
            k * WAVELENGTH, phi, SEMIANGLE, new.angular_sampling, WAVELENGTH, aberration_coefs=ab
        )
        dx, dy = aberration_surface_cartesian_gradients(k * WAVELENGTH, phi, aberration_coefs=ab)
        ctx = new._return_bf_context(new.bf_mask)
        grad_k = torch.stack((dx[ctx.bf_mask], dy[ctx.bf_mask]), -1)
        sgn = torch.sign(torch.sin(aberration_surface(q * WAVELENGTH, theta, WAVELENGTH, ab)))
        for batch_idx in (np.arange(ctx.num_bf), np.arange(1, min(4, ctx.num_bf)), np.array([0])):
            vf = new._vbf_fourier[ctx.vbf_index_mapping[batch_idx]]
            vf = torch.cat([torch.cat([vf] * 2, dim=-1)] * 2, dim=-2)
            for kern in CANON:
                args = (ctx, kern, vf, kxa, kya, qxa, qya, probe_k, grad_k, sgn, ab, batch_idx)
                fn, pn = new._return_kernel_contributions(*args)
                fo, po = old._return_kernel_contributions(*args)
                assert_same(fn, fo, f"cfg{ci} {kern} fourier_factor")
                assert_same(pn, po, f"cfg{ci} {kern} power")
                n_cmp += 1

        # reconstruct, full sweep
        num_bf = new.num_bf
        batch_sizes = sorted({None, 1, 2, 3, num_bf // 2, num_bf - 1, num_bf} - {0}, key=str)
        filters = [
            {},
            {"q_lowpass": 0.8, "q_highpass": 0.15},
            {"q_lowpass": 0.6, "butterworth_order": 3},
            {"q_highpass": 0.2, "butterworth_order": 2.5},
        ]
        # every alias spelling on the first configuration, canonical names on the others
        for kern in KERNELS if ci == 0 else CANON:
            for up in (None, 1, 2, 3):
                for bs in batch_sizes:
                    flt = filters[n_cmp % len(filters)]
                    kw = dict(
                        deconvolution_kernel=kern,
                        upsampling_factor=up,
                        max_batch_size=bs,
                        verbose=False,
                        **flt,
                    )
                    variants = [kw]
                    if bs in (None, 3):
                        variants.append(dict(kw, bf_mask=sm_a))
                        variants.append(dict(kw, bf_mask=sm_b, parallax_flip_phase=False))
                        variants.append(
                            dict(
                                kw,
                                override_aberration_coefs={"C10": 60.0, "C12": 15.0},
                                override_rotation_angle=0.7,
                                matched_filter_norm_epsilon=0.03,
                            )
                        )
                        variants.append(dict(kw, use_initial_state=True))
                    for v in variants:
                        rn = new.reconstruct(**v)
                        ro = old.reconstruct(**v)
                        assert rn is new and ro is old
                        assert_same(
                            new.corrected_stack, old.corrected_stack, f"cfg{ci} {v} corrected_stack"
                        )
                        assert_same(new.corrected_bf, old.corrected_bf, f"cfg{ci} {v} corrected_bf")
                        assert torch.isfinite(new.corrected_stack).all()
                        n_cmp += 1

        # verbose printing path is the same too (stdout only; just must not raise / differ)
        new.reconstruct(deconvolution_kernel="ssb", verbose=False)
        old.reconstruct(deconvolution_kernel="ssb", verbose=False)
        assert_same(new.corrected_stack, old.corrected_stack, "final")
    return n_cmp


def check_property():
    """C04 itself, on the installed code."""
    det_n, recip, scan_shape, scan_sampling = (10, 10), (0.2, 0.2), (9, 12), (0.4, 0.4)
    stack, mask = make_inputs(det_n, recip, scan_shape, seed=7)
    stack2, _ = make_inputs(det_n, recip, scan_shape, seed=8)
    abers = {"C10": 120.0, "C12": 30.0, "phi12": 0.3}
    rot = 0.25
    mk = lambda s, ab=abers: build(  # noqa: E731
        DirectPtychography, s, mask, recip, scan_sampling, rot, ab, True, True
    )
    A, B, AB = mk(stack), mk(stack2), mk(2.0 * stack - 0.5 * stack2)
    num_bf = A.num_bf
    sm_a, sm_b = sub_masks(A.bf_mask, seed=3)

    for kern in CANON:
        for up in (1, 2, 3):
            kw = dict(deconvolution_kernel=kern, upsampling_factor=up, verbose=False)
            ref = A.reconstruct(**kw).corrected_stack.clone()
            scale = ref.abs().max().item() + 1e-12
            # batch invariance
            for bs in range(1, num_bf + 1):
                got = A.reconstruct(max_batch_size=bs, **kw).corrected_stack
                assert (got - ref).abs().max().item() <= 2e-4 * scale, (kern, up, bs)
            # linearity in the stack (the constant offset only changes the zeroed DC)
            rb = B.reconstruct(**kw).corrected_stack.clone()
            rab = AB.reconstruct(**kw).corrected_stack
            lin = 2.0 * ref - 0.5 * rb
            assert (rab - lin).abs().max().item() <= 5e-4 * (lin.abs().max().item() + 1e-12), (
                kern,
                up,
            )
            # complementary sub-masks recombine for single-pass kernels
            if kern in ("ssb", "prlx", "icom"):
                k_, phi_ = polar_coordinates(
                    *spatial_frequencies(A.gpts, A.sampling, rotation_angle=rot)
                )
                pk = evaluate_probe(
                    k_ * WAVELENGTH,
                    phi_,
                    SEMIANGLE,
                    A.angular_sampling,
                    WAVELENGTH,
                    aberration_coefs=A.aberration_coefs,
                )
                w = lambda m: pk[m].abs().square().sum()  # noqa: E731
                fa = A.reconstruct(bf_mask=sm_a, **kw).corrected_bf.clone()
                fb = A.reconstruct(bf_mask=sm_b, **kw).corrected_bf.clone()
                full = ref.sum(0)
                rec = (w(sm_a) * fa + w(sm_b) * fb) / w(A.bf_mask)
                assert (rec - full).abs().max().item() <= 5e-4 * (
                    full.abs().max().item() + 1e-12
                ), (kern, up)

    # analytic: zero-aberration parallax without flipping == sum of mean-subtracted images / weight
    Z = mk(stack, {})
    Z.reconstruct(deconvolution_kernel="parallax", parallax_flip_phase=False, verbose=False)
    k_, phi_ = polar_coordinates(*spatial_frequencies(Z.gpts, Z.sampling, rotation_angle=rot))
    pk = evaluate_probe(k_ * WAVELENGTH, phi_, SEMIANGLE, Z.angular_sampling, WAVELENGTH)
    weight = pk[Z.bf_mask].abs().square().sum()
    s = torch.as_tensor(stack)
    expect = (s - s.mean(dim=(-2, -1), keepdim=True)).sum(0) / weight
    assert (Z.corrected_bf - expect).abs().max().item() <= 1e-4 * expect.abs().max().item()


if __name__ == "__main__":
    # reconstruct() calls gc.collect() twice per call; freezing the (large) set of
    # import-time objects keeps those collections cheap without touching the code under test.
    gc.collect()
    gc.freeze()
    with tempfile.TemporaryDirectory():
        n = compare_old_new()
        check_property()
    print(f"OK: {n} bit-for-bit old/new comparisons, property checks passed")
