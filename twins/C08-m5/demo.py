"""C08 demo: failed saves leave no loadable partial object; write-once never overwrites.

Two things are checked, on the tree this script is run against:

1. old == new: a VERBATIM copy of the ORIGINAL ``AutoSerialize.save`` and
   ``AutoSerialize._recursive_save`` (embedded below) is run side by side with the
   functions found in ``quantem.core.io.serialize`` over a spread of object graphs,
   stores, modes, pre-existing targets and injected faults (an exception raised at the
   k-th value/array/byte write or zip-assembly step).  For every scenario the exception
   (type and message), everything printed, the exact sequence of write operations, the
   complete filesystem state of the sandbox (every file, byte for byte; zip archives
   member by member) and the result of ``load(target)`` must be identical.

2. the property itself: after a failing save the target is absent, unreadable, or loads
   to a complete object; in mode 'w' an existing target is left bit-identical; nothing
   but the target is ever altered; no staging directory is left behind.

Usage: PYTHONPATH=<root>/src /venv/bin/python demo.py
"""

import contextlib
import gzip
import hashlib
import io
import os
import shutil
import sys
import tempfile
import warnings
from pathlib import Path
from types import SimpleNamespace
from typing import AbstractSet, Any, Literal, Sequence, Union, cast
from zipfile import ZipFile

import dill
import numpy as np
import torch
import zarr
from zarr.core.attributes import Attributes
from zarr.storage import LocalStore

import quantem.core.io.serialize as ser
from quantem.core.io.serialize import AutoSerialize, load

warnings.simplefilter("ignore")

# gzip.compress stamps the current time into its header: pin it so that the bytes written
# by two runs of the same scenario are comparable
_gzip_compress = gzip.compress


def _pinned_gzip_compress(data, *args, **kwargs):
    kwargs["mtime"] = 1
    return _gzip_compress(data, *args, **kwargs)


gzip.compress = _pinned_gzip_compress


# --------------------------------------------------------------------------------------
# VERBATIM copies of the ORIGINAL functions (worktree HEAD), dedented by one level
# --------------------------------------------------------------------------------------
def save(
    self,
    path: str | Path,
    mode: Literal["w", "o"] = "w",
    store: Literal["auto", "zip", "dir"] = "auto",
    skip: Union[str, type, Sequence[Union[str, type]]] = (),
    compression_level: int | None = 4,
) -> None:
    """
    Save the current object to disk using Zarr serialization.

    Parameters
    ----------
    path : str or Path
        Target file path. Use '.zip' extension for zip format, otherwise a directory.
    mode : {'w', 'o'}
        'w' = write only if file doesn't exist, 'o' = overwrite if it does.
    store : {'auto', 'zip', 'dir'}
        Storage format. 'auto' infers from file extension.
    skip : str, type, or list of (str or type)
        Attribute names/types to skip (by name or type) during serialization.
    compression_level : int or None
        If set (0–9), applies Zstandard compression with Blosc backend at that level.
        Level 0 disables compression. Raises ValueError if > 9.

    Notes
    -----
    Skipped attribute names and types are also stored in the file metadata for correct
    round-trip skipping during load().
    """
    # Validate compression level
    if compression_level is not None:
        if not (0 <= compression_level <= 9):
            raise ValueError(
                f"compression_level must be between 0 and 9, got {compression_level}"
            )
        compressors = [
            {
                "name": "blosc",
                "configuration": {
                    "cname": "zstd",
                    "clevel": int(compression_level),
                    "shuffle": "bitshuffle",
                },
            }
        ]
    else:
        compressors = None

    path = str(path)
    # Auto-infer storage format if needed
    if store == "auto":
        store = "zip" if path.endswith(".zip") else "dir"

    # Ensure .zip extension if requested
    if store == "zip" and not path.endswith(".zip"):
        print(f"Warning: appending .zip to path '{path}'")
        path += ".zip"

    # Handle overwrite vs. write protection
    if os.path.exists(path):
        if mode == "o":
            if os.path.isdir(path):
                shutil.rmtree(path)
            else:
                os.remove(path)
        else:
            raise FileExistsError(f"File '{path}' already exists. Use mode='o' to overwrite.")

    # Normalize skip argument (split to names and types)
    if isinstance(skip, (str, type)):
        skip = [skip]
    skip_names = {s for s in skip if isinstance(s, str)}
    skip_types = tuple(s for s in skip if isinstance(s, type))

    def write_skip_metadata(root):
        # Store skip info as attributes for correct deserialization
        root.attrs["_autoserialize_skip_names"] = list(skip_names)
        root.attrs["_autoserialize_skip_types"] = [
            f"{t.__module__}.{t.__qualname__}" for t in skip_types
        ]

    # Main branch: choose between zip and directory storage
    if store == "zip":
        # Always use tempdir for safe atomic write
        with tempfile.TemporaryDirectory() as tmpdir:
            store_obj = LocalStore(tmpdir)
            root = zarr.group(store=store_obj, overwrite=True)
            self._recursive_save(self, root, skip_names, skip_types, compressors)
            write_skip_metadata(root)
            # Zip up all files in tempdir
            try:
                with ZipFile(path, mode="w") as zf:
                    for dirpath, _, filenames in os.walk(tmpdir):
                        for filename in filenames:
                            full_path = os.path.join(dirpath, filename)
                            rel_path = os.path.relpath(full_path, tmpdir)
                            zf.write(full_path, arcname=rel_path)
            except BaseException:
                # Never leave a partial (but readable) archive behind
                if os.path.exists(path):
                    os.remove(path)
                raise
    elif store == "dir":
        # Directory mode requires no extension
        if os.path.splitext(path)[1]:
            raise ValueError(
                f"Expected a directory path for store='dir', but got file-like path '{path}'"
            )
        try:
            os.makedirs(path, exist_ok=True)
            store_obj = LocalStore(path)
            root = zarr.group(store=store_obj, overwrite=True)
            self._recursive_save(self, root, skip_names, skip_types, compressors)
            write_skip_metadata(root)
        except BaseException:
            # The target did not exist (or was removed above): never leave a partial,
            # but loadable, object behind when serialisation fails part-way
            shutil.rmtree(path, ignore_errors=True)
            raise
    else:
        raise ValueError(f"Unknown store type: {store}")


def _recursive_save(
    self,
    obj,
    group: zarr.Group,
    skip_names: set[str] = set(),
    skip_types: tuple[type, ...] = (),
    compressors=None,
) -> None:
    # Store class identity and version metadata at group root if not already set
    if "_autoserialize" not in group.attrs:
        group.attrs["_autoserialize"] = {
            "version": 1,
            "class_module": obj.__class__.__module__,
            "class_name": obj.__class__.__qualname__,
        }

    # Support both attrs and plain Python classes
    attrs_fields = getattr(obj.__class__, "__attrs_attrs__", None)
    if attrs_fields is not None:
        items = [(field.name, getattr(obj, field.name)) for field in attrs_fields]
    else:
        items = obj.__dict__.items()

    for attr_name, attr_value in items:
        # Skip any attributes matching names/types in skip lists
        if attr_name in skip_names or isinstance(attr_value, skip_types):
            continue

        # Use unified serialization method
        self._serialize_value(
            attr_value, group, attr_name, skip_names, skip_types, compressors
        )


ORIG = {"save": save, "_recursive_save": _recursive_save}  # noqa: F821
NEW = {"save": AutoSerialize.save, "_recursive_save": AutoSerialize._recursive_save}


@contextlib.contextmanager
def implementation(which):
    impl = ORIG if which == "old" else NEW
    AutoSerialize.save = impl["save"]
    AutoSerialize._recursive_save = impl["_recursive_save"]
    try:
        yield
    finally:
        AutoSerialize.save = NEW["save"]
        AutoSerialize._recursive_save = NEW["_recursive_save"]


# --------------------------------------------------------------------------------------
# fault injection at the serializer's write operations and the zip assembly
# --------------------------------------------------------------------------------------
class Boom(BaseException):
    """Stands in for KeyboardInterrupt / SystemExit."""


class Injector:
    def __init__(self):
        self.active = False
        self.reset()

    def reset(self, k=None, exc=None):
        self.count = 0
        self.k = k
        self.exc = exc
        self.trace = []

    def tick(self, label):
        if not self.active:
            return
        i = self.count
        self.count += 1
        self.trace.append(label)
        if self.k is not None and i == self.k:
            raise self.exc(f"injected at op {i}: {label}")


INJ = Injector()


def _wrap(cls, name, labeller):
    orig = getattr(cls, name)

    def wrapper(self, *args, **kwargs):
        INJ.tick(labeller(self, args, kwargs))
        return orig(self, *args, **kwargs)

    wrapper.__name__ = name
    setattr(cls, name, wrapper)


_wrap(Attributes, "__setitem__", lambda s, a, k: f"attr:{a[0]}")
_wrap(zarr.Group, "create_array", lambda s, a, k: f"create:{k.get('name')}:{k.get('shape')}")
_wrap(zarr.Array, "__setitem__", lambda s, a, k: "data")
_wrap(
    ZipFile,
    "write",
    lambda s, a, k: "zip:" + str(k.get("arcname", a[1] if len(a) > 1 else None)),
)


_zip_close = ZipFile.close


def _close(self):
    if self.fp is not None:  # a real close, not the no-op repeat from __del__
        INJ.tick("zipclose")
    return _zip_close(self)


ZipFile.close = _close


# --------------------------------------------------------------------------------------
# object graphs
# --------------------------------------------------------------------------------------
class Leaf(AutoSerialize):
    def __init__(self, tag):
        self.tag = tag
        self.arr = np.arange(6, dtype=np.float32).reshape(2, 3) * tag
        self.empty = np.zeros((0, 3))


class Small(AutoSerialize):
    def __init__(self, seed):
        self.a = seed
        self.arr = np.arange(4) + seed
        self.name = f"small{seed}"
        self.leaf = Leaf(seed)
        self.z = 2.5 * seed


class Tree(AutoSerialize):
    def __init__(self, seed):
        self.a = seed
        self.f = 0.5 * seed
        self.s = f"name{seed}"
        self.none = None
        self.flag = True
        self.np_scalar = np.float32(1.5)
        self.arr = np.arange(12).reshape(3, 4) + seed
        self.scal0 = np.array(3.0)
        self.nums = [1, 2, 3]
        self.mixed = [1, "x", np.ones(2)]
        self.d = {"k": 1, "v": np.zeros(2), "leaf": Leaf(2)}
        self.t = torch.arange(4, dtype=torch.float32) + seed
        self.p = Path("/some/where")
        self.st = {3, 1, 2}
        self.cplx = 1 + 2j  # dill fallback (prints a message)
        self.leaf = Leaf(seed)
        self.last = "end"


class NoPickle:
    def __reduce__(self):
        raise TypeError("cannot pickle NoPickle")


class Unserialisable(AutoSerialize):
    """dill cannot pickle 'bad': save() fails part-way, after 'first' and before 'after'."""

    def __init__(self, seed):
        self.first = seed
        self.arr = np.ones(3) * seed
        self.bad = NoPickle()
        self.after = "never written"


class AttrsLike(AutoSerialize):
    __attrs_attrs__ = (SimpleNamespace(name="x"), SimpleNamespace(name="y"))

    def __init__(self, seed):
        self.x = seed
        self.y = np.ones(3) * seed
        self.z = "not a field"


class Empty(AutoSerialize):
    pass


# --------------------------------------------------------------------------------------
# observation helpers
# --------------------------------------------------------------------------------------
def canon(v):
    """Canonical, comparable form of a loaded value."""
    if isinstance(v, np.ndarray):
        return ("nd", str(v.dtype), v.shape, v.tobytes())
    if isinstance(v, torch.Tensor):
        return ("t", str(v.dtype), tuple(v.shape), v.detach().numpy().tobytes())
    if isinstance(v, AutoSerialize):
        return ("obj", type(v).__name__, tuple((k, canon(x)) for k, x in sorted(vars(v).items())))
    if isinstance(v, dict):
        return ("dict", tuple((str(k), canon(x)) for k, x in sorted(v.items(), key=str)))
    if isinstance(v, (list, tuple)):
        return (type(v).__name__, tuple(canon(x) for x in v))
    if isinstance(v, set):
        return ("set", tuple(sorted(repr(canon(x)) for x in v)))
    if isinstance(v, Path):
        return ("path", str(v))
    return (type(v).__name__, repr(v))


def file_state(p):
    if p.endswith(".zip"):
        try:
            with ZipFile(p, "r") as zf:
                return ("zip", tuple((n, hashlib.sha1(zf.read(n)).hexdigest()) for n in zf.namelist()))
        except Exception:
            pass
    with open(p, "rb") as fh:
        return ("file", hashlib.sha1(fh.read()).hexdigest())


def snapshot(top):
    out = {}
    for dirpath, dirnames, filenames in os.walk(top):
        rel = os.path.relpath(dirpath, top)
        out[rel + "/"] = "dir"
        for fn in filenames:
            full = os.path.join(dirpath, fn)
            out[os.path.normpath(os.path.join(rel, fn))] = file_state(full)
    return out


def load_outcome(target, scratch):
    """Result of load(target), taken on a copy so that observing never alters the sandbox."""
    if not os.path.lexists(target):
        return ("absent",)
    probe = os.path.join(scratch, "probe", os.path.basename(target))
    shutil.rmtree(os.path.dirname(probe), ignore_errors=True)
    os.makedirs(os.path.dirname(probe))
    if os.path.isdir(target):
        shutil.copytree(target, probe)
    else:
        shutil.copy2(target, probe)
    try:
        return ("loaded", canon(load(probe)))
    except Exception as e:  # unreadable
        return ("unreadable", type(e).__name__)
    finally:
        shutil.rmtree(os.path.dirname(probe), ignore_errors=True)


def without_target(snap, target_rel):
    return {
        k: v
        for k, v in snap.items()
        if not (k == target_rel or k == target_rel + "/" or k.startswith(target_rel + "/"))
    }


# --------------------------------------------------------------------------------------
# one scenario, run under one implementation
# --------------------------------------------------------------------------------------
ROOT = None
_counter = [0]
_pre_cache = {}


def final_target(relpath, store):
    p = relpath
    if store == "auto":
        store = "zip" if p.endswith(".zip") else "dir"
    if store == "zip" and not p.endswith(".zip"):
        p += ".zip"
    return p


def run(which, make_obj, relpath, store, mode, pre, k, exc, skip=(), level=4, as_path=False):
    _counter[0] += 1
    sb = os.path.join(ROOT, f"sb{_counter[0]}")
    os.makedirs(os.path.join(sb, "work", "a.b"))
    work = os.path.join(sb, "work")
    tmp = os.path.join(sb, "staging")
    os.makedirs(tmp)
    tempfile.tempdir = tmp
    target_rel = final_target(relpath, store)
    target = os.path.join(work, target_rel)
    with implementation(which):
        # siblings: a plain file, an earlier zip save and an earlier directory save
        with open(os.path.join(work, "sibling.txt"), "w") as fh:
            fh.write("do not touch")
        shutil.copy2(os.path.join(ROOT, "tmpl", "sib_zip.zip"), os.path.join(work, "sib_zip.zip"))
        shutil.copytree(os.path.join(ROOT, "tmpl", "sib_dir"), os.path.join(work, "sib_dir"))
        # pre-existing target
        if pre == "saved":  # an earlier successful save of a different object
            if target.endswith(".zip"):
                shutil.copy2(os.path.join(ROOT, "tmpl", "pre.zip"), target)
            else:
                shutil.copytree(os.path.join(ROOT, "tmpl", "pre_dir"), target)
        elif pre == "file":
            with open(target, "wb") as fh:
                fh.write(b"plain file in the way")
        elif pre == "dir":
            os.makedirs(os.path.join(target, "sub"))
            with open(os.path.join(target, "sub", "x.bin"), "wb") as fh:
                fh.write(b"\x00\x01")
        before = snapshot(work)
        pre_key = (pre, target.endswith(".zip"))  # built from fixed templates: load it once
        if pre_key not in _pre_cache:
            _pre_cache[pre_key] = load_outcome(target, sb)
        pre_outcome = _pre_cache[pre_key]

        obj = make_obj()
        out = io.StringIO()
        INJ.reset(k, exc)
        err = None
        arg = os.path.join(work, relpath)
        if as_path:
            arg = Path(arg)
        try:
            try:
                INJ.active = True
                with contextlib.redirect_stdout(out):
                    obj.save(arg, mode=mode, store=store, skip=skip, compression_level=level)
            finally:
                INJ.active = False
        except BaseException as e:  # noqa: BLE001
            err = (type(e).__name__, str(e).replace(sb, "<SB>"))
        trace = list(INJ.trace)
        staging_left = sorted(os.listdir(tmp))
        after = snapshot(work)
        outcome = load_outcome(target, sb)
        shutil.rmtree(sb, ignore_errors=True)
    return {
        "err": err,
        "stdout": out.getvalue().replace(sb, "<SB>"),
        "trace": trace,
        "staging_left": staging_left,
        "before": before,
        "after": after,
        "pre_outcome": pre_outcome,
        "outcome": outcome,
        "target_rel": target_rel,
    }


_reference_cache = {}


def reference(make_obj, skip, level):
    """canon(load(.)) of a clean, complete save (what a complete object looks like)."""
    key = (make_obj, repr(skip), level)
    if key not in _reference_cache:
        refs = []
        tempfile.tempdir = os.path.join(ROOT, "reftmp")
        os.makedirs(tempfile.tempdir, exist_ok=True)
        for name in ("ref.zip", "ref"):
            p = os.path.join(ROOT, name)
            with contextlib.redirect_stdout(io.StringIO()):
                make_obj().save(p, mode="o", skip=skip, compression_level=level)
            refs.append(canon(load(p)))
        assert refs[0] == refs[1]
        _reference_cache[key] = refs[0]
    return _reference_cache[key]


def check_property(r, make_obj, mode, pre, skip, level, can_complete):
    failed = r["err"] is not None
    tr = r["target_rel"]
    # no save, successful or not, alters any path other than its target
    assert without_target(r["after"], tr) == without_target(r["before"], tr), "sibling altered"
    assert r["staging_left"] == [], "staging directory left behind"
    if failed:
        if mode == "w" and pre != "none":
            assert r["err"][0] == "FileExistsError", r["err"]
            assert r["after"] == r["before"], "write-once target modified"
            assert r["trace"] == [], "wrote before refusing"
        kind = r["outcome"][0]
        if kind == "loaded":
            # only acceptable if it is the complete object of the earlier successful save
            assert pre == "saved", "a failed save left a loadable object"
            assert r["outcome"] == r["pre_outcome"], "partial object became loadable"
        else:
            assert kind in ("absent", "unreadable")
    elif can_complete:
        assert r["outcome"] == ("loaded", reference(make_obj, skip, level)), "incomplete save"


N_RUNS = [0]


def both(make_obj, relpath, store, mode, pre, k=None, exc=None, skip=(), level=4,
         as_path=False, can_complete=True):
    old = run("old", make_obj, relpath, store, mode, pre, k, exc, skip, level, as_path)
    new = run("new", make_obj, relpath, store, mode, pre, k, exc, skip, level, as_path)
    label = (make_obj, relpath, store, mode, pre, k, exc, skip, level)
    for field in old:
        assert old[field] == new[field], f"old != new in {field!r} for {label}"
    check_property(new, make_obj, mode, pre, skip, level, can_complete)
    N_RUNS[0] += 1
    return new


def n_ops(make_obj, relpath, store, **kw):
    r = both(make_obj, relpath, store, "w", "none", **kw)
    return len(r["trace"])


def small():
    return Small(3)


def tree():
    return Tree(5)


def unser():
    return Unserialisable(4)


def attrslike():
    return AttrsLike(6)


def empty():
    return Empty()


def main():
    global ROOT
    default_tmp = tempfile.gettempdir()
    with tempfile.TemporaryDirectory(dir=default_tmp) as root:
        ROOT = root
        try:
            tempfile.tempdir = os.path.join(ROOT, "reftmp")
            os.makedirs(tempfile.tempdir)
            os.makedirs(os.path.join(ROOT, "tmpl"))
            Small(7).save(os.path.join(ROOT, "tmpl", "sib_zip.zip"))
            Small(8).save(os.path.join(ROOT, "tmpl", "sib_dir"))
            Small(99).save(os.path.join(ROOT, "tmpl", "pre.zip"))
            Small(99).save(os.path.join(ROOT, "tmpl", "pre_dir"))

            # ---- 1. clean saves: every graph, store, mode, pre-existing target ----------
            for mk in (small, tree, attrslike, empty):
                for relpath, store in (("obj.zip", "auto"), ("obj", "auto"), ("obj", "zip"),
                                       ("obj.zip", "zip"), ("obj", "dir"), ("a.b/obj", "dir")):
                    if mk is tree and store != "auto":
                        continue
                    both(mk, relpath, store, "w", "none")
            for relpath, store in (("obj.zip", "zip"), ("obj", "dir")):
                for mode in ("w", "o"):
                    for pre in ("none", "saved", "file", "dir"):
                        both(small, relpath, store, mode, pre)
                        both(unser, relpath, store, mode, pre, can_complete=False)
            # Path argument, skip lists, compression levels
            both(tree, "obj.zip", "auto", "w", "none", as_path=True)
            both(tree, "obj", "auto", "o", "saved", as_path=True)
            for i, skip in enumerate(("a", ("arr", torch.Tensor), [np.ndarray, "s", Leaf, "d", "mixed"])):
                both(tree, "obj.zip" if i % 2 else "obj", "auto", "w", "none", skip=skip)
            for level in (None, 0, 9):
                both(small, "obj.zip", "zip", "w", "none", level=level)
                both(small, "obj", "dir", "w", "none", level=level)

            # ---- 2. argument errors (before / after the overwrite handling) --------------
            for level in (10, -1):
                for pre in ("none", "saved"):
                    both(small, "obj", "dir", "o", pre, level=level, can_complete=False)
            for relpath in ("obj.dat", "obj.", ".hidden", "a.b/obj.x", "obj.tar.gz", "obj.zip"):
                for mode in ("w", "o"):
                    for pre in ("none", "file", "dir"):
                        both(small, relpath, "dir", mode, pre, can_complete=relpath == ".hidden")
            for pre in ("none", "file"):
                both(small, "obj", "tar", "o", pre, can_complete=False)
                both(small, "obj.zip", "tar", "w", pre, can_complete=False)

            # ---- 3. fault sweeps: an exception at every write position k ------------------
            for relpath, store in (("obj.zip", "zip"), ("obj", "dir")):
                n = n_ops(small, relpath, store)
                assert n > 8
                for k in range(n + 1):
                    both(small, relpath, store, "w", "none", k=k, exc=Boom if k % 2 else RuntimeError)
                    if k % 2 == 0:
                        both(small, relpath, store, "o", "saved", k=k, exc=RuntimeError)
                    else:
                        both(small, relpath, store, "o", "file" if k % 4 == 1 else "dir", k=k, exc=Boom)
                both(small, relpath, store, "w", "saved", k=0, exc=RuntimeError)
                # the large graph: a sampled sweep
                n = n_ops(tree, relpath, store)
                for k in list(range(0, n, 9)) + [n - 2, n - 1]:
                    both(tree, relpath, store, "w" if k % 2 else "o", "none" if k % 2 else "saved",
                         k=k, exc=RuntimeError if k % 3 else Boom)
                n = n_ops(attrslike, relpath, store)
                for k in range(0, n, 2):
                    both(attrslike, relpath, store, "w", "none", k=k, exc=RuntimeError)
        finally:
            tempfile.tempdir = None
    print(f"C08 demo OK: {N_RUNS[0]} scenarios, old == new and property holds")


if __name__ == "__main__":
    main()
