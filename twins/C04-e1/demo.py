"""
Demo for property C04 (direct ptychography: batch-invariant, linear, exact on analytic cases).

Patch 1 hoists the batch-independent q-space operators of the parallax and iCOM kernels
(the stacked q-vector and the -i q/|q|^2 integration operators) out of
_return_kernel_contributions (called once per batch) into reconstruct (computed once).
The demo embeds the original reconstruct/_return_kernel_contributions pair and checks that
old and new give bit-identical stacks, and that the property itself holds.

Run as:  PYTHONPATH=<root>/src /venv/bin/python demo.py
Exits 0 when every assertion holds (on the unmodified tree and on the patched tree).
"""
import gc
import math
import time

import numpy as np
import torch
from tqdm.auto import tqdm

from quantem.core.datastructures import Dataset2d, Dataset3d
from quantem.diffractive_imaging import direct_ptychography as dp_module
from quantem.diffractive_imaging.complex_probe import (
    aberration_surface,
    aberration_surface_cartesian_gradients,
    evaluate_probe,
    gamma_factor,
    polar_coordinates,
    spatial_frequencies,
)
from quantem.diffractive_imaging.direct_ptychography import DirectPtychography
from quantem.diffractive_imaging.ptycho_utils import SimpleBatcher

T0 = time.time()
torch.manual_seed(0)
torch.set_num_threads(1)  # tiny arrays: thread hand-off costs more than it saves
# reconstruct() calls gc.collect() twice per call; freezing the (large) import-time heap keeps
# those collections cheap so that the demo can afford a few hundred reconstructions
gc.collect()
gc.freeze()

# ----------------------------------------------------------------------------------------
# verbatim copies of the ORIGINAL (pre-patch) methods
# ----------------------------------------------------------------------------------------
def _return_kernel_contributions(
    self,
    bf,
    deconvolution_kernel,
    vbf_fourier,
    kxa,
    kya,
    qxa,
    qya,
    cmplx_probe_k,
    grad_k,
    sign_sin_chi_q,
    aberration_coefs,
    batch_idx,
):
    """ """
    ind_i = bf.bf_inds_i[batch_idx]
    ind_j = bf.bf_inds_j[batch_idx]

    kx = kxa[ind_i, ind_j].view(-1, 1, 1)
    ky = kya[ind_i, ind_j].view(-1, 1, 1)

    power = None

    if deconvolution_kernel in ("ssb", "obf", "mf"):
        qmkxa = qxa.unsqueeze(0) - kx
        qmkya = qya.unsqueeze(0) - ky
        qpkxa = qxa.unsqueeze(0) + kx
        qpkya = qya.unsqueeze(0) + ky

        cmplx_probe_at_k = cmplx_probe_k[ind_i, ind_j].view(-1, 1, 1)

        gamma = gamma_factor(
            (qmkxa, qmkya),
            (qpkxa, qpkya),
            cmplx_probe_at_k,
            self.wavelength,
            self.semiangle_cutoff,
            self.soft_edges,
            angular_sampling=self.angular_sampling,
            aberration_coefs=aberration_coefs,
            normalize=False,
        )

        fourier_factor = -1.0j * vbf_fourier * gamma.conj()
        abs_gamma = gamma.abs()

        if deconvolution_kernel == "ssb":
            fourier_factor = fourier_factor / abs_gamma.clip(1e-8)
        else:
            power = abs_gamma.square().sum(0)

    elif deconvolution_kernel == "prlx":
        qvec = torch.stack((qxa, qya), 0)
        grad_kq = torch.einsum("na,amp->nmp", grad_k[batch_idx], qvec)
        operator = torch.exp(-1j * grad_kq) * sign_sin_chi_q
        fourier_factor = vbf_fourier * operator

    else:
        q2 = qxa.square() + qya.square()
        qx_op = -1.0j * qxa / q2
        qy_op = -1.0j * qya / q2
        qx_op[0, 0] = 0.0
        qy_op[0, 0] = 0.0

        operator = kx * qx_op + ky * qy_op
        fourier_factor = vbf_fourier * operator

    return fourier_factor, power


def reconstruct(
    self,
    bf_mask=None,
    override_aberration_coefs=None,
    upsampling_factor=None,
    override_rotation_angle=None,
    max_batch_size=None,
    deconvolution_kernel="single-sideband",
    q_highpass=None,
    q_lowpass=None,
    butterworth_order=12,
    matched_filter_norm_epsilon=1e-1,
    parallax_flip_phase=True,
    verbose=None,
    use_initial_state=False,
):
    """
    Unified reconstruction method supporting multiple deconvolution techniques.

    Parameters
    ----------
    bf_mask: torch.Tensor, optional
        Subset of bright field mask to use for reconstruction. Note this must be
        strictly smaller than the bf_mask used for initialization.
    override_aberration_coefs : dict, optional
        Aberration coefficients for the probe
    upsampling_factor : int, optional
        Factor by which to upsample the reconstruction
    override_rotation_angle : float, optional
        Rotation angle for coordinate system
    max_batch_size : int, optional
        Maximum batch size for processing
    deconvolution_kernel : str, one of ['ssb', 'obf', 'mf','prlx','icom']
    q_highpass : float, optional
        High-pass filter cutoff
    q_lowpass : float, optional
        Low-pass filter cutoff
    verbose : bool, optional
        If True, show progress bar

    Returns
    -------
    self
        Returns self with corrected_stack attribute set
    """

    state = self.hyperparameter_state

    if verbose is None:
        verbose = self.verbose

    if use_initial_state:
        if verbose:
            print("Reconstructing with:\n\n", state.summarize(which="initial"))
        aberration_coefs = state.initial_aberrations
        rotation_angle = state.initial_rotation_angle
    else:
        if verbose:
            print(
                "Reconstructing with:\n\n",
                state.summarize(
                    which="current",
                    override_aberration_coefs=override_aberration_coefs,
                    override_rotation_angle=override_rotation_angle,
                ),
            )
        aberration_coefs = state.current_aberrations(override_aberration_coefs)
        rotation_angle = state.current_rotation_angle(override_rotation_angle)

    if upsampling_factor is None:
        upsampling_factor = 1
    upsampling_factor = math.ceil(upsampling_factor)

    if bf_mask is None:
        bf_mask = self.bf_mask
    bf = self._return_bf_context(bf_mask)

    num_bf = bf.num_bf
    bf_mask = bf.bf_mask
    vbf_index_mapping = bf.vbf_index_mapping

    if max_batch_size is None:
        max_batch_size = num_bf

    deconvolution_kernel = self._normalize_kernel_name(deconvolution_kernel)

    # Get upsampled q-space grid
    qxa, qya = self._return_upsampled_qgrid(upsampling_factor)
    q, theta = polar_coordinates(qxa, qya)

    # Get k-space grid
    kxa, kya = spatial_frequencies(
        self.gpts, self.sampling, rotation_angle=rotation_angle, device=self.device
    )
    k, phi = polar_coordinates(kxa, kya)

    # compute global / cheap functions for prlx
    if deconvolution_kernel == "prlx":
        dx, dy = aberration_surface_cartesian_gradients(
            k * self.wavelength,
            phi,
            aberration_coefs=aberration_coefs,
        )
        grad_k = torch.stack((dx[bf_mask], dy[bf_mask]), -1)

        if parallax_flip_phase:
            chi_q = aberration_surface(
                q * self.wavelength,
                theta,
                self.wavelength,
                aberration_coefs=aberration_coefs,
            )
            sign_sin_chi_q = torch.sign(torch.sin(chi_q))
        else:
            sign_sin_chi_q = torch.ones_like(q)
    else:
        grad_k = None
        sign_sin_chi_q = None

    # compute global / cheap functions for all
    cmplx_probe_k = evaluate_probe(
        k * self.wavelength,
        phi,
        self.semiangle_cutoff,
        self.angular_sampling,
        self.wavelength,
        aberration_coefs=aberration_coefs,
    )
    BF_weights = cmplx_probe_k[bf_mask].abs().square().sum()

    butterworth_env = torch.ones_like(q)
    if q_lowpass:
        butterworth_env *= 1 / (1 + (q / q_lowpass) ** (2 * butterworth_order))
    if q_highpass:
        butterworth_env *= 1 - 1 / (1 + (q / q_highpass) ** (2 * butterworth_order))

    # Process batches
    pbar = tqdm(range(num_bf), disable=not verbose)
    batcher = SimpleBatcher(num_bf, batch_size=max_batch_size, shuffle=False, rng=self.rng)

    fourier_factor = torch.empty(
        (num_bf,) + qxa.shape, device=self.device, dtype=torch.complex64
    )
    if deconvolution_kernel in ("obf", "mf"):
        power = torch.zeros(qxa.shape, device=self.device)
    else:
        power = None

    # first pass
    for batch_idx in batcher:
        mapped_idx = vbf_index_mapping[batch_idx]
        vbf_fourier = self._vbf_fourier[mapped_idx]

        # Fourier-space tiling
        vbf_fourier = torch.cat(
            [torch.cat([vbf_fourier] * upsampling_factor, dim=-1)] * upsampling_factor,
            dim=-2,
        )

        num, pow = self._return_kernel_contributions(
            bf,
            deconvolution_kernel,
            vbf_fourier,
            kxa,
            kya,
            qxa,
            qya,
            cmplx_probe_k,
            grad_k,
            sign_sin_chi_q,
            aberration_coefs,
            batch_idx,
        )
        if power is None:
            num *= butterworth_env
            # num[:, 0, 0] = self._dc_per_image

            fourier_factor[batch_idx] = torch.fft.ifft2(num)
        else:
            fourier_factor[batch_idx] = num
            power += pow

        pbar.update(len(batch_idx))
    pbar.close()

    if power is not None:
        power /= BF_weights

        if deconvolution_kernel == "obf":
            norm = power.sqrt().clamp_min(1e-8)
        elif deconvolution_kernel == "mf":
            norm = (power + matched_filter_norm_epsilon * power.max()).clamp_min(1e-8)

        # second pass
        for batch_idx in batcher:
            ff = fourier_factor[batch_idx]

            if power is not None:
                ff /= norm

            ff *= butterworth_env
            # ff[:, 0, 0] = self._dc_per_image

            fourier_factor[batch_idx] = torch.fft.ifft2(ff)

    self.corrected_stack = fourier_factor.real / BF_weights

    # memory management
    gc.collect()
    torch.cuda.empty_cache()
    if hasattr(torch, "mps") and torch.backends.mps.is_available():
        torch.mps.empty_cache()
    gc.collect()

    return self


class OrigDirectPtychography(DirectPtychography):
    """DirectPtychography with the original (pre-patch) implementation of the rewritten methods."""

    _return_kernel_contributions = _return_kernel_contributions
    reconstruct = reconstruct



# ----------------------------------------------------------------------------------------
# fixtures
# ----------------------------------------------------------------------------------------
ENERGY = 80e3
KERNELS = ["ssb", "obf", "mf", "prlx", "icom"]
SINGLE_PASS = ["ssb", "prlx", "icom"]
ALIASES = {
    "single-sideband": "ssb",
    "ACBF": "ssb",
    "aberration-corrected-bright-field": "ssb",
    "Optimum-Bright-Field": "obf",
    "matched-filter": "mf",
    "parallax": "prlx",
    "tcbf": "prlx",
    "tilt-corrected-bright-field": "prlx",
    "center-of-mass": "icom",
}


def disk_mask(det, radius, centre=(0.0, 0.0)):
    """corner-centred boolean detector mask"""
    ky = np.fft.fftfreq(det[0], 1 / det[0])
    kx = np.fft.fftfreq(det[1], 1 / det[1])
    return ((ky[:, None] - centre[0]) ** 2 + (kx[None, :] - centre[1]) ** 2) <= radius**2


def random_stack(num, scan, seed):
    rng = np.random.default_rng(seed)
    return rng.normal(1.0, 0.2, size=(num,) + tuple(scan)).astype(np.float32)


def build(cls, stack, mask, *, scan_sampling=(0.5, 0.4), det_sampling=(0.05, 0.06),
          rotation_angle=0.1, aberration_coefs=None, semiangle_cutoff=5.0, soft_edges=True):
    vbf = Dataset3d.from_array(
        np.array(stack, copy=True), name="vbf", units=("index", "A", "A"),
        sampling=(1,) + tuple(scan_sampling),
    )
    msk = Dataset2d.from_array(
        np.array(mask, copy=True), name="mask", units=("A^-1", "A^-1"), sampling=det_sampling
    )
    return cls.from_virtual_bfs(
        vbf, msk, energy=ENERGY, rotation_angle=rotation_angle,
        aberration_coefs=dict(aberration_coefs or {}), semiangle_cutoff=semiangle_cutoff,
        soft_edges=soft_edges, crop_bf_mask=False, rng=0, device="cpu", verbose=False,
    )


def recon(dp, **kw):
    dp.reconstruct(verbose=False, **kw)
    out = dp.corrected_stack
    assert out.dtype == torch.float32
    return out.clone()


def close(a, b, rtol=2e-4, what=""):
    a = torch.as_tensor(a, dtype=torch.float64)
    b = torch.as_tensor(b, dtype=torch.float64)
    assert a.shape == b.shape, (what, a.shape, b.shape)
    scale = max(float(b.abs().max()), 1e-30)
    err = float((a - b).abs().max()) / scale
    assert err <= rtol, f"{what}: relative error {err:.3e} > {rtol}"


def aperture_weight(dp, mask, aberration_coefs, rotation_angle):
    """sum over the mask of |probe(k)|^2 (the 'BF weight' of a mask)"""
    kxa, kya = spatial_frequencies(dp.gpts, dp.sampling, rotation_angle=rotation_angle)
    k, phi = polar_coordinates(kxa, kya)
    probe = evaluate_probe(
        k * dp.wavelength, phi, dp.semiangle_cutoff, dp.angular_sampling, dp.wavelength,
        aberration_coefs=aberration_coefs,
    )
    return float(probe[torch.as_tensor(mask)].abs().square().sum())


CONFIGS = [
    # scan shape / sampling, detector shape, mask radius, aberrations, rotation, extra reconstruct kwargs
    dict(scan=(7, 10), ss=(1.5, 1.2), det=(8, 6), radius=2.2, abers={"C10": 600.0}, rot=0.1, kw={}),
    dict(scan=(9, 5), ss=(1.1, 2.0), det=(7, 7), radius=2.6,
         abers={"C10": -400.0, "C12": 250.0, "phi12": 0.4}, rot=-0.7,
         kw=dict(q_lowpass=0.3, q_highpass=0.05, butterworth_order=4)),
    dict(scan=(6, 6), ss=(2.0, 2.0), det=(6, 9), radius=1.5,
         abers={"C10": 300.0, "C30": 2.0e5, "C21": 3000.0, "phi21": 1.0}, rot=0.0,
         kw=dict(matched_filter_norm_epsilon=0.3, parallax_flip_phase=False)),
]


def build_cfg(cls, cfg, stack, mask):
    return build(cls, stack, mask, scan_sampling=cfg["ss"], rotation_angle=cfg["rot"],
                 aberration_coefs=cfg["abers"])


def batch_sizes(num_bf):
    return sorted({1, 2, 3, num_bf // 2, num_bf - 1, num_bf} - {0})


# ----------------------------------------------------------------------------------------
# 1. old vs new (bit-exact) and batch invariance, every kernel / upsampling / batch size
# ----------------------------------------------------------------------------------------
def check_equivalence_and_batch_invariance():
    n_cmp = 0
    for ci, cfg in enumerate(CONFIGS):
        mask = disk_mask(cfg["det"], cfg["radius"])
        stack = random_stack(int(mask.sum()), cfg["scan"], seed=ci)
        new = build_cfg(DirectPtychography, cfg, stack, mask)
        old = build_cfg(OrigDirectPtychography, cfg, stack, mask)
        num_bf = new.num_bf
        for kernel in KERNELS:
            for ups in (1, 2, 3):
                ref = recon(new, deconvolution_kernel=kernel, upsampling_factor=ups, **cfg["kw"])
                assert ref.shape == (num_bf, cfg["scan"][0] * ups, cfg["scan"][1] * ups)
                assert torch.isfinite(ref).all() and float(ref.abs().max()) > 0
                ref_old = recon(old, deconvolution_kernel=kernel, upsampling_factor=ups, **cfg["kw"])
                assert torch.equal(ref, ref_old), ("old/new differ", ci, kernel, ups)
                n_cmp += 1
                bss = range(1, num_bf + 1) if ups == 1 else batch_sizes(num_bf)
                for bs in bss:
                    out = recon(new, deconvolution_kernel=kernel, upsampling_factor=ups,
                                max_batch_size=bs, **cfg["kw"])
                    close(out, ref, rtol=1e-4, what=f"batch invariance cfg{ci} {kernel} ups{ups} bs{bs}")
                    out_old = recon(old, deconvolution_kernel=kernel, upsampling_factor=ups,
                                    max_batch_size=bs, **cfg["kw"])
                    assert torch.equal(out, out_old), ("old/new differ", ci, kernel, ups, bs)
                    n_cmp += 1
        # aliases resolve to the same kernels, in old and new
        for alias, kernel in ALIASES.items():
            a = recon(new, deconvolution_kernel=alias, max_batch_size=3, **cfg["kw"])
            b = recon(new, deconvolution_kernel=kernel, max_batch_size=3, **cfg["kw"])
            c = recon(old, deconvolution_kernel=alias, max_batch_size=3, **cfg["kw"])
            assert torch.equal(a, b) and torch.equal(a, c), (alias, kernel)
        # float upsampling factors are rounded up; None means 1
        a = recon(new, deconvolution_kernel="ssb", upsampling_factor=1.5)
        b = recon(new, deconvolution_kernel="ssb", upsampling_factor=2)
        assert torch.equal(a, b)
        a = recon(new, deconvolution_kernel="icom", upsampling_factor=None)
        b = recon(old, deconvolution_kernel="icom", upsampling_factor=1)
        assert torch.equal(a, b)
        # bad kernel name: same exception in old and new
        for dp in (new, old):
            try:
                dp.reconstruct(deconvolution_kernel="nope", verbose=False)
            except ValueError as e:
                assert "Unknown deconvolution kernel 'nope'" in str(e)
            else:
                raise AssertionError("expected ValueError")
        # overrides and use_initial_state
        for kernel in KERNELS:
            kw = dict(deconvolution_kernel=kernel, override_aberration_coefs={"C10": 15.0, "C12": 5.0},
                      override_rotation_angle=0.3, max_batch_size=4, upsampling_factor=2)
            assert torch.equal(recon(new, **kw), recon(old, **kw))
            kw = dict(deconvolution_kernel=kernel, use_initial_state=True, max_batch_size=5)
            assert torch.equal(recon(new, **kw), recon(old, **kw))
    return n_cmp


# ----------------------------------------------------------------------------------------
# 2. linearity in the stack
# ----------------------------------------------------------------------------------------
def check_linearity():
    cfg = CONFIGS[1]
    mask = disk_mask(cfg["det"], cfg["radius"])
    n = int(mask.sum())
    s1, s2 = random_stack(n, cfg["scan"], 11), random_stack(n, cfg["scan"], 12)
    a, b = 0.75, -1.5
    mk = lambda s: build_cfg(DirectPtychography, cfg, s, mask)
    d1, d2, d12 = mk(s1), mk(s2), mk(a * s1 + b * s2)
    for kernel in KERNELS:
        for ups, bs in ((1, 2), (2, None), (3, 5)):
            kw = dict(deconvolution_kernel=kernel, upsampling_factor=ups, max_batch_size=bs, **cfg["kw"])
            r1, r2, r12 = recon(d1, **kw), recon(d2, **kw), recon(d12, **kw)
            scale = float((a * r1).abs().max() + (b * r2).abs().max())
            err = float((r12 - (a * r1 + b * r2)).abs().max()) / scale
            assert err < 2e-4, ("linearity", kernel, ups, bs, err)


# ----------------------------------------------------------------------------------------
# 3. complementary sub-masks recombine (single-pass kernels), weighted by aperture weights
# ----------------------------------------------------------------------------------------
def check_submask_recombination():
    for ci, cfg in enumerate(CONFIGS):
        mask = disk_mask(cfg["det"], cfg["radius"])
        stack = random_stack(int(mask.sum()), cfg["scan"], seed=20 + ci)
        new = build_cfg(DirectPtychography, cfg, stack, mask)
        old = build_cfg(OrigDirectPtychography, cfg, stack, mask)
        abers = new.aberration_coefs
        # checkerboard halves, a lopsided split and a single-pixel sub-mask
        cb1, cb2 = (m.numpy() for m in new._make_checkerboard_bf_masks(new.gpts, new.bf_mask))
        rows = np.zeros_like(mask)
        rows[: mask.shape[0] // 2] = True
        one = np.zeros_like(mask)
        one[0, 1] = True
        splits = [(cb1, cb2), (mask & rows, mask & ~rows), (one, mask & ~one)]
        w_full = aperture_weight(new, mask, abers, cfg["rot"])
        for kernel in SINGLE_PASS:
            for ups, bs in ((1, 3), (2, None)):
                kw = dict(deconvolution_kernel=kernel, upsampling_factor=ups, max_batch_size=bs, **cfg["kw"])
                new.reconstruct(verbose=False, **kw)
                full_stack = new.corrected_stack.clone()
                full = new.corrected_bf.clone()
                for m_a, m_b in splits:
                    assert (m_a | m_b).sum() == mask.sum() and not (m_a & m_b).any()
                    parts = []
                    for m in (m_a, m_b):
                        w = aperture_weight(new, m, abers, cfg["rot"])
                        sub = recon(new, bf_mask=m, **kw)
                        assert sub.shape[0] == int(m.sum())
                        assert torch.equal(sub, recon(old, bf_mask=m, **kw)), ("old/new differ", kernel)
                        # per-pixel images are those of the full run, re-weighted
                        idx = torch.as_tensor(m[mask])
                        close(sub * w, full_stack[idx] * w_full, rtol=2e-4,
                              what=f"sub-mask stack cfg{ci} {kernel}")
                        parts.append(sub.sum(0) * w)
                    close((parts[0] + parts[1]) / w_full, full, rtol=2e-4,
                          what=f"recombination cfg{ci} {kernel} ups{ups}")


# ----------------------------------------------------------------------------------------
# 4. analytic parallax limits (no contrast-transfer flipping)
# ----------------------------------------------------------------------------------------
def fourier_shift_np(img, shift_px):
    fy = np.fft.fftfreq(img.shape[0])[:, None]
    fx = np.fft.fftfreq(img.shape[1])[None, :]
    ramp = np.exp(-2j * np.pi * (fy * shift_px[0] + fx * shift_px[1]))
    return np.fft.ifft2(np.fft.fft2(img) * ramp).real


def check_parallax_analytic():
    for scan, det, radius, rot in (((7, 10), (8, 6), 2.2, 0.0), ((9, 5), (7, 7), 2.6, 0.6), ((8, 8), (6, 6), 1.5, -1.1)):
        mask = disk_mask(det, radius)
        n = int(mask.sum())
        stack = random_stack(n, scan, seed=sum(scan))
        centred = stack.astype(np.float64) - stack.astype(np.float64).mean(axis=(1, 2), keepdims=True)
        scan_sampling = (1.5, 1.2)

        # zero aberrations: plain sum of the mean-subtracted images over the total aperture weight
        dp = build(DirectPtychography, stack, mask, rotation_angle=rot, aberration_coefs={}, scan_sampling=scan_sampling)
        w = aperture_weight(dp, mask, {}, rot)
        for bs in (1, 4, None):
            dp.reconstruct(deconvolution_kernel="parallax", parallax_flip_phase=False, max_batch_size=bs, verbose=False)
            close(dp.corrected_bf, centred.sum(0) / w, rtol=2e-4, what="zero-aberration parallax")
            close(dp.corrected_stack, centred / w, rtol=2e-4, what="zero-aberration parallax stack")

        # defocus + astigmatism: each image translated by grad(chi)/(2 pi) at its detector pixel
        C10, C12, phi12 = 700.0, 250.0, 0.3
        abers = {"C10": C10, "C12": C12, "phi12": phi12}
        dp = build(DirectPtychography, stack, mask, rotation_angle=rot, aberration_coefs=abers, scan_sampling=scan_sampling)
        old = build(OrigDirectPtychography, stack, mask, rotation_angle=rot, aberration_coefs=abers, scan_sampling=scan_sampling)
        w = aperture_weight(dp, mask, dp.aberration_coefs, rot)
        # detector coordinates (1/A) of the mask pixels, passively rotated, in float64
        ky0 = np.fft.fftfreq(det[0], float(dp.sampling[0]))[:, None] * np.ones(det)
        kx0 = np.fft.fftfreq(det[1], float(dp.sampling[1]))[None, :] * np.ones(det)
        c, s = np.cos(-rot), np.sin(-rot)
        ka, kb = ky0 * c + kx0 * s, -ky0 * s + kx0 * c
        alpha = np.hypot(ka, kb) * dp.wavelength
        phi = np.arctan2(kb, ka)
        dchi_da = alpha * (C10 + C12 * np.cos(2 * (phi - phi12)))
        dchi_dphi = -alpha * C12 * np.sin(2 * (phi - phi12))
        sx = (np.cos(phi) * dchi_da - np.sin(phi) * dchi_dphi)[mask]  # Angstrom, first scan axis
        sy = (np.sin(phi) * dchi_da + np.cos(phi) * dchi_dphi)[mask]
        expected = np.stack([
            fourier_shift_np(centred[i], (sx[i] / scan_sampling[0], sy[i] / scan_sampling[1]))
            for i in range(n)
        ])
        for bs in (1, 3, None):
            kw = dict(deconvolution_kernel="prlx", parallax_flip_phase=False, max_batch_size=bs)
            out = recon(dp, **kw)
            close(out, expected / w, rtol=5e-4, what=f"shifted parallax stack {scan} bs={bs}")
            close(dp.corrected_bf, expected.sum(0) / w, rtol=5e-4, what="shifted parallax sum")
            assert torch.equal(out, recon(old, **kw))


# ----------------------------------------------------------------------------------------
# 5. repeated calls / determinism / state
# ----------------------------------------------------------------------------------------
def check_repeatability():
    cfg = CONFIGS[0]
    mask = disk_mask(cfg["det"], cfg["radius"])
    stack = random_stack(int(mask.sum()), cfg["scan"], seed=99)
    dp = build_cfg(DirectPtychography, cfg, stack, mask)
    fourier_before = dp._vbf_fourier.clone()
    first = {k: recon(dp, deconvolution_kernel=k, max_batch_size=4, upsampling_factor=2) for k in KERNELS}
    # interleave other kernels / masks, then repeat: identical results, cached Fourier stack untouched
    sub = mask & disk_mask(cfg["det"], 1.1)
    for k in reversed(KERNELS):
        recon(dp, deconvolution_kernel=k, bf_mask=sub, max_batch_size=2)
    for k in KERNELS:
        again = recon(dp, deconvolution_kernel=k, max_batch_size=4, upsampling_factor=2)
        assert torch.equal(again, first[k]), k
    assert torch.equal(dp._vbf_fourier, fourier_before)
    assert dp.reconstruct(verbose=False) is dp


if __name__ == "__main__":
    n = check_equivalence_and_batch_invariance()
    print(f"old/new bit-exact comparisons + batch invariance: {n} cases OK ({time.time() - T0:.1f}s)")
    check_linearity()
    print(f"linearity OK ({time.time() - T0:.1f}s)")
    check_submask_recombination()
    print(f"sub-mask recombination OK ({time.time() - T0:.1f}s)")
    check_parallax_analytic()
    print(f"analytic parallax limits OK ({time.time() - T0:.1f}s)")
    check_repeatability()
    print(f"repeatability OK ({time.time() - T0:.1f}s)")
    print("PASS")
