"""C15 demo: verbatim ORIGINAL copies of the edited functions vs the tree under test
(bit-for-bit), plus direct assertions of property C15.  Exits 0 on success."""
import matplotlib

matplotlib.use("Agg")

ORIG_BILINEAR_KDE = 'def bilinear_kde(\n    xa: NDArray,\n    ya: NDArray,\n    values: NDArray,\n    output_shape: Tuple[int, int],\n    kde_sigma: float,\n    pad_value: float = 0.0,\n    threshold: float = 1e-3,\n    lowpass_filter: bool = False,\n    max_batch_size: Optional[int] = None,\n    return_pix_count: bool = False,\n) -> NDArray | tuple[NDArray, NDArray]:\n    """\n    Compute a bilinear kernel density estimate (KDE) with smooth threshold masking.\n\n    Parameters\n    ----------\n    xa : NDArray\n        Vertical (row) coordinates of input points.\n    ya : NDArray\n        Horizontal (col) coordinates of input points.\n    values : NDArray\n        Weights for each (xa, ya) point.\n    output_shape : tuple of int\n        Output image shape (rows, cols).\n    kde_sigma : float\n        Standard deviation of Gaussian KDE smoothing.\n    pad_value : float, default = 1.0\n        Value to return when KDE support is too low.\n    threshold : float, default = 1e-3\n        Minimum counts_KDE value for trusting the output signal.\n    lowpass_filter : bool, optional\n        If True, apply sinc-based inverse filtering to deconvolve the kernel.\n    max_batch_size : int or None, optional\n        Max number of points to process in one batch.\n\n    Returns\n    -------\n    NDArray\n        The estimated KDE image with threshold-masked output.\n    """\n    rows, cols = output_shape\n    xF = np.floor(xa.ravel()).astype(int)\n    yF = np.floor(ya.ravel()).astype(int)\n    dx = xa.ravel() - xF\n    dy = ya.ravel() - yF\n    w = values.ravel()\n\n    pix_count = np.zeros(rows * cols, dtype=np.float32)\n    pix_output = np.zeros(rows * cols, dtype=np.float32)\n\n    if max_batch_size is None:\n        max_batch_size = xF.shape[0]\n\n    for start, end in generate_batches(xF.shape[0], max_batch=max_batch_size):\n        for dx_off, dy_off, weights in [\n            (0, 0, (1 - dx[start:end]) * (1 - dy[start:end])),\n            (1, 0, dx[start:end] * (1 - dy[start:end])),\n            (0, 1, (1 - dx[start:end]) * dy[start:end]),\n            (1, 1, dx[start:end] * dy[start:end]),\n        ]:\n            inds = [xF[start:end] + dx_off, yF[start:end] + dy_off]\n            inds_1D = np.ravel_multi_index(inds, dims=output_shape, mode="wrap")\n\n            pix_count += np.bincount(inds_1D, weights=weights, minlength=rows * cols)\n            pix_output += np.bincount(\n                inds_1D, weights=weights * w[start:end], minlength=rows * cols\n            )\n\n    # Reshape to 2D and apply Gaussian KDE\n    pix_count = pix_count.reshape(output_shape)\n    pix_output = pix_output.reshape(output_shape)\n\n    pix_count = gaussian_filter(pix_count, kde_sigma)\n    pix_output = gaussian_filter(pix_output, kde_sigma)\n\n    # Final image\n    weight = np.minimum(pix_count / threshold, 1.0)\n    image = pad_value * (1.0 - weight) + weight * (pix_output / np.maximum(pix_count, 1e-8))\n\n    if lowpass_filter:\n        f_img = np.fft.fft2(image)\n        fx = np.fft.fftfreq(rows)\n        fy = np.fft.fftfreq(cols)\n        f_img /= np.sinc(fx)[:, None]\n        f_img /= np.sinc(fy)[None, :]\n        image = np.real(np.fft.ifft2(f_img))\n\n        if return_pix_count:\n            f_img = np.fft.fft2(pix_count)\n            f_img /= np.sinc(fx)[:, None]\n            f_img /= np.sinc(fy)[None, :]\n            pix_count = np.real(np.fft.ifft2(f_img))\n\n    if return_pix_count:\n        return image, pix_count\n    else:\n        return image\n'

ORIG_INTERPOLATOR = 'class DriftInterpolator:\n    def __init__(\n        self,\n        input_shape,\n        output_shape,\n        scan_fast,\n        scan_slow,\n        pad_value,\n        kde_sigma,\n    ):\n        self.input_shape = input_shape\n        self.output_shape = output_shape\n        self.scan_fast = scan_fast\n        self.scan_slow = scan_slow\n        self.pad_value = pad_value\n        self.kde_sigma = kde_sigma\n\n        self.rows_input = np.arange(input_shape[0])\n        self.cols_input = np.arange(input_shape[1])\n        self.u = np.linspace(0, 1, input_shape[1])\n\n    def transform_rows(\n        self,\n        knots_row: NDArray,\n    ):\n        num_knots = knots_row.shape[-1]\n        basis = np.linspace(0, 1, num_knots)\n\n        if num_knots == 1:\n            xa = knots_row[0] + self.u[None, :] * self.scan_fast[0] * (self.input_shape[1] - 1)\n            ya = knots_row[1] + self.u[None, :] * self.scan_fast[1] * (self.input_shape[1] - 1)\n        elif num_knots == 2:\n            xa = interp1d(basis, knots_row[0], kind="linear", assume_sorted=True)(self.u)\n            ya = interp1d(basis, knots_row[1], kind="linear", assume_sorted=True)(self.u)\n        else:\n            kind = "quadratic" if num_knots == 3 else "cubic"\n            xa = interp1d(\n                basis,\n                knots_row[0],\n                kind=kind,\n                fill_value="extrapolate",\n                assume_sorted=True,\n            )(self.u)\n            ya = interp1d(\n                basis,\n                knots_row[1],\n                kind=kind,\n                fill_value="extrapolate",\n                assume_sorted=True,\n            )(self.u)\n\n        return xa, ya\n\n    def transform_coordinates(\n        self,\n        knots: NDArray,\n    ):\n        num_knots = knots.shape[-1]\n\n        if num_knots == 1:\n            # vectorized version for speed\n            xa, ya = self.transform_rows(knots)\n        else:\n            xa = np.zeros(self.input_shape)\n            ya = np.zeros(self.input_shape)\n            for i in range(self.input_shape[0]):\n                xa[i], ya[i] = self.transform_rows(knots[:, i])\n\n        return xa, ya\n\n    def warp_image(\n        self,\n        image: NDArray,\n        knots: NDArray,  # shape: (2, rows, num_knots)\n        kde_sigma=None,\n        output_shape=None,\n        pad_value=None,\n        upsample_factor=None,\n    ) -> NDArray:\n        xa, ya = self.transform_coordinates(\n            knots,\n        )\n\n        if kde_sigma is None:\n            kde_sigma = self.kde_sigma\n\n        if output_shape is None:\n            output_shape = self.output_shape\n\n        if pad_value is None:\n            pad_value = self.pad_value\n\n        if upsample_factor is None:\n            upsample_factor = 1.0\n\n        image_interp, weight_interp = bilinear_kde(\n            xa=xa * upsample_factor,  # rows\n            ya=ya * upsample_factor,  # cols\n            values=image,\n            output_shape=np.round(np.array(output_shape) * upsample_factor).astype("int"),\n            kde_sigma=kde_sigma * upsample_factor,\n            pad_value=pad_value,\n            return_pix_count=True,\n        )\n\n        return image_interp, weight_interp\n'

ORIG_PREPROCESS = 'def preprocess(\n    self,\n    pad_fraction: float = 0.25,\n    pad_value: Union[float, str, List[float]] = "median",\n    kde_sigma: float = 0.5,\n    number_knots: int = 1,\n    show_merged: bool = False,\n    show_images: bool = False,\n    show_knots: bool = True,\n    **kwargs,\n):\n    # Validators\n    validated_pad_value = validate_pad_value(pad_value, self._images)\n\n    # Input data\n    self.pad_fraction = pad_fraction\n    self._pad_value = validated_pad_value\n    self.kde_sigma = kde_sigma\n    self.number_knots = number_knots\n\n    # Derived data\n    self.scan_direction = np.deg2rad(self.scan_direction_degrees)\n    self.scan_fast = np.stack(\n        [\n            np.sin(-self.scan_direction),\n            np.cos(-self.scan_direction),\n        ],\n        axis=1,\n    )\n    self.scan_slow = np.stack(\n        [\n            np.cos(-self.scan_direction),\n            -np.sin(-self.scan_direction),\n        ],\n        axis=1,\n    )\n    self.shape = (\n        len(self.images),\n        int(np.round(self.images[0].shape[0] * (1 + self.pad_fraction) / 2) * 2),\n        int(np.round(self.images[1].shape[1] * (1 + self.pad_fraction) / 2) * 2),\n    )\n\n    # Initialize Bezier knots and scan vectors for scanlines\n    self.knots = []\n    for a0 in range(self.shape[0]):\n        shape = self.images[a0].shape\n\n        v_slow = np.linspace(-(shape[0] - 1) / 2, (shape[0] - 1) / 2, shape[0])\n        u_fast = np.linspace(-(shape[1] - 1) / 2, (shape[1] - 1) / 2, self.number_knots)\n\n        xa = (\n            (self.shape[1] - 1) / 2\n            + u_fast[None, :] * self.scan_fast[a0, 0]\n            + v_slow[:, None] * self.scan_slow[a0, 0]\n        )\n        ya = (\n            (self.shape[2] - 1) / 2\n            + u_fast[None, :] * self.scan_fast[a0, 1]\n            + v_slow[:, None] * self.scan_slow[a0, 1]\n        )\n\n        self.knots.append(np.stack([xa, ya], axis=0))\n\n    # Precompute the interpolator for all images\n    self.interpolator = []\n    for a0 in range(self.shape[0]):\n        self.interpolator.append(\n            DriftInterpolator(\n                input_shape=self.images[a0].shape,\n                output_shape=self.shape[1:],\n                scan_fast=self.scan_fast[a0],\n                scan_slow=self.scan_slow[a0],\n                pad_value=self.pad_value[a0],\n                kde_sigma=self.kde_sigma,\n            )\n        )\n\n    # Generate initial resampled images\n    self.images_warped = Dataset3d.from_shape(self.shape)\n    self.weights_warped = Dataset3d.from_shape(self.shape)\n    for ind in range(self.shape[0]):\n        self.images_warped.array[ind], self.weights_warped.array[ind] = self.interpolator[\n            ind\n        ].warp_image(\n            self.images[ind].array,\n            self.knots[ind],\n        )\n\n    # Error tracking\n    self.calculate_error(0)\n\n    # Plots\n    kwargs.pop("title", None)\n    if show_merged:\n        self.plot_merged_images(show_knots=show_knots, title="Merged: initial", **kwargs)\n    if show_images:\n        self.plot_transformed_images(\n            show_knots=show_knots,\n            title=[f"Image {i}: initial" for i in range(self.shape[0])],\n            **kwargs,\n        )\n\n    return self\n'

ORIG_ALIGN_TRANSLATION = 'def align_translation(\n    self,\n    upsample_factor: int = 8,\n    min_image_shift: Optional[float] = None,\n    max_image_shift: float = 32,\n    show_merged: bool = True,\n    show_images: bool = False,\n    show_knots: bool = True,\n    **kwargs,\n):\n    """\n    Solve for the translation between all images in DriftCorrection.images_warped\n    """\n\n    if not hasattr(self, "knots"):\n        print("\\033[91mNo knots found — running .preprocess() with default settings.\\033[0m")\n        self.preprocess()\n\n    # init\n    dxy = np.zeros((self.shape[0], 2))\n\n    # loop over images\n    F_ref = np.fft.fft2(self.images_warped.array[0])\n    for ind in range(1, self.shape[0]):\n        shifts, image_shift = cross_correlation_shift(\n            F_ref,\n            np.fft.fft2(self.images_warped.array[ind]),\n            upsample_factor=upsample_factor,\n            max_shift=max_image_shift,\n            fft_input=True,\n            fft_output=True,\n            return_shifted_image=True,\n        )\n\n        dxy[ind, :] = shifts\n        F_ref = F_ref * ind / (ind + 1) + image_shift / (ind + 1)\n\n    # Normalize dxy\n    dxy -= np.mean(dxy, axis=0)\n\n    # Minimum image shift\n    if min_image_shift is not None:\n        if np.linalg.norm(dxy[ind]) < min_image_shift:\n            dxy[ind] = 0.0\n\n    # Apply shifts to knots\n    for ind in range(self.shape[0]):\n        self.knots[ind][0] += dxy[ind, 0]\n        self.knots[ind][1] += dxy[ind, 1]\n\n    # Regenerate images\n    for ind in range(self.shape[0]):\n        self.images_warped.array[ind], self.weights_warped.array[ind] = self.interpolator[\n            ind\n        ].warp_image(\n            self.images[ind].array,\n            self.knots[ind],\n        )\n\n    # Plots\n    kwargs.pop("title", None)\n    if show_merged:\n        self.plot_merged_images(show_knots=show_knots, title="Merged: translation", **kwargs)\n    if show_images:\n        self.plot_transformed_images(\n            show_knots=show_knots,\n            title=[f"Image {i}: translation" for i in range(self.shape[0])],\n            **kwargs,\n        )\n\n    return self\n'

import itertools
import sys

import numpy as np

import quantem.core.utils.imaging_utils as IU
import quantem.imaging.drift as D

# ---------------------------------------------------------------------------
# Reference ("old") stack: verbatim originals executed in copies of the module
# namespaces, wired so that old code only ever calls old code.
# ---------------------------------------------------------------------------
ns_iu = dict(IU.__dict__)
exec(compile(ORIG_BILINEAR_KDE, "<orig imaging_utils>", "exec"), ns_iu)
orig_bilinear_kde = ns_iu["bilinear_kde"]

ns_d = dict(D.__dict__)
ns_d["bilinear_kde"] = orig_bilinear_kde
exec(compile(ORIG_INTERPOLATOR, "<orig DriftInterpolator>", "exec"), ns_d)
exec(compile(ORIG_PREPROCESS, "<orig preprocess>", "exec"), ns_d)
exec(compile(ORIG_ALIGN_TRANSLATION, "<orig align_translation>", "exec"), ns_d)
OrigInterpolator = ns_d["DriftInterpolator"]
assert OrigInterpolator is not D.DriftInterpolator


class OrigDrift(D.DriftCorrection):
    preprocess = ns_d["preprocess"]
    align_translation = ns_d["align_translation"]


def bits(a):
    a = np.asarray(a)
    return (a.dtype.str, a.shape, a.tobytes())


def same(a, b, what):
    if isinstance(a, (tuple, list)):
        assert type(a) is type(b) and len(a) == len(b), what
        for i, (x, y) in enumerate(zip(a, b)):
            same(x, y, f"{what}[{i}]")
        return
    assert bits(a) == bits(b), f"old != new for {what}"


def compare_state(new, old, what):
    assert new.shape == old.shape, what
    assert [type(v) for v in new.shape] == [type(v) for v in old.shape], what
    same(new.scan_fast, old.scan_fast, what + " scan_fast")
    same(new.scan_slow, old.scan_slow, what + " scan_slow")
    same(new.knots, old.knots, what + " knots")
    same(new.images_warped.array, old.images_warped.array, what + " images_warped")
    same(new.weights_warped.array, old.weights_warped.array, what + " weights_warped")
    same(new.error_track, old.error_track, what + " error_track")
    assert len(new.interpolator) == len(old.interpolator)
    for a, b in zip(new.interpolator, old.interpolator):
        assert tuple(a.input_shape) == tuple(b.input_shape)
        assert tuple(a.output_shape) == tuple(b.output_shape)
        same(a.scan_fast, b.scan_fast, what + " interp scan_fast")
        same(a.scan_slow, b.scan_slow, what + " interp scan_slow")
        same(a.pad_value, b.pad_value, what + " interp pad_value")
        assert a.kde_sigma == b.kde_sigma


rng = np.random.default_rng(1234)


def smooth_image(shape, seed):
    r = np.random.default_rng(seed)
    x = np.arange(shape[0])[:, None]
    y = np.arange(shape[1])[None, :]
    im = np.zeros(shape)
    for _ in range(5):
        cx, cy = r.uniform(2, shape[0] - 3), r.uniform(2, shape[1] - 3)
        s = r.uniform(1.0, 2.5)
        im += r.uniform(0.5, 1.0) * np.exp(-((x - cx) ** 2 + (y - cy) ** 2) / (2 * s * s))
    return im + 0.01 * r.random(shape)


SHAPES = [(16, 16), (12, 20), (21, 13), (9, 14)]
checked = 0

# ---------------------------------------------------------------------------
# 1. preprocess + align_translation, old vs new, bit for bit
# ---------------------------------------------------------------------------
configs = []
for i, shape in enumerate(SHAPES):
    for nk in (1, 2, 3, 4):
        n_img = 2 + (i + nk) % 3
        angles = [float(a) for a in rng.uniform(0, 360, n_img)]
        if nk == 1:
            angles[0], angles[1] = 0.0, 90.0
        pad = [0.0, 0.25, 0.4, 0.13][(i + nk) % 4]
        sig = [0.5, 1.0, 0.8][(i + 2 * nk) % 3]
        padv = ["median", "mean", 0.25, "min", "max"][(i + nk) % 5]
        up = [1, 4, 8][(i + nk) % 3]
        mins = [None, 0.5, 1e9][(i * 3 + nk) % 3]
        configs.append((shape, nk, n_img, angles, pad, sig, padv, up, mins))

for shape, nk, n_img, angles, pad, sig, padv, up, mins in configs:
    imgs = [smooth_image(shape, 100 + k) for k in range(n_img)]
    if isinstance(padv, str) and padv == "max":
        padv = [float(k) + 0.5 for k in range(n_img)]
    new = D.DriftCorrection.from_data([im.copy() for im in imgs], list(angles))
    old = OrigDrift.from_data([im.copy() for im in imgs], list(angles))
    assert type(old) is OrigDrift
    r_new = new.preprocess(pad_fraction=pad, pad_value=padv, kde_sigma=sig, number_knots=nk)
    r_old = old.preprocess(pad_fraction=pad, pad_value=padv, kde_sigma=sig, number_knots=nk)
    assert r_new is new and r_old is old
    tag = f"shape={shape} nk={nk} n={n_img} pad={pad}"
    compare_state(new, old, "preprocess " + tag)
    assert all(isinstance(o, OrigInterpolator) for o in old.interpolator)

    # coordinates through both interpolators (transform_rows / transform_coordinates)
    for ind in range(n_img):
        same(
            new.interpolator[ind].transform_coordinates(new.knots[ind]),
            old.interpolator[ind].transform_coordinates(old.knots[ind]),
            "transform_coordinates " + tag,
        )

    r_new = new.align_translation(
        upsample_factor=up, min_image_shift=mins, max_image_shift=6, show_merged=False
    )
    r_old = old.align_translation(
        upsample_factor=up, min_image_shift=mins, max_image_shift=6, show_merged=False
    )
    assert r_new is new and r_old is old
    compare_state(new, old, "align_translation " + tag)
    # a second pass (state now carries non-trivial knots)
    new.align_translation(upsample_factor=up, show_merged=False)
    old.align_translation(upsample_factor=up, show_merged=False)
    compare_state(new, old, "align_translation#2 " + tag)
    checked += 1

# ---------------------------------------------------------------------------
# 2. DriftInterpolator methods directly, old vs new
# ---------------------------------------------------------------------------
for shape, nk in itertools.product(SHAPES, (1, 2, 3, 4)):
    th = rng.uniform(0, 2 * np.pi)
    kw = dict(
        input_shape=shape,
        output_shape=(shape[0] + 6, shape[1] + 8),
        scan_fast=np.array([np.sin(-th), np.cos(-th)]),
        scan_slow=np.array([np.cos(-th), -np.sin(-th)]),
        pad_value=0.3,
        kde_sigma=0.7,
    )
    a, b = D.DriftInterpolator(**kw), OrigInterpolator(**kw)
    knots = rng.uniform(2, min(shape) + 2, (2, shape[0], nk))
    same(a.transform_rows(knots[:, 3]), b.transform_rows(knots[:, 3]), "transform_rows")
    if nk == 1:
        same(a.transform_rows(knots), b.transform_rows(knots), "transform_rows vectorised")
    same(a.transform_coordinates(knots), b.transform_coordinates(knots), "transform_coordinates")
    image = rng.random(shape)
    for extra in (
        {},
        {"kde_sigma": 1.1},
        {"output_shape": (shape[0] + 10, shape[1] + 3)},
        {"pad_value": 0.9},
        {"upsample_factor": 2},
        {"kde_sigma": 0.4, "output_shape": (shape[0] + 9, shape[1] + 9), "pad_value": 0.0,
         "upsample_factor": 1.5},
    ):
        out_a = a.warp_image(image, knots, **extra)
        out_b = b.warp_image(image, knots, **extra)
        assert isinstance(out_a, tuple) and len(out_a) == 2
        same(out_a, out_b, f"warp_image {extra}")
    checked += 1

# ---------------------------------------------------------------------------
# 3. bilinear_kde directly, old vs new
# ---------------------------------------------------------------------------
for shape in SHAPES:
    out_shape = (shape[0] + 5, shape[1] + 7)
    xa = rng.uniform(-3, out_shape[0] + 3, shape)  # includes wrap-around points
    ya = rng.uniform(-3, out_shape[1] + 3, shape)
    vals = rng.random(shape)
    for kwargs in (
        {},
        {"return_pix_count": True},
        {"return_pix_count": True, "max_batch_size": 17},
        {"lowpass_filter": True},
        {"lowpass_filter": True, "return_pix_count": True, "pad_value": 0.5, "threshold": 0.01},
        {"max_batch_size": 5, "pad_value": 2.0},
    ):
        for out_arg in (out_shape, np.array(out_shape), list(out_shape)):
            o_new = IU.bilinear_kde(xa, ya, vals, out_arg, 0.6, **kwargs)
            o_old = orig_bilinear_kde(xa, ya, vals, out_arg, 0.6, **kwargs)
            assert type(o_new) is type(o_old)
            same(o_new, o_old, f"bilinear_kde {kwargs}")
    # bad output_shape must fail identically
    for bad in ((4, 5, 6), (4,)):
        errs = []
        for f in (IU.bilinear_kde, orig_bilinear_kde):
            try:
                f(xa, ya, vals, bad, 0.6)
                errs.append(None)
            except Exception as e:  # noqa: BLE001
                errs.append((type(e), str(e)))
        assert errs[0] == errs[1] and errs[0] is not None, errs
    checked += 1

# ---------------------------------------------------------------------------
# 4. The property itself, on the code under test
# ---------------------------------------------------------------------------
for shape in SHAPES:
    base = smooth_image(shape, 7)
    for angle, pad, n_img in ((0.0, 0.25, 2), (37.0, 0.3, 3), (90.0, 0.25, 4), (215.5, 0.4, 2)):
        coords = []
        for nk in (1, 2, 3, 4):
            dc = D.DriftCorrection.from_data(
                [base.copy() for _ in range(n_img)], [angle] * n_img
            ).preprocess(pad_fraction=pad, number_knots=nk, kde_sigma=0.5)
            th = np.deg2rad(angle)
            r = np.arange(shape[0])[:, None] - (shape[0] - 1) / 2
            c = np.arange(shape[1])[None, :] - (shape[1] - 1) / 2
            # scan_slow = (cos, sin)(th), scan_fast = (-sin, cos)(th)
            ex = (dc.shape[1] - 1) / 2 + r * np.cos(th) - c * np.sin(th)
            ey = (dc.shape[2] - 1) / 2 + r * np.sin(th) + c * np.cos(th)
            for ind in range(n_img):
                xa, ya = dc.interpolator[ind].transform_coordinates(dc.knots[ind])
                assert xa.shape == shape and ya.shape == shape
                assert np.allclose(xa, ex, atol=1e-9) and np.allclose(ya, ey, atol=1e-9), (
                    shape, angle, nk)
                total = float(dc.weights_warped.array[ind].sum())
                assert abs(total - shape[0] * shape[1]) < 1e-3 * shape[0] * shape[1], total
            coords.append(dc.interpolator[0].transform_coordinates(dc.knots[0]))

            knots_before = [k.copy() for k in dc.knots]
            dc.align_translation(upsample_factor=8, show_merged=False)
            for k0, k1 in zip(knots_before, dc.knots):
                assert np.allclose(k0, k1, atol=1e-6), np.abs(k0 - k1).max()
        for other in coords[1:]:
            assert np.allclose(coords[0][0], other[0], atol=1e-9)
            assert np.allclose(coords[0][1], other[1], atol=1e-9)
        checked += 1

print(f"OK: {checked} groups compared bit-for-bit / property held")
sys.exit(0)
