"""C16 / patch 2: Fresnel propagator kernels (ProbeBase._compute_propagator_arrays).

Checks (a) the current implementation is bit-identical (values and tilt gradients) to a verbatim
copy of the original method and (b) the propagation identities: unit-modulus kernels, intensity
preservation, additive composition, propagate(+dz) then propagate(-dz) == identity, and a
pure-phase multislice object conserving the probe intensity on the detector for any number of
slices / probe modes.
"""

import warnings
from types import SimpleNamespace

import numpy as np
import torch
from torch import nn

from quantem.core.utils.utils import electron_wavelength_angstrom
from quantem.diffractive_imaging.detector_models import DetectorPixelated
from quantem.diffractive_imaging.object_models import ObjectBase
from quantem.diffractive_imaging.probe_models import ProbeBase
from quantem.diffractive_imaging.ptychography_base import PtychographyBase

warnings.filterwarnings("ignore")


# ---------------------------------------------------------------- verbatim original
def orig_compute_propagator_arrays(self, sampling, num_slices, slice_thicknesses):
    if num_slices == 1:
        return torch.tensor([])

    kr, kc = tuple(
        torch.fft.fftfreq(n, d, device=self.device) for n, d in zip(self.roi_shape, sampling)
    )
    k2 = (kr[:, None] ** 2 + kc[None] ** 2).to(torch.complex64)  # broadcasting to (Sr, Sc)
    probe_energy = self.probe_params["energy"]
    if probe_energy is None:
        raise ValueError("probe_model energy must be set to compute propagators.")
    wavelength = electron_wavelength_angstrom(probe_energy)
    propagators = torch.empty(
        (num_slices - 1, kr.shape[0], kc.shape[0]), dtype=torch.complex64, device=self.device
    )

    theta_r, theta_c = self.probe_tilt
    dz = torch.tensor(slice_thicknesses, device=self.device, dtype=k2.dtype)  # (T,)
    phase_factor = -1.0j * torch.pi * wavelength * dz[:, None, None]  # (T,1,1)
    propagators = torch.exp(phase_factor * k2)  # (T, Sr, Sc)
    if theta_r != 0:
        kr_term = 1.0j * (-2 * torch.pi * dz[:, None, None] * torch.tan(theta_r / 1e3))
        propagators = propagators * torch.exp(kr_term * kr[None, :, None])
    if theta_c != 0:
        kc_term = 1.0j * (-2 * torch.pi * dz[:, None, None] * torch.tan(theta_c / 1e3))
        propagators = propagators * torch.exp(kc_term * kc[None, None, :])

    return propagators


def stub(roi_shape, energy, tilt, learn=False):
    return SimpleNamespace(
        device="cpu",
        roi_shape=np.asarray(roi_shape),
        probe_params={"energy": energy},
        probe_tilt=nn.Parameter(torch.tensor(tilt, dtype=torch.float32), requires_grad=learn),
    )


def new_compute(st, sampling, num_slices, thick):
    return ProbeBase._compute_propagator_arrays(st, sampling, num_slices, thick)


def same_exception(f_old, f_new, what):
    e_old = e_new = None
    try:
        f_old()
    except Exception as e:  # noqa: BLE001
        e_old = e
    try:
        f_new()
    except Exception as e:  # noqa: BLE001
        e_new = e
    assert e_old is not None, what + ": original did not raise"
    assert type(e_old) is type(e_new) and str(e_old) == str(e_new), (what, e_old, e_new)


rng = np.random.default_rng(162)
ROIS = [(8, 8), (7, 9), (12, 5), (1, 6), (16, 11)]
SAMPLINGS = [(0.2, 0.2), (0.15, 0.31), np.array([0.4, 0.1])]
TILTS = [(0.0, 0.0), (3.0, 0.0), (0.0, -4.5), (2.5, 7.0), (-12.0, 0.25)]
ENERGIES = [60e3, 80e3, 300e3]
THICK = {
    2: [[5.0], np.array([12.5]), [-5.0], [0.0]],
    3: [[5.0, 5.0], np.array([2.0, 11.0]), torch.tensor([3.0, -3.0])],
    5: [[1.0, 2.0, 3.0, 4.0], np.full(4, 7.5)],
}

n_cmp = 0
for roi in ROIS:
    for samp in SAMPLINGS:
        for tilt in TILTS:
            for energy in ENERGIES:
                # single slice: no propagators at all
                a = orig_compute_propagator_arrays(stub(roi, energy, tilt), samp, 1, [1.0])
                b = new_compute(stub(roi, energy, tilt), samp, 1, [1.0])
                assert a.shape == b.shape == (0,) and a.dtype == b.dtype
                for ns, thick_list in THICK.items():
                    for thick in thick_list:
                        old = orig_compute_propagator_arrays(stub(roi, energy, tilt), samp, ns, thick)
                        new = new_compute(stub(roi, energy, tilt), samp, ns, thick)
                        assert old.dtype == new.dtype == torch.complex64
                        assert tuple(new.shape) == (ns - 1, *roi), new.shape
                        assert torch.equal(old, new), ("propagators", roi, samp, tilt, energy, ns)
                        assert not new.requires_grad
                        assert torch.allclose(new.abs(), torch.ones(new.shape), atol=1e-5), "unit modulus"
                        n_cmp += 1

# learnable tilt: same values, same gradient w.r.t. the tilt parameter
for roi in ROIS:
    for tilt in TILTS:
        so, sn = stub(roi, 80e3, tilt, learn=True), stub(roi, 80e3, tilt, learn=True)
        w = torch.tensor(rng.normal(size=(2, *roi)) + 1j * rng.normal(size=(2, *roi))).to(torch.complex64)
        old = orig_compute_propagator_arrays(so, (0.2, 0.3), 3, [4.0, 9.0])
        new = new_compute(sn, (0.2, 0.3), 3, [4.0, 9.0])
        assert torch.equal(old.detach(), new.detach())
        assert old.requires_grad == new.requires_grad
        if old.requires_grad:
            (old * w).real.sum().backward()
            (new * w).real.sum().backward()
            assert torch.equal(so.probe_tilt.grad, sn.probe_tilt.grad), ("tilt grad", roi, tilt)
        n_cmp += 1

# same failures for bad inputs
same_exception(
    lambda: orig_compute_propagator_arrays(stub((8, 8), None, (0, 0)), (0.2, 0.2), 2, [1.0]),
    lambda: new_compute(stub((8, 8), None, (0, 0)), (0.2, 0.2), 2, [1.0]),
    "missing energy",
)
same_exception(
    lambda: orig_compute_propagator_arrays(stub((8, 8), 80e3, (1.0, 2.0)), (0.2, 0.2), 2, 1.0),
    lambda: new_compute(stub((8, 8), 80e3, (1.0, 2.0)), (0.2, 0.2), 2, 1.0),
    "scalar thickness",
)
same_exception(
    lambda: orig_compute_propagator_arrays(stub((8, 8), 80e3, (1.0, 2.0)), (0.2, 0.2), 0, [1.0]),
    lambda: new_compute(stub((8, 8), 80e3, (1.0, 2.0)), (0.2, 0.2), 0, [1.0]),
    "zero slices",
)
same_exception(
    lambda: orig_compute_propagator_arrays(stub((8, 8), 80e3, (1.0, 2.0, 3.0)), (0.2, 0.2), 2, [1.0]),
    lambda: new_compute(stub((8, 8), 80e3, (1.0, 2.0, 3.0)), (0.2, 0.2), 2, [1.0]),
    "three tilt components",
)


# ---------------------------------------------------------------- propagation identities
def prop_base(arr, kern):
    return PtychographyBase._propagate_array(None, arr, kern)


def prop_obj(arr, kern):
    return ObjectBase._propagate_array(None, arr, kern)


for roi in ROIS:
    for tilt in TILTS:
        st = stub(roi, 80e3, tilt)
        d1, d2 = 6.0, 14.5
        P = new_compute(st, (0.2, 0.3), 5, [d1, -d1, d2, d1 + d2])
        wave = torch.tensor(rng.normal(size=(2, 3, *roi)) + 1j * rng.normal(size=(2, 3, *roi))).to(
            torch.complex64
        )
        tot = (wave.abs() ** 2).sum(dim=(-2, -1))
        for prop in (prop_base, prop_obj):
            fwd = prop(wave, P[0])
            assert torch.allclose((fwd.abs() ** 2).sum(dim=(-2, -1)), tot, rtol=1e-4), "energy"
            back = prop(fwd, P[1])
            assert torch.allclose(back, wave, atol=1e-4), "dz then -dz is the identity"
            two = prop(prop(wave, P[0]), P[2])
            one = prop(wave, P[3])
            assert torch.allclose(two, one, atol=1e-4), "additive composition"
            adj = prop(fwd, torch.conj(P[0]))
            assert torch.allclose(adj, wave, atol=1e-4), "conjugate kernel is the inverse"

# pure-phase multislice object: detector sum == probe intensity, any #slices / #modes
det = DetectorPixelated()
for roi in ROIS:
    for ns in (1, 2, 4):
        for nprobes in (1, 3):
            st = stub(roi, 80e3, (2.0, -3.0))
            props = new_compute(st, (0.25, 0.2), ns, [7.0] * (ns - 1))
            model = SimpleNamespace(num_slices=ns, _propagators=props)
            model._propagate_array = lambda a, k: PtychographyBase._propagate_array(model, a, k)
            batch = 4
            probes = torch.tensor(
                rng.normal(size=(nprobes, batch, *roi)) + 1j * rng.normal(size=(nprobes, batch, *roi))
            ).to(torch.complex64)
            phase = torch.tensor(rng.uniform(-3, 3, size=(ns, batch, *roi)), dtype=torch.float32)
            patches = torch.exp(1.0j * phase)[:, None]  # (ns, 1, batch, r, c)
            prop_probes, overlap = PtychographyBase.overlap_projection(model, patches, probes)
            assert prop_probes.shape[0] == ns
            inten = det.forward(overlap)  # (batch, r, c)
            want = (probes.abs() ** 2).sum(dim=(0, -2, -1))
            assert torch.allclose(inten.sum(dim=(-2, -1)), want, rtol=2e-4), ("pure phase", roi, ns, nprobes)

print(f"PASS ({n_cmp} old/new propagator comparisons bit-identical; propagation identities hold)")
