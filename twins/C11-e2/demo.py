"""Demo for C11 patch 2: multi-cell (slice / fancy) retrieval and assignment in
Vector.get_data, Vector.set_data and Vector.__setitem__.

Two twin vectors are driven through the same random operation history: one
through the methods of the installed module, the other through verbatim copies
of the ORIGINAL methods.  After every step both must have produced the same
outcome (result, or exception type + message) and hold the same state - also
when an exception was raised half-way through a multi-cell assignment.  Every
successful step is additionally checked against a pure-python reference model
(dict: cell index -> rows), and the structural invariants of the property are
asserted (every populated cell is 2-D with one column per field).
"""

import itertools
from typing import Any, List, Tuple, Union

import numpy as np
from numpy.typing import NDArray

from quantem.core.datastructures.vector import Vector, _FieldView


# ----------------------------------------------------------------------------
# Verbatim copies of the ORIGINAL methods (docstrings dropped, renamed)
# ----------------------------------------------------------------------------
def orig_get_data(
    self, *indices: Union[int, slice, List[int], np.ndarray[Any, np.dtype[Any]]]
) -> Union[NDArray, List[NDArray]]:
    if len(indices) != len(self._shape):
        raise ValueError(f"Expected {len(self._shape)} indices, got {len(indices)}")

    # Handle fancy indexing and slicing
    def get_indices(dim_idx: Any, dim_size: int) -> np.ndarray:
        if isinstance(dim_idx, slice):
            start, stop, step = dim_idx.indices(dim_size)
            return np.arange(start, stop, step)
        elif isinstance(dim_idx, (np.ndarray, list)):
            idx = np.asarray(dim_idx)
            if np.any((idx < 0) | (idx >= dim_size)):
                raise IndexError(f"Index out of bounds for axis with size {dim_size}")
            return idx
        elif isinstance(dim_idx, (int, np.integer)):
            if dim_idx < 0 or dim_idx >= dim_size:
                raise IndexError(
                    f"Index {dim_idx} out of bounds for axis with size {dim_size}"
                )
            return np.array([dim_idx])
        return np.arange(dim_size)

    # Get indices for each dimension
    indices_arrays = [get_indices(i, s) for i, s in zip(indices, self._shape)]

    # If all indices are single integers, return a single array
    if all(len(i) == 1 for i in indices_arrays):
        ref = self._data
        for idx in (i[0] for i in indices_arrays):
            ref = ref[idx]
        return ref

    # Create result structure for fancy indexing
    result = []
    for idx in np.ndindex(*[len(i) for i in indices_arrays]):
        src_idx = tuple(ind[i] for ind, i in zip(indices_arrays, idx))
        ref = self._data
        for i in src_idx:
            ref = ref[i]
        result.append(ref)

    return result


def orig_set_data(
    self,
    value: Union[NDArray, List[NDArray]],
    *indices: Union[int, slice, List[int], np.ndarray[Any, np.dtype[Any]]],
) -> None:
    if len(indices) != len(self._shape):
        raise ValueError(f"Expected {len(self._shape)} indices, got {len(indices)}")

    # Handle fancy indexing and slicing
    def get_indices(dim_idx: Any, dim_size: int) -> np.ndarray:
        if isinstance(dim_idx, slice):
            start, stop, step = dim_idx.indices(dim_size)
            return np.arange(start, stop, step)
        elif isinstance(dim_idx, (np.ndarray, list)):
            idx = np.asarray(dim_idx)
            if np.any((idx < 0) | (idx >= dim_size)):
                raise IndexError(f"Index out of bounds for axis with size {dim_size}")
            return idx
        elif isinstance(dim_idx, (int, np.integer)):
            if dim_idx < 0 or dim_idx >= dim_size:
                raise IndexError(
                    f"Index {dim_idx} out of bounds for axis with size {dim_size}"
                )
            return np.array([dim_idx])
        return np.arange(dim_size)

    # Get indices for each dimension
    indices_arrays = [get_indices(i, s) for i, s in zip(indices, self._shape)]

    # If all indices are single integers, handle as single value
    if all(len(i) == 1 for i in indices_arrays):
        if not isinstance(value, np.ndarray):
            raise TypeError(f"Value must be a numpy array, got {type(value).__name__}")
        if value.ndim != 2 or value.shape[1] != self.num_fields:
            raise ValueError(
                f"Expected a numpy array with shape (_, {self.num_fields}), got {value.shape}"
            )
        ref = self._data
        for idx in (i[0] for i in indices_arrays[:-1]):
            ref = ref[idx]
        ref[indices_arrays[-1][0]] = value
        return

    # Handle fancy indexing
    if not isinstance(value, list):
        raise TypeError("For fancy indexing, value must be a list of numpy arrays")

    total_indices = int(np.prod([len(i) for i in indices_arrays]))
    if len(value) != total_indices:
        raise ValueError(f"Expected {total_indices} arrays, got {len(value)}")

    # Validate and set values
    for array_idx, idx in enumerate(np.ndindex(*[len(i) for i in indices_arrays])):
        src_idx = tuple(ind[i] for ind, i in zip(indices_arrays, idx))
        if not isinstance(value[array_idx], np.ndarray):
            raise TypeError(f"Expected numpy array, got {type(value[array_idx]).__name__}")
        if value[array_idx].ndim != 2 or value[array_idx].shape[1] != self.num_fields:
            raise ValueError(
                f"Expected array with shape (_, {self.num_fields}), got {value[array_idx].shape}"
            )
        ref = self._data
        for i in src_idx[:-1]:
            ref = ref[i]
        ref[src_idx[-1]] = value[array_idx]


def orig_setitem(
    self,
    idx: Union[Tuple[Union[int, slice, List[int]], ...], int, slice, List[int], str],
    value: Union[NDArray, List[NDArray]],
) -> None:
    if isinstance(idx, str):
        if idx not in self._fields:
            raise KeyError(f"Field '{idx}' not found.")
        field_view = _FieldView(self, idx)
        field_view.set_flattened(value)
        return

    # Normalize idx to tuple
    normalized: Tuple[Any, ...] = (idx,) if not isinstance(idx, tuple) else idx

    # Convert lists/arrays to ndarray
    idx_converted: Tuple[Union[int, slice, np.ndarray[Any, np.dtype[Any]]], ...] = tuple(
        np.asarray(i) if isinstance(i, (list, np.ndarray)) else i for i in normalized
    )

    # Check if we're doing slice‐ or array‐based (multi‐cell) indexing
    has_fancy = any(
        isinstance(i, slice) or (isinstance(i, np.ndarray) and i.size > 1)
        for i in idx_converted[: len(self.shape)]
    )

    if has_fancy:
        # If user passed a Vector, extract its cell arrays
        if isinstance(value, Vector):

            def _flatten_cells(data):
                if isinstance(data, np.ndarray):
                    return [data]
                out = []
                for sub in data:
                    out.extend(_flatten_cells(sub))
                return out

            value = _flatten_cells(value._data)

        # For fancy indexing, value should be a list of arrays
        if not isinstance(value, list):
            raise TypeError(
                "For fancy/slice indexing, value must be a list of numpy arrays or a Vector"
            )

        # Get indices for each dimension
        def get_indices(dim_idx: Any, dim_size: int) -> np.ndarray:
            if isinstance(dim_idx, slice):
                start, stop, step = dim_idx.indices(dim_size)
                return np.arange(start, stop, step)
            elif isinstance(dim_idx, (np.ndarray, list)):
                idx = np.asarray(dim_idx)
                if np.any((idx < 0) | (idx >= dim_size)):
                    raise IndexError(f"Index out of bounds for axis with size {dim_size}")
                return idx
            elif isinstance(dim_idx, (int, np.integer)):
                if dim_idx < 0 or dim_idx >= dim_size:
                    raise IndexError(f"Index out of bounds for axis with size {dim_size}")
                return np.array([dim_idx])
            return np.arange(dim_size)

        indices_arrays = [get_indices(i, s) for i, s in zip(idx_converted, self._shape)]
        total_indices = np.prod([len(i) for i in indices_arrays])

        if len(value) != total_indices:
            raise ValueError(f"Expected {total_indices} arrays, got {len(value)}")

        # Validate and set values
        for array_idx, idx in enumerate(np.ndindex(*[len(i) for i in indices_arrays])):
            src_idx = tuple(ind[i] for ind, i in zip(indices_arrays, idx))
            if not isinstance(value[array_idx], np.ndarray):
                raise TypeError(f"Expected numpy array, got {type(value[array_idx]).__name__}")
            if value[array_idx].ndim != 2 or value[array_idx].shape[1] != self.num_fields:
                raise ValueError(
                    f"Expected array with shape (_, {self.num_fields}), got {value[array_idx].shape}"
                )
            ref = self._data
            for i in src_idx[:-1]:
                ref = ref[i]
            ref[src_idx[-1]] = value[array_idx]
    else:
        # For single value assignment
        if not isinstance(value, np.ndarray):
            raise TypeError(f"Value must be a numpy array, got {type(value).__name__}")
        if value.ndim != 2 or value.shape[1] != self.num_fields:
            raise ValueError(
                f"Expected a numpy array with shape (_, {self.num_fields}), got {value.shape}"
            )
        ref = self._data
        for i in idx_converted[:-1]:
            ref = ref[i]
        ref[idx_converted[-1]] = value


# ----------------------------------------------------------------------------
# helpers
# ----------------------------------------------------------------------------
def all_cells(shape):
    return itertools.product(*[range(s) for s in shape])


def cell_at(data, idx):
    ref = data
    for i in idx:
        ref = ref[i]
    return ref


def same_array(a, b):
    assert isinstance(a, np.ndarray) and isinstance(b, np.ndarray), (type(a), type(b))
    assert a.dtype == b.dtype and a.shape == b.shape, (a.dtype, b.dtype, a.shape, b.shape)
    assert np.array_equal(a, b), (a, b)


def same_nested(a, b):
    if isinstance(a, list):
        assert isinstance(b, list) and len(a) == len(b), (a, b)
        for x, y in zip(a, b):
            same_nested(x, y)
    elif isinstance(a, np.ndarray):
        same_array(a, b)
    else:
        assert a is None and b is None, (a, b)


def same_state(a, b):
    assert a.shape == b.shape and a.fields == b.fields and a.units == b.units
    same_nested(a._data, b._data)


def outcome(fn, *args):
    try:
        return ("ok", fn(*args))
    except Exception as exc:  # noqa: BLE001
        return ("err", type(exc), str(exc))


def same_error_or_ok(a, b):
    assert a[0] == b[0], (a, b)
    if a[0] == "err":
        assert a[1:] == b[1:], (a, b)


def snapshot(v):
    """Reference-model state taken from a Vector: cell index -> rows / None."""
    model = {}
    for idx in all_cells(v.shape):
        cell = cell_at(v._data, idx)
        model[idx] = None if cell is None else (cell.tolist(), cell.shape)
    return model


def check_invariants(v, model):
    assert len(set(v.fields)) == len(v.fields) == len(v.units) == v.num_fields
    for idx in all_cells(v.shape):
        cell = cell_at(v._data, idx)
        if model[idx] is None:
            assert cell is None
        else:
            assert isinstance(cell, np.ndarray) and cell.ndim == 2
            assert cell.shape[1] == v.num_fields
            assert (cell.tolist(), cell.shape) == model[idx]


# independent pure-python resolution of one index expression (clean kinds only)
def resolve(expr, n):
    if isinstance(expr, slice):
        return list(range(*expr.indices(n)))
    if expr is None:
        return list(range(n))
    if isinstance(expr, (list, np.ndarray)):
        out = [int(i) for i in expr]
        if any(i < 0 or i >= n for i in out):
            raise IndexError
        return out
    i = int(expr)
    if i < 0 or i >= n:
        raise IndexError
    return [i]


def random_index(rng, n, allow_bad=True):
    kind = rng.choice(
        ["int", "npint", "slice", "negslice", "emptyslice", "full", "list", "array", "list1", "none"]
        + (["oob", "ooblist", "emptylist"] if allow_bad else [])
    )
    if kind == "int":
        return int(rng.integers(n))
    if kind == "npint":
        return np.int64(rng.integers(n))
    if kind == "slice":
        a, b = sorted(int(x) for x in rng.integers(-n - 1, n + 2, size=2))
        return slice(a, b, int(rng.choice([1, 1, 2, 3])))
    if kind == "negslice":
        return slice(None, None, -int(rng.choice([1, 2])))
    if kind == "emptyslice":
        return slice(n, n)
    if kind == "full":
        return slice(None)
    if kind == "list":
        return [int(x) for x in rng.integers(n, size=int(rng.integers(2, 5)))]  # repeats allowed
    if kind == "array":
        return rng.integers(n, size=int(rng.integers(2, 4)))
    if kind == "list1":
        return [int(rng.integers(n))]
    if kind == "none":
        return None
    if kind == "oob":
        return int(rng.choice([-1, n, n + 3]))
    if kind == "ooblist":
        return [0, n]
    if kind == "emptylist":
        return []
    raise AssertionError(kind)


def random_cell(rng, nf, dtype=np.float64):
    return (rng.normal(size=(int(rng.choice([0, 1, 2, 4])), nf)) * 10).astype(dtype)


def twin_copy(values):
    return [x.copy() if isinstance(x, np.ndarray) else x for x in values]


# ----------------------------------------------------------------------------
# one random history
# ----------------------------------------------------------------------------
def run_history(rng, shape, nf, steps, stats):
    fields = [f"f{i}" for i in range(nf)]
    A = Vector.from_shape(shape=shape, fields=fields)
    B = Vector.from_shape(shape=shape, fields=fields)
    # populate most cells (through the single-cell path of both implementations)
    for idx in all_cells(shape):
        if rng.random() < 0.8:
            c = random_cell(rng, nf)
            A.set_data(c.copy(), *idx)
            orig_set_data(B, c.copy(), *idx)
    same_state(A, B)
    model = snapshot(A)
    check_invariants(A, model)
    ndim = len(shape)

    for _ in range(steps):
        op = rng.choice(["get", "set", "set", "setitem", "setitem", "setitem_vec", "field", "badvalue"])
        idx = tuple(random_index(rng, n, allow_bad=rng.random() < 0.15) for n in shape)
        try:
            cells = list(itertools.product(*[resolve(e, n) for e, n in zip(idx, shape)]))
            single = all(len(resolve(e, n)) == 1 for e, n in zip(idx, shape))
        except IndexError:
            cells, single = None, False

        if op == "get":
            ra, rb = outcome(A.get_data, *idx), outcome(orig_get_data, B, *idx)
            same_error_or_ok(ra, rb)
            assert (ra[0] == "ok") == (cells is not None), (idx, ra)
            if ra[0] == "ok":
                if single:
                    assert ra[1] is cell_at(A._data, cells[0]) and rb[1] is cell_at(B._data, cells[0])
                else:
                    assert isinstance(ra[1], list) and len(ra[1]) == len(rb[1]) == len(cells)
                    for got_a, got_b, c in zip(ra[1], rb[1], cells):
                        assert got_a is cell_at(A._data, c) and got_b is cell_at(B._data, c)
                stats["get_ok"] += 1
            else:
                stats["get_err"] += 1

        elif op in ("set", "setitem"):
            use_setitem = op == "setitem"
            if use_setitem:
                # __setitem__ decides "multi-cell" syntactically: a slice or an array with > 1 element;
                # restrict to index kinds whose meaning does not depend on list.__getitem__ quirks
                idx = tuple(
                    e if not (isinstance(e, (list, np.ndarray)) and len(e) < 2 or e is None) else slice(None)
                    for e in idx
                )
                try:
                    cells = list(itertools.product(*[resolve(e, n) for e, n in zip(idx, shape)]))
                except IndexError:
                    cells = None
                multi = any(isinstance(e, (slice, list, np.ndarray)) for e in idx)
            else:
                multi = not single
            n_cells = len(cells) if cells is not None else int(rng.integers(1, 4))
            if multi:
                values = [random_cell(rng, nf) for _ in range(n_cells)]
                if rng.random() < 0.1:
                    values = values + [random_cell(rng, nf)]  # wrong count
                va, vb = twin_copy(values), twin_copy(values)
            else:
                values = random_cell(rng, nf)
                va, vb = values.copy(), values.copy()
            if use_setitem:
                key = idx if (ndim > 1 or rng.random() < 0.5) else idx[0]
                ra = outcome(A.__setitem__, key, va)
                rb = outcome(orig_setitem, B, key, vb)
            else:
                ra = outcome(A.set_data, va, *idx)
                rb = outcome(orig_set_data, B, vb, *idx)
            same_error_or_ok(ra, rb)
            same_state(A, B)
            if ra[0] == "ok":
                if use_setitem and not multi:
                    cells = [tuple(int(e) % n for e, n in zip(idx, shape))]  # negative ints wrap here
                assert cells is not None, (idx, ra)
                if multi:
                    assert len(values) == len(cells)
                    for c, val, stored in zip(cells, values, va):
                        model[c] = (val.tolist(), val.shape)
                    last = {c: stored for c, stored in zip(cells, va)}
                    for c, stored in last.items():
                        assert cell_at(A._data, c) is stored  # stored by reference, last writer wins
                else:
                    model[cells[0]] = (values.tolist(), values.shape)
                    assert cell_at(A._data, cells[0]) is va
                stats["set_ok"] += 1
            else:
                assert snapshot(A) == model  # count / bounds errors are raised before any write
                stats["set_err"] += 1

        elif op == "setitem_vec" and ndim >= 1:
            # v[dst] = v[src] with a Vector value (cells are shared by reference afterwards)
            n0 = shape[0]
            if n0 < 2:
                continue
            k = int(rng.integers(1, n0))
            src = (slice(0, k),) + tuple(slice(None) for _ in shape[1:])
            dst = (slice(n0 - k, n0),) + tuple(slice(None) for _ in shape[1:])
            ra = outcome(lambda: A.__setitem__(dst, A[src]))
            rb = outcome(lambda: orig_setitem(B, dst, B[src]))
            same_error_or_ok(ra, rb)
            same_state(A, B)
            if ra[0] == "ok":
                src_cells = list(itertools.product(*[resolve(e, n) for e, n in zip(src, shape)]))
                dst_cells = list(itertools.product(*[resolve(e, n) for e, n in zip(dst, shape)]))
                # the source cells are collected (by reference) before the first write, so
                # overlapping source / destination regions still copy the *old* source cells
                old = dict(model)
                for s, d in zip(src_cells, dst_cells):
                    model[d] = old[s]
                # un-share the cells again so that later in-place field ops stay per-cell
                for d in dst_cells:
                    ref_a, ref_b = A._data, B._data
                    for i in d[:-1]:
                        ref_a, ref_b = ref_a[i], ref_b[i]
                    ref_a[d[-1]] = ref_a[d[-1]].copy()
                    ref_b[d[-1]] = ref_b[d[-1]].copy()
                stats["vec_ok"] += 1
            else:
                # a source with unset cells cannot be flattened -> TypeError before any write
                assert snapshot(A) == model
                stats["vec_err"] += 1

        elif op == "field":
            name = fields[int(rng.integers(nf))]
            A[name] += 1.5
            B[name] += 1.5
            same_state(A, B)
            model = snapshot(A)

        elif op == "badvalue":
            # failure injection: a bad element in the middle of a multi-cell assignment;
            # everything before it must have been written, nothing after it - in both versions
            idx = tuple(slice(None) for _ in shape)
            total = int(np.prod(shape))
            if total < 2:
                continue
            pos = int(rng.integers(total))
            values = [random_cell(rng, nf) for _ in range(total)]
            bad_kind = rng.choice(["cols", "ndim", "type"])
            values[pos] = {
                "cols": np.zeros((2, nf + 1)),
                "ndim": np.zeros(nf),
                "type": [[0.0] * nf],
            }[bad_kind]
            va, vb = twin_copy(values), twin_copy(values)
            if rng.random() < 0.5:
                ra, rb = outcome(A.set_data, va, *idx), outcome(orig_set_data, B, vb, *idx)
            else:
                ra, rb = outcome(A.__setitem__, idx, va), outcome(orig_setitem, B, idx, vb)
            same_error_or_ok(ra, rb)
            assert ra[0] == "err" and ra[1] is (TypeError if bad_kind == "type" else ValueError), ra
            same_state(A, B)
            for k, c in enumerate(all_cells(shape)):
                if k < pos:
                    model[c] = (values[k].tolist(), values[k].shape)
            stats["bad"] += 1

        same_state(A, B)
        check_invariants(A, model)


def main():
    rng = np.random.default_rng(20240611)
    stats = dict(get_ok=0, get_err=0, set_ok=0, set_err=0, vec_ok=0, vec_err=0, bad=0)
    shapes = [(1,), (2,), (5,), (1, 1), (4, 3), (2, 5), (3, 1), (1, 1, 1), (2, 3, 2), (3, 1, 4)]
    for shape in shapes:
        for nf in (1, 3):
            run_history(rng, shape, nf, steps=120, stats=stats)

    # ---- deterministic spot checks of the row-major order of multi-cell access
    v = Vector.from_shape(shape=(3, 2), num_fields=2)
    vals = [np.full((1, 2), float(k)) for k in range(6)]
    v.set_data(vals, slice(None), slice(None))
    assert [c[0, 0] for c in v.get_data(slice(None), slice(None))] == [0, 1, 2, 3, 4, 5]
    assert [c[0, 0] for c in v.get_data(slice(None, None, -1), [1, 0])] == [5, 4, 3, 2, 1, 0]
    assert [c[0, 0] for c in v.get_data(np.array([2, 0]), None)] == [4, 5, 0, 1]
    assert v.get_data([1, 1], 0)[0] is v.get_data([1, 1], 0)[1] is v._data[1][0]
    assert v.get_data(slice(3, 3), slice(None)) == []
    v[0:2, 1] = v[1:3, 1]  # docstring example: copies (1,1)->(0,1), (2,1)->(1,1)
    assert [c[0, 0] for c in v.get_data(slice(None), slice(None))] == [0, 3, 2, 5, 4, 5]
    v[[2, 0], 0] = [np.full((2, 2), 7.0), np.full((0, 2), 8.0)]
    assert v[2, 0].shape == (2, 2) and v[0, 0].shape == (0, 2)
    # 1-D vector: slice assignment and retrieval
    w = Vector.from_shape(shape=(4,), num_fields=1)
    w[1:4] = [np.full((k, 1), float(k)) for k in (1, 2, 3)]
    assert w[0] is None and [w[k].shape[0] for k in (1, 2, 3)] == [1, 2, 3]
    assert [c.shape[0] for c in w.get_data(slice(None, 0, -1))] == [3, 2, 1]
    # two independently created vectors and a copy share nothing
    a = Vector.from_shape(shape=(2, 2), num_fields=1)
    b = Vector.from_shape(shape=(2, 2), num_fields=1)
    a.set_data([np.ones((1, 1))] * 4, slice(None), slice(None))
    assert all(b[i, j] is None for i in range(2) for j in range(2))
    c = a.copy()
    c.set_data([np.zeros((2, 1))] * 2, 0, slice(None))
    assert a[0, 0].shape == (1, 1) and a[0, 1].shape == (1, 1)

    assert min(stats.values()) > 0, stats
    print("PASS", stats)


if __name__ == "__main__":
    main()
