"""C09 demo: SimpleBatcher old == new, bit for bit, plus the partition property.

Run as:  PYTHONPATH=<root>/src /venv/bin/python demo.py

`OrigBatcher` below is a verbatim copy of the ORIGINAL
quantem.diffractive_imaging.ptycho_utils.SimpleBatcher (worktree HEAD).  The script
builds both classes on a spread of (num, batch_size, val_ratio, val_mode, shuffle,
seed) configurations and asserts that every observable agrees exactly: the split
arrays (values, dtype, shape, flags, aliasing with .indices), the batches yielded,
the validation batches, __len__/val_len (value AND type), the state of the numpy
generator afterwards, and the exception type for rejected batch sizes.  It also
asserts the property itself on the class under test: train/val are disjoint and
cover all patterns, every training pattern is yielded exactly once per epoch, and
len(batcher) equals the number of batches yielded.
"""

import itertools
import warnings
from math import ceil
from typing import Literal

import numpy as np

from quantem.diffractive_imaging.ptycho_utils import SimpleBatcher as NewBatcher


# --------------------------------------------------------------------------- original
class OrigBatcher:
    def __init__(
        self,
        num: int,
        batch_size: int | None,
        shuffle: bool = True,
        rng: np.random.Generator | int | None = None,
        val_ratio: float = 0.0,
        val_mode: Literal["grid", "random"] = "grid",
        train_indices: np.ndarray | None = None,
        val_indices: np.ndarray | None = None,
    ):
        self.indices = np.arange(num)
        self.batch_size = batch_size if batch_size is not None else num
        self.shuffle = shuffle
        self.rng = rng

        # Train/validation split (fixed for the lifetime of this batcher)
        if train_indices is not None or val_indices is not None:
            if train_indices is None or val_indices is None:
                raise ValueError("Both train_indices and val_indices must be provided together.")
            self.train_indices = np.asarray(train_indices, dtype=int)
            self.val_indices = np.asarray(val_indices, dtype=int)
        else:
            # Validate ratio and split deterministically given rng
            if val_ratio < 0 or val_ratio >= 1:
                val_ratio = 0.0
            n_val = int(round(len(self.indices) * val_ratio))
            if n_val > 0:
                if val_mode == "random":
                    # Random unique selection for validation
                    perm = self.rng.permutation(self.indices)
                    self.val_indices = perm[:n_val]
                    self.train_indices = np.setdiff1d(
                        self.indices, self.val_indices, assume_unique=False
                    )
                else:  # grid/regular selection: every k-th index
                    if val_ratio <= 0.5:
                        k = max(1, int(round(1.0 / val_ratio)))
                        invert = False
                    else:
                        k = max(1, int(round(1.0 / (1.0 - val_ratio))))
                        invert = True

                    grid_sel = self.indices[::k]
                    if len(grid_sel) > n_val:
                        grid_sel = grid_sel[:n_val]
                    if invert:
                        self.train_indices = grid_sel
                        self.val_indices = np.setdiff1d(
                            self.indices, grid_sel, assume_unique=False
                        )
                    else:
                        self.val_indices = grid_sel
                        self.train_indices = np.setdiff1d(
                            self.indices, self.val_indices, assume_unique=False
                        )
            else:
                self.val_indices = np.asarray([], dtype=int)
                self.train_indices = self.indices

    @property
    def rng(self) -> np.random.Generator:
        return self._rng

    @rng.setter
    def rng(self, rng: np.random.Generator | int | None):
        if rng is None:
            rng = np.random.default_rng()
        elif isinstance(rng, (int, float)):
            rng = np.random.default_rng(rng)
        elif not isinstance(rng, np.random.Generator):
            raise TypeError(f"rng should be a np.random.Generator or a seed, got {type(rng)}")
        self._rng = rng

    def __iter__(self):
        train_order = (
            self.rng.permutation(self.train_indices) if self.shuffle else self.train_indices
        )
        for i in range(0, len(train_order), self.batch_size):
            yield train_order[i : i + self.batch_size]

    def __len__(self):
        return int(ceil(len(self.train_indices) / self.batch_size))

    def iter_val(self):
        if len(self.val_indices) == 0:
            return iter(())

        # Do not shuffle validation by default
        def _gen():
            for i in range(0, len(self.val_indices), self.batch_size):
                yield self.val_indices[i : i + self.batch_size]

        return _gen()

    @property
    def has_validation(self) -> bool:
        return len(self.val_indices) > 0

    def val_len(self) -> int:
        return int(ceil(len(self.val_indices) / self.batch_size)) if self.has_validation else 0


# --------------------------------------------------------------------------- helpers
def same_array(a, b, what):
    assert type(a) is type(b), (what, type(a), type(b))
    assert a.dtype == b.dtype, (what, a.dtype, b.dtype)
    assert a.shape == b.shape, (what, a.shape, b.shape)
    assert a.strides == b.strides, (what, a.strides, b.strides)
    for flag in ("C_CONTIGUOUS", "F_CONTIGUOUS", "OWNDATA", "WRITEABLE"):
        assert a.flags[flag] == b.flags[flag], (what, flag)
    assert a.tobytes() == b.tobytes(), (what, a, b)


def outcome(fn):
    """Value (with its exact type) or the exception type of a call."""
    with warnings.catch_warnings(record=True) as w:
        warnings.simplefilter("always")
        try:
            v = fn()
            return ("ok", type(v), v, tuple(x.category for x in w))
        except Exception as e:  # noqa: BLE001
            return ("raise", type(e))


def drain(fn):
    """The list produced by fn(), or the exception type it raised."""
    with warnings.catch_warnings():  # list() asks __len__ for a length hint
        warnings.simplefilter("ignore")
        try:
            return fn()
        except Exception as e:  # noqa: BLE001
            return type(e)


def same_outcome(f_old, f_new, what):
    o, n = outcome(f_old), outcome(f_new)
    assert o == n, (what, o, n)
    return o


def compare(cfg, n_epochs=2):
    kw_old = dict(cfg)
    kw_new = dict(cfg)
    seed = kw_old.pop("seed")
    kw_new.pop("seed")
    if seed == "gen":  # pass an explicit Generator object (kept by reference)
        kw_old["rng"] = np.random.default_rng(1234)
        kw_new["rng"] = np.random.default_rng(1234)
    else:
        kw_old["rng"] = seed
        kw_new["rng"] = seed
    old = OrigBatcher(**kw_old)
    new = NewBatcher(**kw_new)

    # ---- old == new on the split
    same_array(old.indices, new.indices, ("indices", cfg))
    same_array(old.train_indices, new.train_indices, ("train", cfg))
    same_array(old.val_indices, new.val_indices, ("val", cfg))
    for name in ("train_indices", "val_indices"):
        assert (getattr(old, name) is old.indices) == (getattr(new, name) is new.indices), (
            name,
            cfg,
        )
        assert np.shares_memory(getattr(old, name), old.indices) == np.shares_memory(
            getattr(new, name), new.indices
        ), (name, cfg)
    assert repr(old.batch_size) == repr(new.batch_size)  # repr: nan-safe
    assert type(old.batch_size) is type(new.batch_size)
    assert old.has_validation == new.has_validation
    assert type(old.has_validation) is type(new.has_validation)

    # ---- old == new on the reported lengths (value and exact type)
    same_outcome(old.__len__, new.__len__, ("__len__", cfg))
    same_outcome(old.val_len, new.val_len, ("val_len", cfg))
    same_outcome(lambda: len(old), lambda: len(new), ("len()", cfg))

    # ---- old == new on the schedule, and the property on `new`
    num = len(new.indices)
    tr, va = new.train_indices, new.val_indices
    if "train_indices" not in cfg:  # explicit index sets are taken as given
        assert len(np.intersect1d(tr, va)) == 0, ("train/val overlap", cfg)
        assert np.array_equal(np.sort(np.concatenate([tr, va])), np.arange(num)), ("cover", cfg)
        assert len(np.unique(tr)) == len(tr) and len(np.unique(va)) == len(va), cfg
    bs_ok = isinstance(new.batch_size, (int, np.integer)) and new.batch_size > 0
    for _ in range(n_epochs):
        b_old, b_new = drain(lambda: list(old)), drain(lambda: list(new))
        if not isinstance(b_old, list) or not isinstance(b_new, list):
            assert b_old is b_new, ("iter exception", cfg, b_old, b_new)  # same exception type
            v_old, v_new = drain(lambda: list(old.iter_val())), drain(lambda: list(new.iter_val()))
            if isinstance(v_old, list) and isinstance(v_new, list):
                assert len(v_old) == len(v_new), cfg
            else:
                assert v_old is v_new, ("iter_val exception", cfg, v_old, v_new)
            continue
        assert len(b_old) == len(b_new), cfg
        for x, y in zip(b_old, b_new):
            same_array(x, y, ("batch", cfg))
        v_old, v_new = list(old.iter_val()), list(new.iter_val())
        assert len(v_old) == len(v_new), cfg
        for x, y in zip(v_old, v_new):
            same_array(x, y, ("val batch", cfg))
        if bs_ok:
            assert len(new) == len(b_new), ("len != yielded", cfg, len(new), len(b_new))
            assert new.val_len() == len(v_new), ("val_len != yielded", cfg)
            seen = np.concatenate(b_new) if b_new else np.empty(0, dtype=int)
            assert np.array_equal(np.sort(seen), np.sort(tr)), ("epoch not a partition", cfg)
            assert all(len(b) == new.batch_size for b in b_new[:-1]), cfg
            assert all(0 < len(b) <= new.batch_size for b in b_new), cfg
            seen_v = np.concatenate(v_new) if v_new else np.empty(0, dtype=int)
            assert np.array_equal(seen_v, va), ("validation pass", cfg)
    # the generators must have been advanced identically
    assert old.rng.bit_generator.state == new.rng.bit_generator.state, ("rng state", cfg)
    return old, new


# --------------------------------------------------------------------------- sweep
def main():
    nums = list(range(0, 26)) + [31, 32, 33, 48, 49, 50, 64, 97, 100, 101, 144, 257]
    ratios = [
        -0.3, 0.0, 1e-9, 0.01, 0.04, 0.05, 0.1, 0.125, 0.15, 0.2, 0.25, 0.3, 1 / 3, 0.34, 0.4,
        0.45, 0.49, 0.5, 0.51, 0.55, 0.6, 2 / 3, 0.7, 0.75, 0.8, 0.9, 0.95, 0.99, 0.999, 1.0, 1.5,
        np.float64(0.2), np.float32(0.6),
    ]  # fmt: skip
    n_cfg = 0
    for num, ratio, mode in itertools.product(nums, ratios, ("grid", "random")):
        bss = {None, 1, 2, 3, 7, max(num, 1), num + 3, max(1, num // 2), max(1, num // 3)}
        for j, bs in enumerate(sorted(bss, key=lambda v: (v is None, v or 0))):
            cfg = dict(
                num=num,
                batch_size=bs,
                shuffle=bool((j + num) % 2),
                seed=[0, 7, 2**40 + 1, "gen"][(j + num) % 4],
                val_ratio=ratio,
                val_mode=mode,
            )
            compare(cfg, n_epochs=1 if num > 50 else 2)
            n_cfg += 1

    # explicit index sets (taken as given), incl. lists and non-int dtypes
    for tr, va in [
        (np.arange(0, 10, 2), np.arange(1, 10, 2)),
        ([5, 3, 1], [0, 2, 4]),
        (np.array([0.0, 1.0, 2.0]), np.array([], dtype=float)),
        (np.arange(7, dtype=np.int32), np.array([7, 8], dtype=np.uint8)),
    ]:
        for bs in (None, 1, 2, 4, 50):
            for shuffle in (False, True):
                compare(
                    dict(num=10, batch_size=bs, shuffle=shuffle, seed=3, val_ratio=0.3,
                         val_mode="grid", train_indices=tr, val_indices=va)
                )  # fmt: skip
                n_cfg += 1
    for kw in (dict(train_indices=np.arange(3)), dict(val_indices=np.arange(3))):
        same_outcome(
            lambda: OrigBatcher(5, 2, rng=0, **kw), lambda: NewBatcher(5, 2, rng=0, **kw), kw
        )

    # unusual batch-size types: numpy ints (signed / unsigned), bool, floats, zero, negative.
    # Construction, __len__ / val_len (value + type, or exception type) and iteration must agree.
    odd = [
        np.int64(3), np.int32(4), np.uint8(2), np.uint64(5), np.int8(-2), True, -1, -3, 0,
        np.int64(0), 2.5, 0.3, 0.1, 4.0, float("inf"), float("nan"), np.float32(2.0),
    ]  # fmt: skip
    for bs, num, ratio, mode in itertools.product(
        odd, (0, 1, 3, 10, 12), (0.0, 0.25, 0.7), ("grid", "random")
    ):
        cfg = dict(num=num, batch_size=bs, shuffle=True, seed=11, val_ratio=ratio, val_mode=mode)
        compare(cfg, n_epochs=1)
        n_cfg += 1

    # seeded determinism: two batchers from one seed give the same schedule, epoch after epoch
    for mode in ("grid", "random"):
        a = NewBatcher(37, 5, rng=42, val_ratio=0.2, val_mode=mode)
        b = NewBatcher(37, 5, rng=42, val_ratio=0.2, val_mode=mode)
        for _ in range(3):
            for x, y in zip(list(a), list(b), strict=True):
                assert np.array_equal(x, y)

    print(f"C09 demo OK: {n_cfg} configurations, old == new and partition property hold")


if __name__ == "__main__":
    main()
