"""Old-vs-new equivalence demo for property C19 (configuration store).

A second, private instance of ``quantem.core.config`` is loaded from the same
file and the four functions that the patches touch (``set._assign``,
``refresh``, ``get``, ``update``) are replaced in that instance by VERBATIM
copies of the original source (embedded below).  Random and hand-written
histories of set / update_defaults / refresh / update / merge / get are then
replayed on both instances and every observable (return value, exception type
and text, full config, defaults stack, rollback record, aliasing between the
config and the defaults) is compared after each step.  A handful of direct
assertions of the property itself is made as well.

Exit status 0 on the unmodified tree and with any of the patches applied.
"""

from __future__ import annotations

import copy
import importlib.util
import os
import random
import sys
import tempfile
import warnings

_tmp = tempfile.TemporaryDirectory()
os.environ["QUANTEM_CONFIG"] = os.path.join(_tmp.name, "no-user-config")

warnings.simplefilter("ignore")

from quantem.core import config as new  # noqa: E402

ORIGINAL_SRC = '''
from __future__ import annotations


class _OriginalSet:
    def _assign(
        self,
        keys: Sequence[str],
        value: Any,
        d: dict,
        path: tuple[str, ...] = (),
        record: bool = True,
    ) -> None:
        """Assign value into a nested configuration dictionary

        Parameters
        ----------
        keys : Sequence[str]
            The nested path of keys to assign the value.
        value : object
        d : dict
            The part of the nested dictionary into which we want to assign the
            value
        path : tuple[str], optional
            The path history up to this point.
        record : bool, optional
            Whether this operation needs to be recorded to allow for rollback.
        """
        key = canonical_name(keys[0], d)

        path = path + (key,)

        if len(keys) == 1:
            if record:
                if key in d:
                    self._record.append(("replace", path, d[key]))
                else:
                    self._record.append(("insert", path, None))
            d[key] = value
        else:
            if key not in d:
                if record:
                    self._record.append(("insert", path, None))
                d[key] = {}
                # No need to record subsequent operations after an insert
                record = False
            self._assign(keys[1:], value, d[key], path, record=record)


def refresh(config: dict = config, defaults: list[Mapping] = defaults, **kwargs) -> None:
    config.clear()

    for d in defaults:
        update(config, d, priority="new")

    update(config, collect(**kwargs))


def get(
    key: str,
    default: Any = no_default,
    config: dict = config,
    override_with: Any = None,
) -> Any:
    if override_with is not None:
        return override_with
    keys = key.split(".")
    result = config
    for k in keys:
        k = canonical_name(k, result)
        try:
            result = result[k]
        except (TypeError, IndexError, KeyError):
            if default is not no_default:
                return default
            else:
                raise
    return result


def update(
    old: dict,
    new: Mapping,
    priority: Literal["old", "new", "new-defaults"] = "new",
    defaults: Mapping | None = None,
) -> dict:
    for k, v in new.items():
        k, v = check_key_val(k, v)
        k = canonical_name(k, old)

        if isinstance(v, Mapping):
            if k not in old or old[k] is None or not isinstance(old[k], dict):
                old[k] = {}
            update(
                old[k],
                v,
                priority=priority,
                defaults=defaults.get(k) if defaults else None,
            )
        else:
            if (
                priority == "new"
                or k not in old
                or (
                    priority == "new-defaults"
                    and defaults
                    and k in defaults
                    and defaults[k] == old[k]
                )
            ):
                old[k] = v

    return old
'''

# --------------------------------------------------------------------------
# build the reference ("old") instance
# --------------------------------------------------------------------------
_spec = importlib.util.spec_from_file_location("quantem_config_reference", new.__file__)
old = importlib.util.module_from_spec(_spec)
sys.modules["quantem_config_reference"] = old
_spec.loader.exec_module(old)
exec(compile(ORIGINAL_SRC, "<original config.py excerpts>", "exec"), old.__dict__)
old.set._assign = old.__dict__["_OriginalSet"].__dict__["_assign"]
assert old.config is not new.config and old.defaults is not new.defaults
# rebuild the reference state with the original functions only
del old.defaults[1:]
old.refresh()
old._initialize()


# --------------------------------------------------------------------------
# helpers
# --------------------------------------------------------------------------
class Boom:
    """Container whose item access fails with an exception outside the caught set."""

    def __init__(self, exc):
        self.exc = exc

    def __contains__(self, k):
        return False

    def __getitem__(self, k):
        raise self.exc("boom " + str(k))

    def __eq__(self, other):
        return isinstance(other, Boom) and other.exc is self.exc

    def __hash__(self):
        return hash(self.exc)

    def __deepcopy__(self, memo):
        return Boom(self.exc)

    def __repr__(self):
        return f"Boom({self.exc.__name__})"


class MyIndexError(IndexError):
    pass


class MyLookupError(LookupError):
    pass


def typed(x):
    """Structure + exact types + key order, for bit-for-bit comparison."""
    if isinstance(x, dict):
        return ("dict", type(x).__name__, [(k, typed(v)) for k, v in x.items()])
    if isinstance(x, (list, tuple)):
        return (type(x).__name__, [typed(v) for v in x])
    return (type(x).__name__, repr(x))


def dict_ids(x, acc):
    if isinstance(x, dict):
        acc.add(id(x))
        for v in x.values():
            dict_ids(v, acc)
    elif isinstance(x, (list, tuple)):
        for v in x:
            dict_ids(v, acc)
    return acc


def alias_paths(mod):
    """Paths of dicts inside mod.config that are the same object as a dict inside the defaults."""
    ids = set()
    for d in mod.defaults:
        dict_ids(d, ids)
    out = []

    def walk(x, path):
        if isinstance(x, dict):
            if id(x) in ids:
                out.append(path)
            for k, v in x.items():
                walk(v, path + (k,))

    walk(mod.config, ())
    return sorted(out)


def run(mod, fn):
    try:
        with warnings.catch_warnings():
            warnings.simplefilter("ignore")
            return ("ok", typed(fn(mod)))
    except Exception as e:  # noqa: BLE001 - the demo compares the failure itself
        return ("err", type(e).__name__, str(e))


NSTEPS = 0


def both(label, fn):
    global NSTEPS
    NSTEPS += 1
    r_old = run(old, fn)
    r_new = run(new, fn)
    assert r_old == r_new, (label, r_old, r_new)
    assert typed(old.config) == typed(new.config), (label, old.config, new.config)
    assert typed(list(old.defaults)) == typed(list(new.defaults)), label
    assert alias_paths(old) == alias_paths(new), (label, alias_paths(old), alias_paths(new))
    return r_new


# --------------------------------------------------------------------------
# operations (each builds its own fresh arguments so nothing is shared)
# --------------------------------------------------------------------------
KEYS = [
    "a", "b", "a_b", "a-b", "x.y", "x.y_z", "x.y-z", "x.w", "x", "x.y.deep", "x.y.de_ep",
    "x.y.de-ep", "device", "dtype_real", "n.device", "n.m-k.p_q", "n.m_k.p-q", "viz.cmap",
    "viz.colors.set", "cupy.fft-cache-size", "cupy.fft_cache_size", "mkl.threads", "",
    "q..r", "has_torch", "verbose",
]
VALUES = [
    0, 1, -3, 2.5, "", "s", "float64", None, True, False, [1, 2], [], (), {"k": 1},
    {"k": {"l": 2}, "m": 3}, {}, {"k-1": 1, "k_1": 2}, {"y": {"deep": 9}}, {"y_z": 5},
    {"device": "cpu"}, "cpu", "CPU", "cpu:0",
]
DEVICES = [
    "cpu", "cuda", "cuda:0", "cuda:7", "gpu", "GPU", "mps", "tpu", "", 0, 1, -1, True, 1.5,
    None, "cuda:x", ["cpu"], {"a": 1},
]


def rnd_value(rng):
    return copy.deepcopy(rng.choice(VALUES))


def rnd_flat_mapping(rng):
    out = {}
    for _ in range(rng.randint(0, 3)):
        k = rng.choice(KEYS)
        out[k] = copy.deepcopy(rng.choice(DEVICES)) if k == "device" else rnd_value(rng)
    return out


def rnd_nested_mapping(rng, depth=0):
    out = {}
    for _ in range(rng.randint(0, 3)):
        k = rng.choice(["a", "b", "a_b", "a-b", "x", "y", "y_z", "y-z", "w", "n", "viz", "cmap",
                        "dtype_real", "device", "deep", "m-k", "m_k"])
        if k == "device":
            out[k] = copy.deepcopy(rng.choice(DEVICES + ["cpu"] * 8))
        elif depth < 2 and rng.random() < 0.45:
            out[k] = rnd_nested_mapping(rng, depth + 1)
        else:
            out[k] = rnd_value(rng)
    return out


def op_set_mapping(rng):
    m = rnd_flat_mapping(rng)
    return f"set({m!r})", lambda mod: (lambda s: s._record)(mod.set(copy.deepcopy(m)))


def op_set_kwargs(rng):
    kw = {}
    for _ in range(rng.randint(1, 3)):
        k = rng.choice(["a", "a_b", "x__y", "x__y_z", "x__w", "n__m_k__p_q", "dtype_real",
                        "viz__cmap", "x__y__deep", "mkl__threads", "device", "x___y"])
        kw[k] = copy.deepcopy(rng.choice(DEVICES)) if k == "device" else rnd_value(rng)
    return f"set(**{kw!r})", lambda mod: (lambda s: s._record)(mod.set(**copy.deepcopy(kw)))


def op_set_both(rng):
    m = rnd_flat_mapping(rng)
    v = rnd_value(rng)
    return (
        f"set({m!r}, x__y={v!r})",
        lambda mod: (lambda s: s._record)(mod.set(copy.deepcopy(m), x__y=copy.deepcopy(v))),
    )


def op_context(rng):
    m = rnd_flat_mapping(rng)
    m2 = rnd_flat_mapping(rng)

    def fn(mod):
        before = copy.deepcopy(mod.config)
        with mod.set(copy.deepcopy(m)) as cfg:
            assert cfg is mod.config
            inside = copy.deepcopy(mod.config)
            with mod.set(copy.deepcopy(m2)):
                inner = copy.deepcopy(mod.config)
        return [before, inside, inner, copy.deepcopy(mod.config)]

    return f"with set({m!r}): with set({m2!r})", fn


def op_set_device(rng):
    d = rng.choice(DEVICES)

    def fn(mod):
        prev = mod.get("device")
        try:
            mod.set_device(copy.deepcopy(d))
        except Exception:
            assert mod.get("device") == prev  # rejected request leaves the device unchanged
            raise
        return mod.get_device()

    return f"set_device({d!r})", fn


def op_update_defaults(rng):
    m = rnd_nested_mapping(rng)
    return f"update_defaults({m!r})", lambda mod: mod.update_defaults(copy.deepcopy(m))


def op_refresh(rng):
    def fn(mod):
        mod.refresh()
        expect = mod.merge(*mod.defaults)
        assert typed(mod.config) == typed(expect)
        return copy.deepcopy(mod.config)

    return "refresh()", fn


def op_get(rng):
    k = rng.choice(KEYS + ["missing", "x.missing", "a.b.c", "viz.colors.set.0", "x.y.k"])
    mode = rng.randint(0, 3)
    if mode == 0:
        return f"get({k!r})", lambda mod: mod.get(k)
    if mode == 1:
        dflt = rnd_value(rng)
        return f"get({k!r}, {dflt!r})", lambda mod: mod.get(k, copy.deepcopy(dflt))
    if mode == 2:
        return f"get({k!r}, None)", lambda mod: mod.get(k, None)
    ov = rnd_value(rng)
    return f"get({k!r}, override_with={ov!r})", lambda mod: mod.get(k, override_with=copy.deepcopy(ov))


def op_update_local(rng):
    a = rnd_nested_mapping(rng)
    b = rnd_nested_mapping(rng)
    d = rng.choice([None, {}, rnd_nested_mapping(rng), copy.deepcopy(a)])
    pr = rng.choice(["old", "new", "new-defaults", "bogus"])

    def fn(mod):
        aa, bb, dd = copy.deepcopy(a), copy.deepcopy(b), copy.deepcopy(d)
        out = mod.update(aa, bb, priority=pr, defaults=dd)
        assert out is aa
        # nested mappings of the source are never shared with the target
        assert not (dict_ids(bb, set()) & dict_ids(aa, set()))
        return [aa, bb, dd]

    return f"update({a!r}, {b!r}, {pr!r}, {d!r})", fn


def op_update_global(rng):
    b = rnd_nested_mapping(rng)
    pr = rng.choice(["old", "new"])
    return f"update(config, {b!r}, {pr!r})", lambda mod: copy.deepcopy(
        mod.update(mod.config, copy.deepcopy(b), priority=pr)
    )


def op_merge(rng):
    ms = [rnd_nested_mapping(rng) for _ in range(rng.randint(0, 3))]
    return f"merge(*{ms!r})", lambda mod: mod.merge(*copy.deepcopy(ms))


def op_refresh_private(rng):
    ds = [rnd_nested_mapping(rng) for _ in range(rng.randint(0, 3))]

    def fn(mod):
        dd = copy.deepcopy(ds)
        cfg = {"stale": 1, "x": {"stale": 2}}
        mod.refresh(config=cfg, defaults=dd)
        assert typed(dd) == typed(ds)  # the defaults themselves are only read
        assert not (dict_ids(dd, set()) & dict_ids(cfg, set()))
        return [cfg, dd]

    return f"refresh(config=..., defaults={ds!r})", fn


OPS = [
    (op_set_mapping, 6), (op_set_kwargs, 4), (op_set_both, 2), (op_context, 3),
    (op_set_device, 3), (op_update_defaults, 3), (op_refresh, 2), (op_get, 8),
    (op_update_local, 4), (op_update_global, 2), (op_merge, 2), (op_refresh_private, 2),
]


def reset():
    for mod in (old, new):
        del mod.defaults[1:]
        mod.refresh()
        mod._initialize()
    assert typed(old.config) == typed(new.config)


# --------------------------------------------------------------------------
# 1. hand-written histories that also assert the property directly
# --------------------------------------------------------------------------
reset()
base = copy.deepcopy(new.config)
both("init", lambda m: copy.deepcopy(m.config))

both("set flat", lambda m: m.set({"a_b": 1})._record)
assert new.get("a-b") == 1 and new.get("a_b") == 1
both("set alt spelling", lambda m: m.set({"a-b": 2})._record)
assert new.get("a_b") == 2 and "a-b" not in new.config  # one entry, last writer wins
both("set nested", lambda m: m.set({"x.y_z": 1, "x.w": 2})._record)
both("set nested alt", lambda m: m.set(x__y_z=3)._record)
assert new.get("x") == {"y_z": 3, "w": 2}
both("set nested alt2", lambda m: m.set({"x.y-z": 4})._record)
assert new.get("x") == {"y_z": 4, "w": 2}  # sibling kept, canonical spelling kept
both("set three deep", lambda m: m.set({"p.q.r": 1, "p.q.s": 2, "p.t": 3})._record)
assert new.get("p") == {"q": {"r": 1, "s": 2}, "t": 3}
both("set through scalar", lambda m: m.set({"a_b.c": 1})._record)
both("set through scalar 2", lambda m: m.set({"a_b.c.d": 1})._record)
both("set empty key", lambda m: m.set({"": 1, "u..v": 2})._record)
both("set non-mapping", lambda m: m.set([("a", 1)]))
both("set empty list", lambda m: m.set([]))
both("set nothing", lambda m: m.set()._record)

both("ud nested", lambda m: m.update_defaults({"x": {"y_z": 9, "new": 1}, "viz": {"cmap": "jet"}}))
assert new.get("x") == {"y_z": 4, "w": 2, "new": 1}  # user value kept, sibling added
assert new.get("viz.cmap") == "jet" and new.get("viz.phase_cmap") == "magma"
both("refresh", lambda m: m.refresh())
assert typed(new.config) == typed(new.merge(*new.defaults))
assert "a_b" not in new.config and new.get("x") == {"y_z": 9, "new": 1}
both("ud again", lambda m: m.update_defaults({"x": {"y-z": 10}}))
assert new.get("x.y_z") == 10
both("refresh", lambda m: m.refresh())
assert new.get("x") == {"y_z": 10, "new": 1}

for dev in DEVICES:
    both(f"device {dev!r}", lambda m, dev=dev: m.set({"device": copy.deepcopy(dev)})._record)
    both(f"device kw {dev!r}", lambda m, dev=dev: m.set(device=copy.deepcopy(dev))._record)
    assert new.get("device") == "cpu"
    both(f"ud device {dev!r}", lambda m, dev=dev: m.update_defaults({"device": copy.deepcopy(dev)}))
    both(f"update device {dev!r}",
         lambda m, dev=dev: m.update({}, {"n": {"device": copy.deepcopy(dev)}}))
    assert new.get("device") == "cpu"

snap = copy.deepcopy(new.config)
for label, fn in [
    ("ctx", lambda m: m.set({"dtype_real": "float64", "x.y_z": 0, "fresh.a.b": 1, "fresh.c": 2})),
    ("ctx kw", lambda m: m.set(viz__cmap="hot", viz__new_key=1, another=2)),
    ("ctx through scalar", lambda m: m.set({"verbose.k": 1})),
]:
    def ctx(m, fn=fn):
        with fn(m) as c:
            inside = copy.deepcopy(c)
        return [inside, copy.deepcopy(m.config)]

    both(label, ctx)
    assert typed(new.config) == typed(snap), label

# get: caught vs. propagated failures, with and without a default
for exc in (KeyError, IndexError, TypeError, MyIndexError, MyLookupError, LookupError,
            AttributeError, ZeroDivisionError, ValueError, RuntimeError, OSError):
    both(f"plant {exc.__name__}", lambda m, exc=exc: m.set({"boom": Boom(exc)})._record)
    for args in [(), (None,), (7,), ("__no_default__",)]:
        both(f"get boom {exc.__name__} {args}", lambda m, args=args: m.get("boom.k", *args))
        both(f"get boom deep {exc.__name__} {args}", lambda m, args=args: m.get("boom.k.l", *args))
for k in ["viz.colors.set.0", "verbose.k", "missing", "viz.missing", "viz.colors.set", "", "."]:
    for args in [(), (None,), (0,), ([],)]:
        both(f"get {k!r} {args}", lambda m, k=k, args=args: m.get(k, *args))
both("get override", lambda m: m.get("missing", override_with=0))
both("get override none", lambda m: m.get("missing", override_with=None))
both("get private", lambda m: m.get("a-b.c_d", config={"a_b": {"c-d": 5}}))
both("get non-str", lambda m: m.get(5))

# update: docstring examples and corner cases
both("upd doc1", lambda m: m.update({"x": 1, "y": {"a": 2}}, {"x": 2, "y": {"b": 3}}))
both("upd doc2", lambda m: m.update({"x": 1, "y": {"a": 2}}, {"x": 2, "y": {"b": 3}}, priority="old"))
both("upd doc3", lambda m: m.update({"x": 1, "y": {"a": 2}}, {"x": 2, "y": {"a": 3, "b": 3}},
                                    priority="new-defaults", defaults={"x": 0, "y": {"a": 2}}))
both("upd none/scalar", lambda m: m.update({"a": None, "b": 3, "c": [1]},
                                           {"a": {"k": 1}, "b": {"k": 2}, "c": {}}))
both("upd spell", lambda m: m.update({"a_b": {"c-d": 1}}, {"a-b": {"c_d": 2, "e": 3}}))
both("upd dev bad", lambda m: m.update({"device": "cpu"}, {"k": 1, "device": "tpu", "z": 2}))
both("upd dev partial", lambda m: (lambda o: [run(m, lambda mm: mm.update(o, {"k": 1, "device": -1})), o])({}))
both("upd not mapping", lambda m: m.update({}, [("a", 1)]))
both("merge none", lambda m: m.merge())
both("merge doc", lambda m: m.merge({"x": 1, "y": {"a": 2}}, {"y": {"b": 3}}))

# _assign called directly with other sequence types
for keys in (["a"], ("a", "b"), "ab", ["a_b", "c-d", "e"], []):
    def direct(m, keys=keys):
        d = {"a-b": {"c_d": {}}}
        s = m.set(config=d)
        s._assign(keys, 1, d)
        s._assign(keys, 2, d, ("pre",), False)
        return [d, s._record]

    both(f"_assign {keys!r}", direct)

n_fixed = NSTEPS

# --------------------------------------------------------------------------
# 2. random histories
# --------------------------------------------------------------------------
weights = [w for _, w in OPS]
makers = [f for f, _ in OPS]
for seed in range(60):
    rng = random.Random(1900 + seed)
    reset()
    for step in range(40):
        maker = rng.choices(makers, weights)[0]
        label, fn = maker(rng)
        both(f"seed {seed} step {step}: {label}", fn)

reset()
assert typed(new.config) == typed(base)
_tmp.cleanup()
print(f"C19 demo OK: {n_fixed} fixed + {NSTEPS - n_fixed} random steps, old == new everywhere")
