"""Demo for C20 / patch 2: CustomNormalization._set_limits (freezing vmin / vmax
from the data) with its two branches merged into a single exit.

A subclass carrying a verbatim copy of the ORIGINAL method is run side by side
with the installed class on many arrays / configurations / call sequences; the
frozen state (vmin, vmax, their types, the interval object) and the normalised
output must be identical, exceptions included.  The property is asserted on the
installed class: finite data -> [0, 1], monotone, limits -> 0 and 1, NaN -> masked.
"""

import itertools
import warnings

import numpy as np
from numpy.typing import NDArray

import quantem.core.visualization.custom_normalizations as cn
from quantem.core.visualization.custom_normalizations import (
    NORMALIZATION_PRESETS,
    CustomNormalization,
    ManualInterval,
)

warnings.filterwarnings("ignore")


class OriginalNormalization(CustomNormalization):
    # verbatim copy of the original method body
    def _set_limits(self, data: NDArray) -> None:
        if data.dtype == np.bool_ or data.dtype == bool:
            self.vmin, self.vmax = 0.0, 1.0
            self.interval = ManualInterval(self.vmin, self.vmax)
            return None

        self.vmin, self.vmax = self.interval.get_limits(data)
        self.interval = ManualInterval(self.vmin, self.vmax)  # set explicitly with ManualInterval
        return None


def state(norm):
    iv = norm.interval
    return (
        type(iv).__name__,
        repr(iv),
        type(getattr(iv, "vmin", None)).__name__,
        type(getattr(iv, "vmax", None)).__name__,
        repr(norm.vmin),
        repr(norm.vmax),
        type(norm.vmin).__name__,
        type(norm.vmax).__name__,
        type(norm.stretch).__name__,
        repr(norm.stretch),
    )


def attempt(fn):
    try:
        return ("ok", fn())
    except Exception as exc:  # noqa: BLE001
        return ("err", type(exc).__name__, str(exc))


def same_masked(a, b):
    if a[0] != b[0]:
        return False
    if a[0] == "err":
        return a == b
    x, y = a[1], b[1]
    if x is None or y is None:
        return x is y
    if type(x) is not type(y) or x.dtype != y.dtype or x.shape != y.shape:
        return False
    return bool(
        np.array_equal(np.ma.getmaskarray(x), np.ma.getmaskarray(y))
        and np.array_equal(np.asarray(x.data), np.asarray(y.data), equal_nan=True)
    )


def datasets():
    rng = np.random.default_rng(2020)
    d = {}
    d["f64_5x7"] = rng.normal(size=(5, 7)) * 13 + 2
    d["f32_3x11"] = (rng.normal(size=(3, 11)) * 5).astype(np.float32)
    d["f16_9"] = rng.uniform(-2, 2, size=9).astype(np.float16)
    x = rng.normal(size=(6, 5)) * 4
    x[0, 0], x[2, 3], x[5, 4], x[1, 1] = np.nan, np.inf, -np.inf, np.nan
    d["naninf_6x5"] = x
    d["int64_4x3"] = rng.integers(-50, 50, size=(4, 3))
    d["uint8_7x2"] = rng.integers(0, 255, size=(7, 2), dtype=np.uint8)
    d["uint16_3x3x2"] = rng.integers(0, 60000, size=(3, 3, 2), dtype=np.uint16)
    d["bool_3x5"] = rng.integers(0, 2, size=(3, 5)).astype(bool)
    d["bool_alltrue"] = np.ones((2, 2), dtype=np.bool_)
    d["bool_empty"] = np.zeros((0, 4), dtype=bool)
    d["two_values"] = np.array([[3.0, 3.0, 8.0]])
    d["constant"] = np.full((4, 4), 2.5)
    d["single"] = np.array([7.0])
    d["zerod"] = np.array(4.0)
    d["tiny_range"] = 1.0 + np.arange(5) * 1e-13
    d["huge"] = np.array([-1e300, 0.0, 1e300, 1e-300])
    d["masked"] = np.ma.masked_invalid(np.array([1.0, np.nan, 5.0, 9.0]))
    d["complex"] = np.array([1 + 2j, 3 - 1j, 0.5j])
    # failure injection: nothing finite to take limits from
    d["empty"] = np.zeros((0,), dtype=np.float64)
    d["allnan"] = np.full((2, 3), np.nan)
    d["object"] = np.array([1.0, None, 3.0], dtype=object)
    d["strings"] = np.array(["a", "b"])
    return d


def configs():
    c = []
    for preset in NORMALIZATION_PRESETS:
        cfg = NORMALIZATION_PRESETS[preset]()
        c.append((f"preset:{preset}", dict(vars(cfg))))
    c += [
        ("q10-90/power0.5", dict(interval_type="quantile", lower_quantile=0.1, upper_quantile=0.9, power=0.5)),
        ("q0-1/log7", dict(interval_type="quantile", lower_quantile=0.0, upper_quantile=1.0, stretch_type="logarithmic", logarithmic_index=7.0)),
        ("q-reversed", dict(interval_type="quantile", lower_quantile=0.9, upper_quantile=0.2)),
        ("q-bad", dict(interval_type="quantile", lower_quantile=-0.5, upper_quantile=1.5)),
        ("manual vmin only", dict(interval_type="manual", vmin=-1.0)),
        ("manual vmax only", dict(interval_type="manual", vmax=3)),
        ("manual both", dict(interval_type="manual", vmin=-2.0, vmax=6.5, stretch_type="asinh", asinh_linear_range=0.3)),
        ("manual np scalars", dict(interval_type="manual", vmin=np.float32(0.5), vmax=np.int64(9))),
        ("manual inverted", dict(interval_type="manual", vmin=5.0, vmax=-5.0)),
        ("manual equal", dict(interval_type="manual", vmin=2.0, vmax=2.0)),
        ("centered c=1.5", dict(interval_type="centered", vcenter=1.5, stretch_type="asinh")),
        ("centered half", dict(interval_type="centered", vcenter=-3.0, half_range=4.0, power=2.0)),
        ("centered half0", dict(interval_type="centered", vcenter=1.0, half_range=0.0)),
    ]
    return c


DATA = datasets()
n_cases = n_err = 0

# 1. limits given at construction time (data=...), then normalise several arrays
for (cname, kw), (dname, data) in itertools.product(configs(), DATA.items()):
    r_new = attempt(lambda: CustomNormalization(data=data, **kw))
    r_old = attempt(lambda: OriginalNormalization(data=data, **kw))
    where = (cname, dname)
    assert r_new[0] == r_old[0], (where, r_new, r_old)
    n_cases += 1
    if r_new[0] == "err":
        assert r_new[1:] == r_old[1:], (where, r_new, r_old)
        n_err += 1
        continue
    new, old = r_new[1], r_old[1]
    assert state(new) == state(old), (where, state(new), state(old))
    assert isinstance(new.interval, ManualInterval)
    for other in (dname, "f64_5x7", "naninf_6x5", "uint8_7x2", "bool_3x5"):
        o_new = attempt(lambda: new(DATA[other]))
        o_old = attempt(lambda: old(DATA[other]))
        assert same_masked(o_new, o_old), (where, other, o_new, o_old)
        assert state(new) == state(old), (where, other)
    ticks = np.linspace(0, 1, 7)
    i_new, i_old = attempt(lambda: new.inverse(ticks)), attempt(lambda: old.inverse(ticks))
    assert i_new[0] == i_old[0], where
    if i_new[0] == "ok":
        assert np.array_equal(i_new[1], i_old[1], equal_nan=True), where

# 2. multi-step sequences of explicit _set_limits calls, with failures in between:
#    a failed call must leave the previously frozen limits untouched, in both versions
SEQUENCES = [
    ["f64_5x7", "empty", "f32_3x11", "bool_3x5", "naninf_6x5"],
    ["bool_3x5", "uint8_7x2", "allnan", "int64_4x3"],
    ["empty", "allnan", "object", "f64_5x7", "f64_5x7"],
    ["naninf_6x5", "bool_empty", "constant", "strings", "two_values"],
    ["zerod", "masked", "complex", "huge", "tiny_range", "single"],
]
for (cname, kw), seq in itertools.product(configs(), SEQUENCES):
    r_new = attempt(lambda: CustomNormalization(**kw))
    r_old = attempt(lambda: OriginalNormalization(**kw))
    assert r_new[0] == r_old[0] == "ok", (cname, r_new, r_old)
    new, old = r_new[1], r_old[1]
    assert state(new) == state(old)
    for dname in seq:
        before_new, before_old = state(new), state(old)
        s_new = attempt(lambda: new._set_limits(DATA[dname]))
        s_old = attempt(lambda: old._set_limits(DATA[dname]))
        where = (cname, seq, dname)
        assert s_new == s_old, (where, s_new, s_old)  # ("ok", None) or identical error
        assert state(new) == state(old), (where, state(new), state(old))
        n_cases += 1
        if s_new[0] == "err":
            n_err += 1
            assert state(new) == before_new and state(old) == before_old, where
        else:
            assert isinstance(new.interval, ManualInterval), where
            if DATA[dname].dtype == bool:
                assert (new.vmin, new.vmax) == (0.0, 1.0), where
                assert new.interval == ManualInterval(0.0, 1.0), where
        o_new = attempt(lambda: new(DATA["naninf_6x5"]))
        o_old = attempt(lambda: old(DATA["naninf_6x5"]))
        assert same_masked(o_new, o_old), where
    # objects that have no dtype at all fail the same way and change nothing
    for bad in ([1.0, 2.0], None, 3.5):
        before = state(new)
        b_new = attempt(lambda: new._set_limits(bad))
        b_old = attempt(lambda: old._set_limits(bad))
        assert b_new == b_old and b_new[0] == "err", (cname, bad, b_new, b_old)
        assert state(new) == before == state(old)

# 3. the property on the installed class
n_prop = 0
for (cname, kw), dname in itertools.product(
    configs(),
    ["f64_5x7", "f32_3x11", "naninf_6x5", "int64_4x3", "uint8_7x2", "uint16_3x3x2", "two_values", "bool_3x5"],
):
    if cname in ("q-reversed", "q-bad", "manual inverted", "manual equal", "centered half0"):
        continue  # degenerate / invalid limits are outside the property (covered by old == new above)
    data = DATA[dname]
    try:
        norm = CustomNormalization(data=data, **kw)
    except Exception:  # noqa: BLE001
        continue
    vmin, vmax = norm.vmin, norm.vmax
    if not (np.isfinite(vmin) and np.isfinite(vmax) and vmax > vmin):
        continue
    single = np.asarray(data).dtype == np.float32 or isinstance(kw.get("vmin"), np.float32)
    eps = 1e-5 if single else 1e-9
    keep = np.array(data, copy=True)
    out = norm(data)
    assert np.array_equal(np.asarray(data), keep, equal_nan=True), "input modified"
    assert isinstance(out, np.ma.MaskedArray) and out.shape == data.shape
    as_float = np.asarray(data, dtype=np.float64)
    nan = np.isnan(as_float)
    assert np.array_equal(np.ma.getmaskarray(out), nan), (cname, dname)
    assert np.all(np.isnan(np.asarray(out.data)[nan]))
    vals = np.asarray(out.data, dtype=np.float64)[~nan]
    assert vals.min() >= -eps and vals.max() <= 1 + eps, (cname, dname, vals.min(), vals.max())
    order = np.argsort(as_float[~nan], kind="stable")
    assert np.all(np.diff(vals[order]) >= -eps), (cname, dname)
    lim = norm(np.array([vmin, vmax], dtype=np.float64))
    assert abs(lim[0]) <= eps and abs(lim[1] - 1.0) <= eps, (cname, dname, lim)
    n_prop += 1

print(f"{n_cases} construction / _set_limits cases identical to the original ({n_err} raising identically)")
print(f"property asserted for {n_prop} (configuration, data) pairs")
print("PASS")
