"""Demo for property C10 (object / probe constraints yield physically admissible models).

Runs the three anchored mechanisms

    ObjectConstraints.apply_hard_constraints
    ProbeConstraints._probe_orthogonalization_constraint
    ProbePixelated._apply_weights

of the tree on PYTHONPATH against verbatim copies of the ORIGINAL functions (embedded
below), on real model instances, over a spread of inputs / configurations, and requires

  * old == new bit-for-bit (values, dtypes, shapes, gradients, in-place side effects), and
  * the C10 property itself (amplitude bounds, positivity, slice tying, idempotent amplitude,
    orthogonality / intensity multiset / descending order, intensity + weight normalisation).

CPU only, no network, no files written.
"""

import itertools
import math  # noqa: F401  (used by the library functions)
import warnings

import numpy as np
import torch
import torch.nn as nn

from quantem.diffractive_imaging.object_models import ObjectConstraints, ObjectPixelated
from quantem.diffractive_imaging.probe_models import (
    ProbeConstraints,
    ProbePixelated,
)

warnings.filterwarnings("ignore")
torch.manual_seed(0)
torch.set_num_threads(1)


# --------------------------------------------------------------------------------------
# verbatim copies of the ORIGINAL functions
# --------------------------------------------------------------------------------------
def ORIG_obj_apply_hard_constraints(self, obj, mask=None):
    if self.obj_type in ["complex", "pure_phase"]:
        if self.obj_type == "complex":
            amp = torch.clamp(torch.abs(obj), 0.0, 1.0)
        else:
            amp = 1.0
        phase = obj.angle() - obj.angle().mean()
        if mask is not None and self.constraints["apply_fov_mask"]:
            obj2 = amp * mask * torch.exp(1.0j * phase * mask)
        else:
            obj2 = amp * torch.exp(1.0j * phase)
    else:  # potential
        if self.constraints["fix_potential_baseline"]:
            if mask is not None:
                background = mask < 0.5 * mask.max()
                if background.any():
                    offset = obj[background].mean()
                else:
                    offset = obj.min()
            else:
                offset = obj.min()
            offset = offset.detach()
            offset *= self.constraints["fix_potential_baseline_factor"]
        else:
            offset = 0

        if self.constraints.get("positivity", True):
            obj2 = torch.clamp(obj - offset, min=0.0)
        else:
            obj2 = obj - offset

    if self.constraints["apply_fov_mask"] and mask is not None:
        obj2 *= mask

    # want backwards compatibility for gaussian_sigma and q_lowpass/q_highpass, so use get
    if self.constraints.get("gaussian_sigma") is not None:
        obj2 = self.gaussian_blur_2d(obj2, sigma=self.constraints["gaussian_sigma"])

    if any([self.constraints["q_lowpass"], self.constraints["q_highpass"]]):
        obj2 = self.butterworth_constraint(
            obj2,
            sampling=self.sampling,
        )
    if self.num_slices > 1:
        if self.constraints["identical_slices"]:
            with torch.no_grad():
                obj2[:] = torch.mean(obj2, dim=0, keepdim=True)

    return obj2


def ORIG_probe_orthogonalization_constraint(self, start_probe):
    ### this is not very efficient with Adam, should find a better way
    n_probes = start_probe.shape[0]
    orthogonal_probes = []
    # Equivalent to torch.norm(..., dim=(-2,-1), keepdim=True)
    # original_norms = torch.norm(start_probe, dim=(-2, -1), keepdim=True)
    original_norms = torch.sqrt(
        torch.sum(
            start_probe.real.square() + start_probe.imag.square(), dim=(-2, -1), keepdim=True
        )
    )

    # Apply Gram-Schmidt process
    for i in range(n_probes):
        probe_i = start_probe[i]

        # Subtract projections onto previously computed orthogonal probes
        for j in range(len(orthogonal_probes)):
            projection = (
                torch.sum(orthogonal_probes[j].conj() * probe_i) * orthogonal_probes[j]
            )
            probe_i = probe_i - projection

        # norm = torch.norm(probe_i)
        norm = torch.sqrt(torch.sum(probe_i.real.square() + probe_i.imag.square())).clamp_min(
            1e-12
        )
        orthogonal_probes.append(probe_i / norm)

    orthogonal_probes = torch.stack(orthogonal_probes)
    orthogonal_probes = orthogonal_probes * original_norms.view(-1, 1, 1)

    # Sort probes by real-space intensity
    intensities = torch.sum(torch.abs(orthogonal_probes).square(), dim=(-2, -1))
    intensities_order = torch.argsort(intensities, descending=True)

    # MPS-safe fancy indexing
    real_sorted = orthogonal_probes.real[intensities_order]
    imag_sorted = orthogonal_probes.imag[intensities_order]
    orthogonal_probes_sorted = torch.complex(real_sorted, imag_sorted)

    return orthogonal_probes_sorted


def ORIG_apply_weights(self, probe_array):
    probes = self._to_torch(probe_array)
    probe_intensity = torch.sum(torch.abs(torch.fft.fft2(probes, norm="ortho")).square())
    intensity_norm = torch.sqrt(self.mean_diffraction_intensity / probe_intensity)
    probes *= intensity_norm

    current_weights = torch.sum(torch.abs(probes).square(), dim=(1, 2))
    current_weights = current_weights / torch.sum(current_weights)
    weight_scaling = torch.sqrt(self.initial_probe_weights.to(self.device) / current_weights)
    probes = probes * self._to_torch(weight_scaling)[:, None, None]

    # self._initial_probe = self._to_torch(probes)
    # self._probe = self._initial_probe.clone()
    return probes


# --------------------------------------------------------------------------------------
# helpers
# --------------------------------------------------------------------------------------
def bits(t: torch.Tensor) -> np.ndarray:
    """Raw bytes of a tensor (so that -0.0 / NaN payloads are compared too)."""
    t = t.detach().contiguous()
    if t.is_complex():
        t = torch.view_as_real(t).contiguous()
    return t.numpy().view(np.uint8)


def assert_same(a: torch.Tensor, b: torch.Tensor, what: str):
    assert type(a) is type(b), (what, type(a), type(b))
    assert a.dtype == b.dtype, (what, a.dtype, b.dtype)
    assert a.shape == b.shape, (what, a.shape, b.shape)
    assert a.requires_grad == b.requires_grad, (what, a.requires_grad, b.requires_grad)
    assert np.array_equal(bits(a), bits(b)), f"{what}: old and new differ bitwise"


def run_with_grad(fn, self, raw: torch.Tensor, *args, **kwargs):
    """Call fn on a fresh leaf copy of raw, return (output, gradient of a fixed scalar loss)."""
    leaf = raw.clone().detach().requires_grad_(True)
    out = fn(self, leaf, *args, **kwargs)
    if out.is_complex():
        loss = (out.real * 0.37 + out.imag * 0.11).sum() + out.abs().square().sum()
    else:
        loss = (out * 0.37).sum() + out.square().sum()
    (grad,) = torch.autograd.grad(loss, leaf, allow_unused=True)
    if grad is None:
        grad = torch.zeros_like(leaf)
    return out, grad, leaf


# --------------------------------------------------------------------------------------
# 1. object hard constraints
# --------------------------------------------------------------------------------------
def make_raw(obj_type: str, shape, scale: float, kind: str) -> torch.Tensor:
    g = torch.Generator().manual_seed(1234 + 17 * shape[0] + len(kind))
    if obj_type == "potential":
        raw = torch.randn(shape, generator=g) * scale
        if kind == "shifted":
            raw = raw + 3.0 * scale
        elif kind == "negative":
            raw = -raw.abs()
        elif kind == "zeros":
            raw = torch.zeros(shape)
        return raw.to(torch.float32)
    amp = torch.rand(shape, generator=g) * scale
    ph = (torch.rand(shape, generator=g) - 0.5) * 2 * np.pi
    if kind == "shifted":
        amp = amp + scale
    elif kind == "negative":
        ph = ph * 0.01 + np.pi  # near the branch cut
    elif kind == "zeros":
        amp = torch.zeros(shape)
    return torch.polar(amp.to(torch.float32), ph.to(torch.float32))


def make_mask(shape, kind: str, complex_mask: bool):
    if kind == "none":
        return None
    g = torch.Generator().manual_seed(99)
    if kind == "rand":
        m = torch.rand(shape, generator=g)
    elif kind == "binary":
        m = (torch.rand(shape, generator=g) > 0.4).to(torch.float32)
    elif kind == "ones":
        m = torch.ones(shape)
    else:
        raise ValueError(kind)
    m = m.to(torch.float32)
    if complex_mask:
        m = m.to(torch.complex64)
    return m


def check_object_constraints():
    n_cases = 0
    shapes = [(1, 6, 7), (2, 8, 8), (5, 5, 9)]
    for obj_type, shape in itertools.product(["complex", "pure_phase", "potential"], shapes):
        ns = shape[0]
        model = ObjectPixelated.from_uniform(
            num_slices=ns,
            slice_thicknesses=None if ns == 1 else 2.0,
            obj_type=obj_type,
        )
        model._obj = nn.Parameter(torch.ones(shape, dtype=model.dtype), requires_grad=True)
        model.sampling = (0.4, 0.5)
        assert model.num_slices == ns
        defaults = dict(ObjectConstraints.DEFAULT_CONSTRAINTS)

        cfgs = []
        for positivity, baseline, identical, fov in itertools.product(
            [True, False], [False, True], [False, True], [False, True]
        ):
            if obj_type != "potential" and (not positivity or baseline):
                continue  # irrelevant for complex objects
            cfgs.append(
                {
                    "positivity": positivity,
                    "fix_potential_baseline": baseline,
                    "fix_potential_baseline_factor": 0.8 if baseline else 1.0,
                    "identical_slices": identical,
                    "apply_fov_mask": fov,
                }
            )
        # a few filtered configurations (outside the amplitude claim, old == new only)
        filt_cfgs = [
            {"gaussian_sigma": 0.8},
            {"q_lowpass": 0.6, "identical_slices": True},
            {"q_highpass": 0.1, "q_lowpass": 0.7, "apply_fov_mask": True},
        ]

        for cfg in cfgs + filt_cfgs:
            filtered = cfg in filt_cfgs
            model._constraints = defaults | cfg
            for scale, kind, mkind in itertools.product(
                [1e-3, 0.7, 30.0, 1e6],
                ["plain", "shifted", "negative", "zeros"],
                ["none", "rand", "binary", "ones"],
            ):
                if filtered and (scale not in (0.7, 30.0) or kind != "plain"):
                    continue
                raw = make_raw(obj_type, shape, scale, kind)
                for complex_mask in ([False, True] if obj_type != "potential" else [False]):
                    mask = make_mask(shape, mkind, complex_mask)
                    if mask is None and complex_mask:
                        continue
                    new, g_new, leaf_new = run_with_grad(
                        ObjectConstraints.apply_hard_constraints, model, raw, mask
                    )
                    old, g_old, leaf_old = run_with_grad(
                        ORIG_obj_apply_hard_constraints, model, raw, mask
                    )
                    tag = f"obj {obj_type} {shape} {cfg} scale={scale} {kind} mask={mkind}"
                    assert_same(old, new, tag + " [value]")
                    assert_same(g_old, g_new, tag + " [grad]")
                    assert_same(leaf_old, leaf_new, tag + " [input untouched]")
                    assert_same(leaf_new.detach(), raw, tag + " [input untouched vs raw]")
                    # keyword form of the call
                    new_kw = ObjectConstraints.apply_hard_constraints(model, raw.clone(), mask=mask)
                    assert_same(old.detach(), new_kw.detach(), tag + " [kw]")
                    n_cases += 1

                    if filtered:
                        if cfg.get("identical_slices") and ns > 1:
                            assert all(torch.equal(new[0], new[k]) for k in range(ns)), tag
                        continue

                    # ---- the property -------------------------------------------------
                    out = new.detach()
                    if obj_type == "complex":
                        assert out.is_complex()
                        assert float(out.abs().max()) <= 1.0 + 1e-5, (tag, float(out.abs().max()))
                    elif obj_type == "pure_phase":
                        assert out.is_complex()
                        if mask is None or not cfg["apply_fov_mask"]:
                            if not (cfg["identical_slices"] and ns > 1):
                                assert torch.allclose(
                                    out.abs(), torch.ones_like(out.abs()), atol=1e-5
                                ), tag
                        assert float(out.abs().max()) <= 1.0 + 1e-5, tag
                    else:
                        assert not out.is_complex()
                        if cfg["positivity"]:
                            assert float(out.min()) >= 0.0, (tag, float(out.min()))
                    if cfg["identical_slices"] and ns > 1:
                        assert all(torch.equal(out[0], out[k]) for k in range(ns)), tag
                    # idempotent amplitude (no mask, no slice tying: exact claim)
                    if (
                        mask is None
                        and not cfg["fix_potential_baseline"]
                        and not (cfg["identical_slices"] and ns > 1)
                    ):
                        twice = ObjectConstraints.apply_hard_constraints(model, out.clone(), None)
                        twice_old = ORIG_obj_apply_hard_constraints(model, out.clone(), None)
                        assert_same(twice_old, twice, tag + " [twice]")
                        assert torch.allclose(twice.abs(), out.abs(), atol=2e-6, rtol=1e-5), tag

        # through the public accessor, with the model's own (expanded, typed) mask
        model._constraints = defaults | {"apply_fov_mask": True, "identical_slices": True}
        model.mask = make_mask(shape[1:], "rand", False).numpy()
        raw = make_raw(obj_type, shape, 2.0, "plain")
        model._obj = nn.Parameter(raw.clone(), requires_grad=True)
        via_prop = model.obj
        ref = ORIG_obj_apply_hard_constraints(model, model._obj, mask=model.mask)
        assert_same(ref, via_prop, f"obj accessor {obj_type} {shape}")
        n_cases += 1
    return n_cases


# --------------------------------------------------------------------------------------
# 2. probe orthogonalisation and 3. probe normalisation
# --------------------------------------------------------------------------------------
def make_probes(n: int, shape, corr: float, seed: int, scale: float) -> torch.Tensor:
    g = torch.Generator().manual_seed(seed)
    base = torch.complex(torch.randn(shape, generator=g), torch.randn(shape, generator=g))
    base = base / base.abs().square().sum().sqrt()
    modes = []
    for k in range(n):
        noise = torch.complex(torch.randn(shape, generator=g), torch.randn(shape, generator=g))
        noise = noise / noise.abs().square().sum().sqrt()
        m = corr * base + math.sqrt(max(1.0 - corr**2, 0.0)) * noise
        # distinct intensities, not already sorted
        w = scale * (0.3 + ((k * 7) % 5) * 0.45)
        modes.append(m * w)
    return torch.stack(modes).to(torch.complex64)


def check_probe_orthogonalisation():
    n_cases = 0
    for n, shape, corr, scale in itertools.product(
        [1, 2, 3, 5], [(8, 8), (12, 10)], [0.0, 0.5, 0.9, 0.99], [1e-3, 1.0, 250.0]
    ):
        raw = make_probes(n, shape, corr, seed=n * 100 + shape[0], scale=scale)
        model = ProbePixelated.from_array(raw.clone(), num_probes=n)
        new, g_new, leaf_new = run_with_grad(
            ProbeConstraints._probe_orthogonalization_constraint, model, raw
        )
        old, g_old, leaf_old = run_with_grad(ORIG_probe_orthogonalization_constraint, model, raw)
        tag = f"ortho n={n} shape={shape} corr={corr} scale={scale}"
        assert_same(old, new, tag + " [value]")
        assert_same(g_old, g_new, tag + " [grad]")
        assert_same(leaf_new.detach(), raw, tag + " [input untouched]")
        new_kw = ProbeConstraints._probe_orthogonalization_constraint(model, start_probe=raw)
        assert_same(old.detach(), new_kw, tag + " [kw]")
        n_cases += 1

        # through the public accessor / apply_hard_constraints
        model._constraints = dict(ProbeConstraints.DEFAULT_CONSTRAINTS)
        assert model.constraints["orthogonalize_probe"] is True
        via_prop = model.probe
        assert_same(
            ORIG_probe_orthogonalization_constraint(model, model._probe), via_prop, tag + " [prop]"
        )

        # ---- the property -------------------------------------------------------------
        out = new.detach().to(torch.complex128)
        flat = out.reshape(n, -1)
        gram = flat.conj() @ flat.T
        norms = gram.diagonal().real.sqrt()
        rel = (gram / (norms[:, None] * norms[None, :])).abs() - torch.eye(n, dtype=torch.float64)
        assert float(rel.abs().max()) < 5e-3, (tag, float(rel.abs().max()))
        inten_out = out.abs().square().sum(dim=(-2, -1))
        inten_in = raw.to(torch.complex128).abs().square().sum(dim=(-2, -1))
        assert torch.all(inten_out[:-1] >= inten_out[1:]), (tag, inten_out)
        assert torch.allclose(
            inten_out, inten_in.sort(descending=True).values, rtol=1e-4, atol=0
        ), (tag, inten_out, inten_in)
    return n_cases


def check_apply_weights():
    n_cases = 0
    weight_sets = {
        1: [None, [1.0]],
        2: [None, [0.7, 0.3], [1.0, 1.0]],
        3: [None, [0.5, 0.3, 0.2], [1, 2, 3]],
        5: [None, [5.0, 4.0, 3.0, 2.0, 1.0]],
    }
    for n, shape, mean_int, scale in itertools.product(
        [1, 2, 3, 5], [(8, 8), (12, 10)], [1e-2, 1.0, 37.5, 1e5], [1e-3, 1.0, 40.0]
    ):
        for weights in weight_sets[n]:
            raw = make_probes(n, shape, 0.4, seed=7 * n + shape[1], scale=scale)
            model = ProbePixelated.from_array(
                raw.clone(), num_probes=n, initial_probe_weights=weights
            )
            model.mean_diffraction_intensity = mean_int
            tag = f"weights n={n} shape={shape} I={mean_int} scale={scale} w={weights}"

            for as_numpy in (False, True):
                if as_numpy:
                    in_new, in_old = raw.numpy().copy(), raw.numpy().copy()
                else:
                    in_new, in_old = raw.clone(), raw.clone()
                new = ProbePixelated._apply_weights(model, in_new)
                old = ORIG_apply_weights(model, in_old)
                assert_same(old, new, tag + f" [value numpy={as_numpy}]")
                # in-place side effect on the argument (tensor input is rescaled in place)
                assert_same(
                    torch.as_tensor(in_old), torch.as_tensor(in_new), tag + " [arg side effect]"
                )
                if as_numpy:
                    assert np.array_equal(in_new, raw.numpy()), tag + " [numpy arg untouched]"
                n_cases += 1

            new_kw = ProbePixelated._apply_weights(model, probe_array=raw.clone())
            assert_same(old, new_kw, tag + " [kw]")

            # ---- the property ---------------------------------------------------------
            out = new.to(torch.complex128)
            total = torch.fft.fft2(out, norm="ortho").abs().square().sum()
            assert math.isclose(float(total), mean_int, rel_tol=1e-4), (tag, float(total))
            w_out = out.abs().square().sum(dim=(1, 2))
            w_out = w_out / w_out.sum()
            w_req = model.initial_probe_weights.to(torch.float64)
            w_req = w_req / w_req.sum()
            assert torch.allclose(w_out, w_req, rtol=1e-4, atol=1e-7), (tag, w_out, w_req)
    return n_cases


if __name__ == "__main__":
    a = check_object_constraints()
    b = check_probe_orthogonalisation()
    c = check_apply_weights()
    print(f"C10 demo OK: {a} object cases, {b} orthogonalisation cases, {c} weight cases")
