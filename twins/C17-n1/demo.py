"""C17 demo: phase unwrapping recovers any smooth phase up to a constant.

Shared by all five behaviour-preserving patches.  The script embeds a verbatim
copy of the ORIGINAL unwrapping code (imaging_utils.py helpers and
direct_ptycho_utils.unwrap_bf_overlap_phase_torch) and asserts that the
installed (possibly patched) functions return bit-identical results on a spread
of fields, masks and wrap_around settings.  It also asserts the property itself
(Itoh condition => exact recovery up to one constant per connected region).

Run as:  PYTHONPATH=<root>/src /venv/bin/python demo.py
"""

import math
import tempfile

import numpy as np
import torch

import quantem.core.utils.imaging_utils as iu
import quantem.diffractive_imaging.direct_ptycho_utils as du

# ----------------------------------------------------------------------------
# verbatim copy of the ORIGINAL code (worktree HEAD)
# ----------------------------------------------------------------------------


def _wrap_to_pi(x):
    return (x + math.pi) % (2 * math.pi) - math.pi


def _find_wrap(a, b):
    d = a - b
    return torch.where(d > math.pi, -1, torch.where(d < -math.pi, 1, 0))


def _pixel_reliability(phi, mask=None):
    """
    phi: (H, W) wrapped phase (CPU tensor)
    mask: optional boolean mask
    """
    c = phi
    left = torch.roll(c, 1, 1)
    right = torch.roll(c, -1, 1)
    up = torch.roll(c, 1, 0)
    down = torch.roll(c, -1, 0)

    ul = torch.roll(left, 1, 0)
    dr = torch.roll(right, -1, 0)
    ur = torch.roll(right, 1, 0)
    dl = torch.roll(left, -1, 0)

    Hterm = _wrap_to_pi(left - c) - _wrap_to_pi(c - right)
    Vterm = _wrap_to_pi(up - c) - _wrap_to_pi(c - down)
    D1term = _wrap_to_pi(ul - c) - _wrap_to_pi(c - dr)
    D2term = _wrap_to_pi(ur - c) - _wrap_to_pi(c - dl)

    R = Hterm**2 + Vterm**2 + D1term**2 + D2term**2

    if mask is not None:
        R = torch.where(mask, R, torch.full_like(R, float("inf")))

    return R


def _build_edges(phi, reliability, mask=None, wrap_around=True):
    """
    Returns edges as CPU tensors:
        i1, i2, inc sorted by reliability
    """
    H, W = phi.shape
    N = H * W

    idx = torch.arange(N).reshape(H, W)
    edges = []

    phi_f = phi.flatten()
    rel_f = reliability.flatten()
    mask_f = mask.flatten() if mask is not None else None

    def add_edges(i1, i2):
        if mask_f is not None:
            valid = mask_f[i1] & mask_f[i2]
            i1, i2 = i1[valid], i2[valid]

        inc = _find_wrap(phi_f[i1], phi_f[i2])
        rel = rel_f[i1] + rel_f[i2]

        edges.append(  # ty:ignore[possibly-missing-attribute]
            torch.stack([i1, i2, rel, inc], dim=1)
        )

    if wrap_around:
        add_edges(idx.flatten(), torch.roll(idx, -1, 1).flatten())
        add_edges(idx.flatten(), torch.roll(idx, -1, 0).flatten())
    else:
        add_edges(idx[:, :-1].flatten(), idx[:, 1:].flatten())
        add_edges(idx[:-1, :].flatten(), idx[1:, :].flatten())

    edges = torch.cat(edges, dim=0)
    edges = edges[edges[:, 2].argsort()]

    # return integer tensors only (CPU)
    return (
        edges[:, 0].long(),
        edges[:, 1].long(),
        edges[:, 3].long(),
    )


class UnionFindPhase:
    def __init__(self, n):
        self.parent = torch.arange(n)
        self.rank = torch.zeros(n, dtype=torch.int32)
        self.offset = torch.zeros(n)

    def find_root_and_offset(self, x):
        root = x
        total = 0.0
        while self.parent[root] != root:
            total += self.offset[root]
            root = self.parent[root]
        return root, total

    def union(self, x, y, inc_xy):
        rx, ox = self.find_root_and_offset(x)
        ry, oy = self.find_root_and_offset(y)

        if rx == ry:
            return

        # phase(y) + oy + inc = phase(x) + ox
        delta = ox - oy - inc_xy

        if self.rank[rx] < self.rank[ry]:
            self.parent[rx] = ry
            self.offset[rx] = -delta
        else:
            self.parent[ry] = rx
            self.offset[ry] = delta
            if self.rank[rx] == self.rank[ry]:
                self.rank[rx] += 1


def _final_offsets(uf):
    """
    Single-pass offset computation (no path compression).
    """
    N = uf.parent.numel()
    incs = torch.zeros(N)

    for i in range(N):
        root = i
        total = 0.0
        while uf.parent[root] != root:
            total += uf.offset[root]
            root = uf.parent[root]
        incs[i] = total

    return incs


def _unwrap_phase_2d_torch_reliability_sorting(
    phi,
    mask=None,
    wrap_around=True,
):
    """
    Herraez 2D phase unwrapping.
    Runs on CPU by design.
    """
    with torch.no_grad():
        orig_device = phi.device
        phi = phi.detach().cpu()
        if mask is not None:
            mask = mask.detach().cpu().to(torch.bool)

        H, W = phi.shape
        N = H * W

        reliability = _pixel_reliability(phi, mask)

        i1, i2, inc = _build_edges(
            phi,
            reliability,
            mask,
            wrap_around=wrap_around,
        )

        uf = UnionFindPhase(N)

        for k in range(i1.numel()):
            uf.union(i1[k].item(), i2[k].item(), inc[k].item())

        incs = _final_offsets(uf)

        out = (phi.flatten() + 2 * math.pi * incs).reshape(H, W)
        out -= out.mean()
        return out.to(orig_device)


def _unwrap_phase_2d_torch_poisson(
    phi_wrapped,
    mask=None,
    wrap_around=True,
    regularization_lambda=None,
):
    device = phi_wrapped.device
    dtype = phi_wrapped.dtype
    H, W = phi_wrapped.shape

    if not wrap_around:
        raise NotImplementedError()

    if mask is not None:
        mask = mask.to(device=device, dtype=torch.bool)

    dx = torch.roll(phi_wrapped, -1, dims=1) - phi_wrapped
    dy = torch.roll(phi_wrapped, -1, dims=0) - phi_wrapped

    dx = (dx + math.pi) % (2 * math.pi) - math.pi
    dy = (dy + math.pi) % (2 * math.pi) - math.pi

    if mask is not None:
        mask_x = mask & torch.roll(mask, -1, dims=1)
        mask_y = mask & torch.roll(mask, -1, dims=0)

        dx = torch.where(mask_x, dx, torch.zeros_like(dx))
        dy = torch.where(mask_y, dy, torch.zeros_like(dy))

    div = dx - torch.roll(dx, 1, dims=1) + dy - torch.roll(dy, 1, dims=0)

    if mask is not None:
        div = torch.where(mask, div, torch.zeros_like(div))

    div_hat = torch.fft.fftn(div)

    ky = torch.fft.fftfreq(H, device=device, dtype=dtype) * 2 * math.pi
    kx = torch.fft.fftfreq(W, device=device, dtype=dtype) * 2 * math.pi
    ky, kx = torch.meshgrid(ky, kx, indexing="ij")

    if regularization_lambda is not None:
        denom = kx**2 + ky**2 + regularization_lambda
    else:
        denom = kx**2 + ky**2
    denom[0, 0] = 1.0  # avoid divide by zero

    phi_hat = -div_hat / denom
    phi_hat[0, 0] = 0.0  # fix piston

    phi = torch.fft.ifftn(phi_hat).real

    if mask is not None:
        phi = torch.where(mask, phi, torch.zeros_like(phi))

    return phi


def unwrap_phase_2d_torch(
    phi_wrapped,
    method="reliability-sorting",
    mask=None,
    wrap_around=True,
    regularization_lambda=None,
):
    if method == "reliability-sorting":
        return _unwrap_phase_2d_torch_reliability_sorting(
            phi_wrapped, mask, wrap_around=wrap_around
        )
    elif method == "poisson":
        return _unwrap_phase_2d_torch_poisson(
            phi_wrapped,
            mask,
            wrap_around=wrap_around,
            regularization_lambda=regularization_lambda,
        )
    else:
        raise ValueError(
            f'`method` must be one of {{"reliability-sorting", "poisson"}}, got {method!r}'
        )


def unwrap_bf_overlap_phase_torch(
    complex_data_bf,  # (N_k,)
    mask_bf,  # (N_k,)
    bf_mask,  # (N_kx, N_ky)
    *,
    method="reliability-sorting",
    two_pass=True,
    **unwrap_kwargs,
):
    phase_bf = torch.angle(complex_data_bf)
    phase_grid = torch.zeros_like(bf_mask, dtype=torch.float32)
    mask_grid = torch.zeros_like(bf_mask, dtype=torch.bool)

    phase_grid[bf_mask] = phase_bf
    mask_grid[bf_mask] = mask_bf

    if mask_grid.any():
        if phase_grid.max() - phase_grid.min() > math.pi:
            phase_grid = unwrap_phase_2d_torch(
                phase_grid * mask_grid,
                method=method,
                mask=mask_grid,
                **unwrap_kwargs,
            )
            phase_grid = phase_grid * mask_grid

            if two_pass:
                phase_grid = unwrap_phase_2d_torch(
                    phase_grid,
                    method=method,
                    mask=mask_grid,
                    **unwrap_kwargs,
                )
                phase_grid = phase_grid * mask_grid

    return phase_grid[bf_mask]


# ----------------------------------------------------------------------------
# helpers
# ----------------------------------------------------------------------------

CHECKS = {"bitwise": 0, "property": 0}


def same(a, b, what):
    """Bit-for-bit equality of tensors (NaN-safe), dtype, shape."""
    assert type(a) is type(b), (what, type(a), type(b))
    if isinstance(a, (tuple, list)):
        assert len(a) == len(b), what
        for k, (x, y) in enumerate(zip(a, b)):
            same(x, y, f"{what}[{k}]")
        return
    assert a.dtype == b.dtype, (what, a.dtype, b.dtype)
    assert a.shape == b.shape, (what, a.shape, b.shape)
    assert a.device == b.device, what
    na = a.detach().contiguous().numpy().tobytes()
    nb = b.detach().contiguous().numpy().tobytes()
    assert na == nb, f"{what}: old and new differ"
    CHECKS["bitwise"] += 1


def same_exc(f_new, f_old, what):
    try:
        f_old()
    except Exception as e:  # noqa: BLE001
        e_old = e
    else:
        raise AssertionError(f"{what}: original did not raise")
    try:
        f_new()
    except Exception as e:  # noqa: BLE001
        e_new = e
    else:
        raise AssertionError(f"{what}: new did not raise")
    assert type(e_old) is type(e_new), (what, e_old, e_new)
    assert str(e_old) == str(e_new), (what, str(e_old), str(e_new))
    CHECKS["bitwise"] += 1


def max_neighbour_diff(f, periodic):
    if periodic:
        dx = (torch.roll(f, -1, 1) - f).abs().max() if f.shape[1] > 1 else torch.tensor(0.0)
        dy = (torch.roll(f, -1, 0) - f).abs().max() if f.shape[0] > 1 else torch.tensor(0.0)
    else:
        dx = (f[:, 1:] - f[:, :-1]).abs().max() if f.shape[1] > 1 else torch.tensor(0.0)
        dy = (f[1:, :] - f[:-1, :]).abs().max() if f.shape[0] > 1 else torch.tensor(0.0)
    return float(max(dx, dy))


def rescale(f, periodic, target=2.6):
    m = max_neighbour_diff(f, periodic)
    if m > 0:
        f = f * (target / m)
    return f.to(torch.float32)


def fields(H, W, periodic, rng):
    y, x = torch.meshgrid(
        torch.arange(H, dtype=torch.float64), torch.arange(W, dtype=torch.float64), indexing="ij"
    )
    out = {}
    if periodic:
        out["sin"] = torch.sin(2 * math.pi * x / W + 0.3) + 0.7 * torch.cos(2 * math.pi * y / H)
        out["sin2"] = torch.sin(2 * math.pi * (x / W + y / H)) * 3.0
        ph = rng.uniform(0, 2 * math.pi, size=4)
        out["rand"] = (
            rng.normal() * torch.cos(2 * math.pi * x / W + ph[0])
            + rng.normal() * torch.cos(2 * math.pi * y / H + ph[1])
            + rng.normal() * torch.cos(2 * math.pi * (x / W - y / H) + ph[2])
            + rng.normal() * torch.cos(2 * math.pi * (2 * x / W + y / H) + ph[3])
        )
    else:
        out["ramp"] = 1.3 * x - 0.8 * y
        out["quad"] = 0.2 * (x - W / 2.3) ** 2 + 0.15 * (y - H / 1.7) ** 2
        out["bump"] = 25.0 * torch.exp(
            -((x - W / 2) ** 2 + (y - H / 2) ** 2) / (2 * (0.3 * max(H, W)) ** 2)
        )
        coarse = torch.from_numpy(rng.normal(size=(1, 1, 3, 3)))
        out["rand"] = (
            torch.nn.functional.interpolate(coarse, size=(H, W), mode="bicubic", align_corners=True)[
                0, 0
            ]
            * 10.0
        )
    return {k: rescale(v, periodic) for k, v in out.items()}


def masks(H, W, rng):
    y, x = np.meshgrid(np.arange(H), np.arange(W), indexing="ij")
    r = np.hypot(x - (W - 1) / 2, y - (H - 1) / 2)
    out = {"none": None, "full": np.ones((H, W), bool)}
    out["disc"] = r <= 0.45 * min(H, W)
    out["annulus"] = (r <= 0.48 * min(H, W)) & (r >= 0.2 * min(H, W))
    two = np.zeros((H, W), bool)
    two[: max(1, H // 2 - 1), : max(1, W // 2 - 1)] = True
    two[H // 2 + 1 :, W // 2 + 1 :] = True
    out["two"] = two
    out["random"] = rng.uniform(size=(H, W)) < 0.7
    out["empty"] = np.zeros((H, W), bool)
    return {k: (None if v is None else torch.from_numpy(v)) for k, v in out.items()}


def components(mask, periodic):
    """Connected components of the mask under 4-connectivity (wrap-around if periodic)."""
    H, W = mask.shape
    lab = -np.ones((H, W), int)
    n = 0
    for sy in range(H):
        for sx in range(W):
            if not mask[sy, sx] or lab[sy, sx] >= 0:
                continue
            stack = [(sy, sx)]
            lab[sy, sx] = n
            while stack:
                cy, cx = stack.pop()
                for dy, dx in ((0, 1), (1, 0), (0, -1), (-1, 0)):
                    ny, nx = cy + dy, cx + dx
                    if periodic:
                        ny %= H
                        nx %= W
                    elif not (0 <= ny < H and 0 <= nx < W):
                        continue
                    if mask[ny, nx] and lab[ny, nx] < 0:
                        lab[ny, nx] = n
                        stack.append((ny, nx))
            n += 1
    return lab, n


def check_property(field, wrapped, out, mask, periodic, what):
    H, W = field.shape
    m = np.ones((H, W), bool) if mask is None else mask.numpy().astype(bool)
    lab, n = components(m, periodic)
    f = field.double().numpy()
    w = wrapped.double().numpy()
    o = out.double().numpy()
    # one global additive constant (the subtracted mean); recover it from any pixel
    k_all = (o - w) / (2 * math.pi)
    for c in range(n):
        sel = lab == c
        d = o[sel] - f[sel]
        assert np.ptp(d) < 2e-3, (what, "component not recovered up to a constant", np.ptp(d))
    if m.any():
        ref = k_all[m][0]
        kk = k_all[m] - ref
        assert np.abs(kk - np.round(kk)).max() < 2e-3, (what, "not integer multiples of 2*pi")
    CHECKS["property"] += 1


# ----------------------------------------------------------------------------
# main
# ----------------------------------------------------------------------------


def main():
    rng = np.random.default_rng(1717)
    torch.manual_seed(1717)

    # -- helpers: _wrap_to_pi / _find_wrap -----------------------------------
    xs = torch.cat(
        [
            torch.linspace(-20, 20, 401),
            torch.tensor([math.pi, -math.pi, 0.0, 3 * math.pi, float("nan"), float("inf")]),
        ]
    )
    same(iu._wrap_to_pi(xs), _wrap_to_pi(xs), "_wrap_to_pi f32")
    same(iu._wrap_to_pi(xs.double()), _wrap_to_pi(xs.double()), "_wrap_to_pi f64")
    same(iu._find_wrap(xs, xs.flip(0)), _find_wrap(xs, xs.flip(0)), "_find_wrap")

    shapes = [(8, 8), (7, 11), (1, 7), (6, 1), (2, 2), (3, 5)]

    for H, W in shapes:
        for periodic in (False, True):
            fs = fields(H, W, periodic, rng)
            ms = masks(H, W, rng)
            for fname, field in fs.items():
                assert max_neighbour_diff(field, periodic) < math.pi
                wrapped = _wrap_to_pi(field)
                for mname, mask in ms.items():
                    what = f"{H}x{W} periodic={periodic} field={fname} mask={mname}"

                    # helper level: reliability, edges
                    r_new = iu._pixel_reliability(wrapped, mask)
                    r_old = _pixel_reliability(wrapped, mask)
                    same(r_new, r_old, "reliability " + what)
                    for wa in (True, False):
                        e_new = iu._build_edges(wrapped, r_old, mask, wrap_around=wa)
                        e_old = _build_edges(wrapped, r_old, mask, wrap_around=wa)
                        same(e_new, e_old, f"edges wa={wa} " + what)

                    # union-find: replay the recorded merge order in both classes
                    uf_new, uf_old = iu.UnionFindPhase(H * W), UnionFindPhase(H * W)
                    i1, i2, inc = e_old
                    for k in range(i1.numel()):
                        uf_new.union(i1[k].item(), i2[k].item(), inc[k].item())
                        uf_old.union(i1[k].item(), i2[k].item(), inc[k].item())
                    same(uf_new.parent, uf_old.parent, "uf.parent " + what)
                    same(uf_new.rank, uf_old.rank, "uf.rank " + what)
                    same(uf_new.offset, uf_old.offset, "uf.offset " + what)
                    assert list(vars(uf_new)) == list(vars(uf_old))
                    same(iu._final_offsets(uf_new), _final_offsets(uf_old), "final offsets " + what)

                    # the observation point: wrap_around follows the field kind for the
                    # property, both settings for old == new
                    for wa in (True, False):
                        o_new = iu.unwrap_phase_2d_torch(wrapped, mask=mask, wrap_around=wa)
                        o_old = unwrap_phase_2d_torch(wrapped, mask=mask, wrap_around=wa)
                        same(o_new, o_old, f"unwrap wa={wa} " + what)
                        o_new2 = iu._unwrap_phase_2d_torch_reliability_sorting(wrapped, mask, wa)
                        same(o_new2, o_old, f"unwrap(rs) wa={wa} " + what)
                        if wa == periodic or (periodic and not wa):
                            # a periodic smooth field is also smooth on the bounded grid
                            check_property(field, wrapped, o_new, mask, wa, f"wa={wa} " + what)
                            # already-unwrapped smooth input: unchanged up to a constant
                            o_id = iu.unwrap_phase_2d_torch(field, mask=mask, wrap_around=wa)
                            same(
                                o_id,
                                unwrap_phase_2d_torch(field, mask=mask, wrap_around=wa),
                                "idempotent " + what,
                            )
                            check_property(field, field, o_id, mask, wa, f"id wa={wa} " + what)

                    # poisson (approximate: old == new only)
                    for lam in (None, 1e-3):
                        p_new = iu.unwrap_phase_2d_torch(
                            wrapped, method="poisson", mask=mask, regularization_lambda=lam
                        )
                        p_old = unwrap_phase_2d_torch(
                            wrapped, method="poisson", mask=mask, regularization_lambda=lam
                        )
                        same(p_new, p_old, f"poisson lam={lam} " + what)

    # -- integer / float masks, float64 phases, requires_grad input --------------
    H, W = 10, 11
    field = fields(H, W, False, rng)["quad"]
    wrapped = _wrap_to_pi(field)
    m = masks(H, W, rng)["annulus"]
    for mm in (m.to(torch.uint8), m.to(torch.float32), m.to(torch.int64)):
        same(
            iu.unwrap_phase_2d_torch(wrapped, mask=mm, wrap_around=False),
            unwrap_phase_2d_torch(wrapped, mask=mm, wrap_around=False),
            f"mask dtype {mm.dtype}",
        )
    same(
        iu.unwrap_phase_2d_torch(wrapped.double(), mask=m, wrap_around=False),
        unwrap_phase_2d_torch(wrapped.double(), mask=m, wrap_around=False),
        "float64 phase",
    )
    wg = wrapped.clone().requires_grad_(True)
    a = iu.unwrap_phase_2d_torch(wg, mask=m, wrap_around=False)
    b = unwrap_phase_2d_torch(wg, mask=m, wrap_around=False)
    assert a.requires_grad == b.requires_grad
    same(a, b, "requires_grad input")
    # positional call of the dispatcher
    same(
        iu.unwrap_phase_2d_torch(wrapped, "reliability-sorting", m, False, None),
        unwrap_phase_2d_torch(wrapped, "reliability-sorting", m, False, None),
        "positional",
    )
    same(
        iu.unwrap_phase_2d_torch(wrapped, "poisson", m, True, 0.5),
        unwrap_phase_2d_torch(wrapped, "poisson", m, True, 0.5),
        "positional poisson",
    )

    # -- error paths of the dispatcher ------------------------------------------
    for bad in ("Poisson", "", None, 3, "reliability_sorting"):
        same_exc(
            lambda: iu.unwrap_phase_2d_torch(wrapped, method=bad),
            lambda: unwrap_phase_2d_torch(wrapped, method=bad),
            f"bad method {bad!r}",
        )
    same_exc(
        lambda: iu.unwrap_phase_2d_torch(wrapped, method="poisson", wrap_around=False),
        lambda: unwrap_phase_2d_torch(wrapped, method="poisson", wrap_around=False),
        "poisson wrap_around=False",
    )
    same_exc(
        lambda: iu.unwrap_phase_2d_torch(wrapped[0]),
        lambda: unwrap_phase_2d_torch(wrapped[0]),
        "1-D input",
    )

    # -- masked embedding of bright-field phases -------------------------------
    for H, W in [(9, 9), (7, 12)]:
        ms = masks(H, W, rng)
        for bname in ("disc", "annulus", "two"):
            bf_mask = ms[bname]
            n_k = int(bf_mask.sum())
            for periodic in (False, True):
                for fname, field in fields(H, W, periodic, rng).items():
                    for scale in (1.0, 0.2):
                        ph = field[bf_mask] * scale
                        amp = torch.from_numpy(rng.uniform(0.5, 1.5, size=n_k)).float()
                        cplx = torch.polar(amp, ph)
                        for mb_name, mask_bf in (
                            ("all", torch.ones(n_k, dtype=torch.bool)),
                            ("rand", torch.from_numpy(rng.uniform(size=n_k) < 0.8)),
                            ("none", torch.zeros(n_k, dtype=torch.bool)),
                        ):
                            for kw in (
                                {},
                                {"wrap_around": False},
                                {"two_pass": False, "wrap_around": False},
                                {"method": "poisson"},
                                {"method": "poisson", "two_pass": False},
                            ):
                                what = (
                                    f"bf {H}x{W} {bname} {fname} p={periodic} s={scale} "
                                    f"{mb_name} {kw}"
                                )
                                g_new = du.unwrap_bf_overlap_phase_torch(
                                    cplx, mask_bf, bf_mask, **kw
                                )
                                g_old = unwrap_bf_overlap_phase_torch(cplx, mask_bf, bf_mask, **kw)
                                same(g_new, g_old, what)
                                if (
                                    kw.get("method") is None
                                    and kw.get("wrap_around") is False
                                    and mb_name == "all"
                                    and bname in ("disc", "annulus", "full")
                                    and scale == 1.0
                                ):
                                    # property through the embedding: one connected
                                    # region, smooth field -> recovered up to a constant
                                    span = float(torch.angle(cplx).max() - torch.angle(cplx).min())
                                    if span > math.pi:
                                        d = (g_new - ph).double().numpy()
                                        assert np.ptp(d) < 2e-3, (what, np.ptp(d))
                                        CHECKS["property"] += 1
    # shape-mismatch error path of the embedding
    bf_mask = masks(6, 6, rng)["disc"]
    n_k = int(bf_mask.sum())
    cplx = torch.polar(torch.ones(n_k + 1), torch.zeros(n_k + 1))
    same_exc(
        lambda: du.unwrap_bf_overlap_phase_torch(cplx, torch.ones(n_k, dtype=torch.bool), bf_mask),
        lambda: unwrap_bf_overlap_phase_torch(cplx, torch.ones(n_k, dtype=torch.bool), bf_mask),
        "bf shape mismatch (phase)",
    )
    cplx = torch.polar(torch.ones(n_k), torch.zeros(n_k))
    same_exc(
        lambda: du.unwrap_bf_overlap_phase_torch(
            cplx, torch.ones(n_k + 2, dtype=torch.bool), bf_mask
        ),
        lambda: unwrap_bf_overlap_phase_torch(cplx, torch.ones(n_k + 2, dtype=torch.bool), bf_mask),
        "bf shape mismatch (mask)",
    )

    with tempfile.TemporaryDirectory() as tmp:
        with open(f"{tmp}/c17_demo.txt", "w") as fh:
            fh.write(repr(CHECKS))

    assert CHECKS["bitwise"] > 1000 and CHECKS["property"] > 100, CHECKS
    print("C17 demo OK:", CHECKS)


if __name__ == "__main__":
    main()
