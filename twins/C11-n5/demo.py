"""C11 demo: ragged Vector structural invariants under random operation histories.

Three implementations are driven in lock-step through the same random history:

  new   -- quantem.core.datastructures.vector.Vector as found on PYTHONPATH
  old   -- OrigVector: the same class with VERBATIM copies of the ORIGINAL
           from_data / set_data / add_fields / remove_fields / flatten bodies
  model -- a small pure-Python reference model (dict of cells keyed by index)

After every step the script asserts
  * new == old bit-for-bit (results, exception type+message, stdout, full state
    including dtype/shape/bytes of every cell and the aliasing pattern), and
  * new == model, plus the C11 invariants (2-D cells with one column per field,
    unique fields in 1:1 order with units, field flatten == row-major
    concatenation, set_flattened(flatten()) restores the data, copies independent,
    slices address the right cells for 1..3 fixed dimensions).
"""

import contextlib
import copy as _copy
import io
import itertools
import random
import sys
import warnings
from typing import Any, List, Optional, Union

import numpy as np
from numpy.typing import NDArray

from quantem.core.datastructures.vector import Vector, _FieldView, nested_list  # noqa: F401
from quantem.core.utils.validators import validate_vector_data_for_inference

warnings.simplefilter("ignore")


class OrigVector(Vector):
    """Vector with the ORIGINAL (pre-patch) bodies of the five edited functions."""

    @classmethod
    def from_data(
        cls,
        data: List[Any],
        num_fields: Optional[int] = None,
        fields: Optional[List[str]] = None,
        units: Optional[List[str]] = None,
        name: Optional[str] = None,
    ) -> "Vector":
        """
        Factory method to create a Vector from a list of
        ragged lists or ragged numpy arrays.

        Parameters
        ----------
        data : List[Any]
            A list of ragged lists containing the vector data.
            Each element should be a numpy array with shape (n, num_fields).
        num_fields : Optional[int]
            Number of fields in the vector. If not provided, it will be inferred from the data.
        fields : Optional[List[str]]
            List of field names
        units : Optional[List[str]]
            List of units for each field
        name : Optional[str]
            Name of the vector

        Returns
        -------
        Vector
            A new Vector instance with the provided data

        Raises
        ------
        ValueError
            If the data structure is invalid or inconsistent
        TypeError
            If the data contains invalid types
        """
        inferred_shape, inferred_num_fields = validate_vector_data_for_inference(data)

        final_num_fields = num_fields or inferred_num_fields
        if num_fields is not None and num_fields != inferred_num_fields:
            raise ValueError(
                f"Provided num_fields ({num_fields}) does not match inferred ({inferred_num_fields})."
            )

        vector = cls.from_shape(
            shape=inferred_shape,
            num_fields=final_num_fields,
            fields=fields,
            units=units,
            name=name,
        )

        # Now fully validate and set the data
        vector.data = data
        return vector

    def set_data(
        self,
        value: Union[NDArray, List[NDArray]],
        *indices: Union[int, slice, List[int], np.ndarray[Any, np.dtype[Any]]],
    ) -> None:
        """
        Set data at specified indices.

        Parameters
        ----------
        value : Union[NDArray, List[NDArray]]
            The numpy array(s) to set at the specified indices. Must have shape (_, num_fields).
            For fancy indexing, can be a list of arrays.
        *indices : Union[int, slice, List[int], np.ndarray]
            Indices to set data at. Must match the number of dimensions in the vector.
            Supports fancy indexing with lists or numpy arrays.

        Raises
        ------
        IndexError
            If indices are out of bounds.
        ValueError
            If the number of indices does not match the vector dimensions,
            or if the value shape doesn't match the expected shape.
        TypeError
            If the value is not a numpy array or list of numpy arrays.
        """
        if len(indices) != len(self._shape):
            raise ValueError(f"Expected {len(self._shape)} indices, got {len(indices)}")

        # Handle fancy indexing and slicing
        def get_indices(dim_idx: Any, dim_size: int) -> np.ndarray:
            if isinstance(dim_idx, slice):
                start, stop, step = dim_idx.indices(dim_size)
                return np.arange(start, stop, step)
            elif isinstance(dim_idx, (np.ndarray, list)):
                idx = np.asarray(dim_idx)
                if np.any((idx < 0) | (idx >= dim_size)):
                    raise IndexError(f"Index out of bounds for axis with size {dim_size}")
                return idx
            elif isinstance(dim_idx, (int, np.integer)):
                if dim_idx < 0 or dim_idx >= dim_size:
                    raise IndexError(
                        f"Index {dim_idx} out of bounds for axis with size {dim_size}"
                    )
                return np.array([dim_idx])
            return np.arange(dim_size)

        # Get indices for each dimension
        indices_arrays = [get_indices(i, s) for i, s in zip(indices, self._shape)]

        # If all indices are single integers, handle as single value
        if all(len(i) == 1 for i in indices_arrays):
            if not isinstance(value, np.ndarray):
                raise TypeError(f"Value must be a numpy array, got {type(value).__name__}")
            if value.ndim != 2 or value.shape[1] != self.num_fields:
                raise ValueError(
                    f"Expected a numpy array with shape (_, {self.num_fields}), got {value.shape}"
                )
            ref = self._data
            for idx in (i[0] for i in indices_arrays[:-1]):
                ref = ref[idx]
            ref[indices_arrays[-1][0]] = value
            return

        # Handle fancy indexing
        if not isinstance(value, list):
            raise TypeError("For fancy indexing, value must be a list of numpy arrays")

        total_indices = int(np.prod([len(i) for i in indices_arrays]))
        if len(value) != total_indices:
            raise ValueError(f"Expected {total_indices} arrays, got {len(value)}")

        # Validate and set values
        for array_idx, idx in enumerate(np.ndindex(*[len(i) for i in indices_arrays])):
            src_idx = tuple(ind[i] for ind, i in zip(indices_arrays, idx))
            if not isinstance(value[array_idx], np.ndarray):
                raise TypeError(f"Expected numpy array, got {type(value[array_idx]).__name__}")
            if value[array_idx].ndim != 2 or value[array_idx].shape[1] != self.num_fields:
                raise ValueError(
                    f"Expected array with shape (_, {self.num_fields}), got {value[array_idx].shape}"
                )
            ref = self._data
            for i in src_idx[:-1]:
                ref = ref[i]
            ref[src_idx[-1]] = value[array_idx]

    def add_fields(self, new_fields: Union[str, List[str]]) -> None:
        """
        Add new fields to the vector.

        Parameters
        ----------
        new_fields : Union[str, List[str]]
            Field name(s) to add. Must be unique and not already present.

        Raises
        ------
        ValueError
            If any field name already exists or if there are duplicates
        """
        if isinstance(new_fields, str):
            new_fields = [new_fields]
        else:
            new_fields = list(new_fields)

        if any(name in self._fields for name in new_fields):
            raise ValueError("One or more new field names already exist.")

        if len(set(new_fields)) != len(new_fields):
            raise ValueError("Duplicate field names in input are not allowed.")

        self._fields = list(self._fields) + list(new_fields)
        self._units = list(self._units) + ["none"] * len(new_fields)

        def expand_array(arr: Any) -> Any:
            if isinstance(arr, np.ndarray):
                if arr.shape[1] != self.num_fields - len(new_fields):
                    raise ValueError(
                        f"Expected arrays with {self.num_fields - len(new_fields)} fields, got {arr.shape[1]}"
                    )
                pad = np.zeros((arr.shape[0], len(new_fields)))
                return np.hstack([arr, pad])
            elif isinstance(arr, list):
                return [expand_array(sub) for sub in arr]
            else:
                return arr

        self._data = expand_array(self._data)

    def remove_fields(self, fields_to_remove: Union[str, List[str]]) -> None:
        """
        Remove fields from the vector.

        Parameters
        ----------
        fields_to_remove : Union[str, List[str]]
            Field name(s) to remove. Must exist in the vector.

        Raises
        ------
        ValueError
            If any field doesn't exist
        """
        if isinstance(fields_to_remove, str):
            fields_to_remove = [fields_to_remove]
        else:
            fields_to_remove = list(fields_to_remove)

        field_to_index = {name: i for i, name in enumerate(self._fields)}
        indices_to_remove = []
        for field in fields_to_remove:
            if field not in field_to_index:
                print(f"Warning: field '{field}' not found.")
            else:
                indices_to_remove.append(field_to_index[field])

        if not indices_to_remove:
            return

        indices_to_remove = sorted(set(indices_to_remove))
        keep_indices = [i for i in range(self.num_fields) if i not in indices_to_remove]

        # Update metadata
        self._fields = [self._fields[i] for i in keep_indices]
        self._units = [self._units[i] for i in keep_indices]

        def prune_array(arr: Any) -> Any:
            if isinstance(arr, np.ndarray):
                if arr.shape[1] < max(indices_to_remove) + 1:
                    raise ValueError(
                        f"Cannot remove field index {max(indices_to_remove)} from array with shape {arr.shape}"
                    )
                return arr[:, keep_indices]
            elif isinstance(arr, list):
                return [prune_array(sub) for sub in arr]
            else:
                return arr

        self._data = prune_array(self._data)

    def flatten(self) -> NDArray:
        """
        Flatten the vector into a 2D numpy array.

        Returns
        -------
        NDArray
            A 2D numpy array containing all data, with shape (total_rows, num_fields).
        """

        def collect_arrays(data: Any) -> List[NDArray]:
            if isinstance(data, np.ndarray):
                return [data]
            elif isinstance(data, list):
                arrays = []
                for item in data:
                    arrays.extend(collect_arrays(item))
                return arrays
            else:
                return []

        arrays = collect_arrays(self._data)
        if not arrays:
            return np.empty((0, self.num_fields))
        return np.vstack(arrays)



# --------------------------------------------------------------------------
# helpers
# --------------------------------------------------------------------------
def enc(a):
    if a is None:
        return None
    assert isinstance(a, np.ndarray), type(a)
    return (a.dtype.str, tuple(a.shape), a.tobytes())


def order(shape):
    return list(itertools.product(*[range(s) for s in shape]))


def cell_at(v, idx):
    ref = v.data
    for i in idx:
        ref = ref[i]
    return ref


def cells_of(v):
    return [cell_at(v, idx) for idx in order(v.shape)]


def alias_pattern(cs):
    first = {}
    out = []
    for k, c in enumerate(cs):
        out.append(None if c is None else first.setdefault(id(c), k))
    return out


def snapshot(v):
    cs = cells_of(v)
    return (
        tuple(v.shape),
        list(v.fields),
        list(v.units),
        v.name,
        [enc(c) for c in cs],
        alias_pattern(cs),
    )


def positions(e, n):
    if isinstance(e, slice):
        return list(range(*e.indices(n)))
    if isinstance(e, list):
        return list(e)
    return [e]


def key(exprs):
    return exprs[0] if len(exprs) == 1 else tuple(exprs)


def clone(x):
    """Independent but equal copy of an input value (arrays are never shared between sides)."""
    if isinstance(x, np.ndarray):
        return x.copy()
    if isinstance(x, list):
        return [clone(i) for i in x]
    if isinstance(x, tuple):
        return tuple(clone(i) for i in x)
    return x


OPS = {
    "+": lambda x, o: x + o,
    "-": lambda x, o: x - o,
    "*": lambda x, o: x * o,
    "/": lambda x, o: x / o,
    "//": lambda x, o: x // o,
    "%": lambda x, o: x % o,
    "**": lambda x, o: x**o,
}


# --------------------------------------------------------------------------
# pure-Python reference model
# --------------------------------------------------------------------------
class Model:
    def __init__(self, shape, fields, units, name):
        self.shape = tuple(shape)
        self.fields = list(fields)
        self.units = list(units)
        self.name = name
        self.cells = {idx: None for idx in order(self.shape)}
        self.out = ""

    # -- creation ----------------------------------------------------------
    @classmethod
    def from_shape(cls, shape, num_fields=None, fields=None, units=None, name=None):
        if fields is not None:
            if len(set(fields)) != len(fields):
                raise ValueError
            fields = [str(f) for f in fields]
            if num_fields is not None and num_fields != len(fields):
                raise ValueError
        elif num_fields is not None:
            fields = [f"field_{i}" for i in range(num_fields)]
        else:
            raise ValueError
        if units is None:
            units = ["none"] * len(fields)
        elif len(units) != len(fields):
            raise ValueError
        return cls(shape, fields, [str(u) for u in units], name or f"{len(shape)}d ragged array")

    @classmethod
    def from_data(cls, data, num_fields=None, fields=None, units=None, name=None):
        arrs = [np.array(d) if isinstance(d, list) else d for d in data]
        ncol = arrs[0].shape[1]
        if any(a.shape[1] != ncol for a in arrs):
            raise ValueError
        if num_fields is not None and num_fields != ncol:
            raise ValueError
        m = cls.from_shape((len(arrs),), num_fields=ncol, fields=fields, units=units, name=name)
        for i, a in enumerate(arrs):
            m.cells[(i,)] = a
        return m

    def snapshot(self):
        cs = [self.cells[i] for i in order(self.shape)]
        return (
            self.shape,
            list(self.fields),
            list(self.units),
            self.name,
            [enc(c) for c in cs],
            alias_pattern(cs),
        )

    # -- index helpers -----------------------------------------------------
    def _checked_positions(self, exprs):
        out = []
        for e, n in zip(exprs, self.shape):
            p = positions(e, n)
            if not isinstance(e, slice) and any(i < 0 or i >= n for i in p):
                raise IndexError
            out.append(p)
        return out

    def _check_cell(self, a):
        if not isinstance(a, np.ndarray):
            raise TypeError
        if a.ndim != 2 or a.shape[1] != len(self.fields):
            raise ValueError

    # -- assignment --------------------------------------------------------
    def set(self, route, exprs, value):
        nd = len(self.shape)
        if route == "data":
            if len(exprs) != nd:
                raise ValueError
            pos = self._checked_positions(exprs)
            single = all(len(p) == 1 for p in pos)
        else:
            assert len(exprs) == nd
            single = not any(
                isinstance(e, slice) or (isinstance(e, list) and len(e) > 1) for e in exprs
            )
            if single:
                self._check_cell(value)
                idx = []
                for e, n in zip(exprs, self.shape):
                    if e < -n or e >= n:
                        raise IndexError
                    idx.append(e % n)
                self.cells[tuple(idx)] = value
                return
            if not isinstance(value, list):
                raise TypeError
            pos = self._checked_positions(exprs)
        if single:
            self._check_cell(value)
            self.cells[tuple(p[0] for p in pos)] = value
            return
        if not isinstance(value, list):
            raise TypeError
        targets = list(itertools.product(*pos))
        if len(value) != len(targets):
            raise ValueError
        for t, a in zip(targets, value):
            self._check_cell(a)  # may leave a partial assignment, like the real thing
            self.cells[tuple(int(i) for i in t)] = a

    def setvec(self, dst, src):
        sub = self.get("item", src)
        assert isinstance(sub, Model)
        vals = [sub.cells[i] for i in order(sub.shape)]
        if any(v is None for v in vals):
            raise TypeError
        self.set("item", dst, vals)

    # -- retrieval ---------------------------------------------------------
    def get(self, route, exprs):
        nd = len(self.shape)
        if route == "data":
            if len(exprs) != nd:
                raise ValueError
            pos = self._checked_positions(exprs)
            cs = [self.cells[tuple(int(i) for i in t)] for t in itertools.product(*pos)]
            if all(len(p) == 1 for p in pos):
                return cs[0]
            return cs
        if len(exprs) == nd and all(isinstance(e, int) for e in exprs):
            idx = []
            for e, n in zip(exprs, self.shape):
                if e < -n or e >= n:
                    raise IndexError
                idx.append(e % n)
            return self.cells[tuple(idx)]
        full = list(exprs) + [slice(None)] * (nd - len(exprs))
        pos = [positions(e, n) for e, n in zip(full, self.shape)]
        new_shape = tuple(len(p) for p in pos)
        if any(s <= 0 for s in new_shape):
            raise ValueError
        for p, n in zip(pos, self.shape):
            if any(i < 0 or i >= n for i in p):
                raise IndexError
        sub = Model(new_shape, self.fields, self.units, self.name + "[view]")
        for o in order(new_shape):
            sub.cells[o] = self.cells[tuple(int(p[i]) for p, i in zip(pos, o))]
        return sub

    # -- fields ------------------------------------------------------------
    def _col(self, field):
        if field not in self.fields:
            raise KeyError
        return self.fields.index(field)

    def fflat(self, field):
        j = self._col(field)
        cols = [self.cells[i][:, j] for i in order(self.shape) if self.cells[i] is not None]
        if not cols:
            return np.empty((0,), dtype=float)
        return np.concatenate(cols)

    def fset(self, field, values):
        j = self._col(field)
        values = np.asarray(values)
        if values.ndim != 1:
            raise ValueError
        total = sum(c.shape[0] for c in self.cells.values() if c is not None)
        if values.shape[0] != total:
            raise ValueError
        cur = 0
        for i in order(self.shape):
            c = self.cells[i]
            if c is not None:
                c[:, j] = values[cur : cur + c.shape[0]]
                cur += c.shape[0]

    def fop(self, field, sym, operand):
        j = self._col(field)
        for i in order(self.shape):
            c = self.cells[i]
            if c is not None:
                c[:, j] = OPS[sym](c[:, j], operand)
        # augmented assignment writes the (already updated) view back
        self.fset(field, self.fflat(field))

    def flat(self):
        cs = [self.cells[i] for i in order(self.shape) if self.cells[i] is not None]
        if not cs:
            return np.empty((0, len(self.fields)))
        return np.concatenate(cs, axis=0)

    def add(self, names):
        names = [names] if isinstance(names, str) else list(names)
        if any(n in self.fields for n in names):
            raise ValueError
        if len(set(names)) != len(names):
            raise ValueError
        self.fields = self.fields + names
        self.units = self.units + ["none"] * len(names)
        for i in order(self.shape):
            c = self.cells[i]
            if c is not None:
                self.cells[i] = np.concatenate([c, np.zeros((c.shape[0], len(names)))], axis=1)

    def remove(self, names):
        names = [names] if isinstance(names, str) else list(names)
        for n in names:
            if n not in self.fields:
                self.out += f"Warning: field '{n}' not found.\n"
        keep = [k for k, f in enumerate(self.fields) if f not in names]
        if len(keep) == len(self.fields):
            return
        self.fields = [self.fields[k] for k in keep]
        self.units = [self.units[k] for k in keep]
        for i in order(self.shape):
            c = self.cells[i]
            if c is not None:
                self.cells[i] = np.stack([c[:, k] for k in keep], axis=1) if keep else c[:, []]

    def copy(self):
        return _copy.deepcopy(self)


# --------------------------------------------------------------------------
# applying one operation to a real vector / to the model
# --------------------------------------------------------------------------
def apply_vec(v, op):
    k = op[0]
    if k == "set":
        _, route, exprs, value = op
        value = clone(value)
        if route == "item":
            v[key(exprs)] = value
        else:
            v.set_data(value, *exprs)
        return None
    if k == "setvec":
        _, dst, src = op
        v[key(dst)] = v[key(src)]
        return None
    if k == "get":
        _, route, exprs = op
        return v[key(exprs)] if route == "item" else v.get_data(*exprs)
    if k == "fop":
        _, field, sym, operand = op
        if sym == "+":
            v[field] += operand
        elif sym == "-":
            v[field] -= operand
        elif sym == "*":
            v[field] *= operand
        elif sym == "/":
            v[field] /= operand
        elif sym == "//":
            v[field] //= operand
        elif sym == "%":
            v[field] %= operand
        else:
            v[field] **= operand
        return None
    if k == "fflat":
        _, route, field = op
        return v[field].flatten() if route == "flatten" else np.asarray(v[field])
    if k == "fset":
        _, route, field, values = op
        values = clone(values)
        if route == "item":
            v[field] = values
        else:
            v[field].set_flattened(values)
        return None
    if k == "flat":
        return v.flatten()
    if k == "add":
        return v.add_fields(clone(op[1]))
    if k == "remove":
        return v.remove_fields(clone(op[1]))
    raise AssertionError(k)


def apply_model(m, op):
    k = op[0]
    if k == "set":
        return m.set(op[1], op[2], clone(op[3]))
    if k == "setvec":
        return m.setvec(op[1], op[2])
    if k == "get":
        return m.get(op[1], op[2])
    if k == "fop":
        return m.fop(op[1], op[2], op[3])
    if k == "fflat":
        return m.fflat(op[2])
    if k == "fset":
        return m.fset(op[2], clone(op[3]))
    if k == "flat":
        return m.flat()
    if k == "add":
        return m.add(clone(op[1]))
    if k == "remove":
        return m.remove(clone(op[1]))
    raise AssertionError(k)


def encode_result(r):
    if r is None:
        return None
    if isinstance(r, (Vector, Model)):
        return ("vec",) + tuple(r.snapshot() if isinstance(r, Model) else snapshot(r))
    if isinstance(r, np.ndarray):
        return enc(r)
    if isinstance(r, list):
        return [enc(a) for a in r]
    raise AssertionError(type(r))


def attempt(fn):
    buf = io.StringIO()
    try:
        with contextlib.redirect_stdout(buf), np.errstate(all="ignore"):
            r = fn()
    except Exception as e:  # noqa: BLE001
        return ("err", type(e).__name__, str(e), buf.getvalue()), None
    return ("ok", encode_result(r), buf.getvalue()), r


# --------------------------------------------------------------------------
# C11 invariants, checked directly on a real vector
# --------------------------------------------------------------------------
def check_structure(data, shape):
    if len(shape) == 0:
        return
    assert isinstance(data, list) and len(data) == shape[0], (type(data), shape)
    for sub in data:
        check_structure(sub, shape[1:])


def check_invariants(v, rng):
    check_structure(v.data, tuple(v.shape))
    nf = v.num_fields
    assert len(v.fields) == len(set(v.fields)) == len(v.units) == nf
    assert all(isinstance(f, str) for f in v.fields) and all(isinstance(u, str) for u in v.units)
    cs = cells_of(v)
    for c in cs:
        assert c is None or (isinstance(c, np.ndarray) and c.ndim == 2 and c.shape[1] == nf)
    pop = [c for c in cs if c is not None]
    for j, f in enumerate(v.fields):
        got = v[f].flatten()
        exp = np.concatenate([c[:, j] for c in pop]) if pop else np.empty((0,), dtype=float)
        assert enc(got) == enc(exp), ("field flatten is not the row-major concatenation", f)
    whole = v.flatten()
    assert whole.ndim == 2 and whole.shape == (sum(c.shape[0] for c in pop), nf)
    # writing a flattened field back restores the same data
    # (skipped only when integer cells hold values that the promoted float64 carrier
    # of a mixed-dtype flatten cannot represent exactly)
    if len({c.dtype for c in pop}) > 1 and any(
        c.dtype.kind == "i" and c.size and np.abs(c).max() >= 2**53 for c in pop
    ):
        return
    f = rng.choice(v.fields)
    before = snapshot(v)
    with np.errstate(all="ignore"):
        v[f].set_flattened(v[f].flatten())
    assert snapshot(v) == before, "set_flattened(flatten()) changed the data"


# --------------------------------------------------------------------------
# random generators
# --------------------------------------------------------------------------
def rand_array(rng, ncols, rows=None):
    rows = rng.choice([0, 1, 1, 2, 3, 4]) if rows is None else rows
    kind = rng.random()
    if kind < 0.6:
        a = np.array([[rng.uniform(-4, 4) for _ in range(ncols)] for _ in range(rows)], dtype=float)
    elif kind < 0.8:
        a = np.array([[rng.randint(-5, 5) for _ in range(ncols)] for _ in range(rows)], dtype=np.int64)
    else:
        a = np.array([[rng.randint(1, 9) for _ in range(ncols)] for _ in range(rows)], dtype=np.float32)
    return a.reshape(rows, ncols)


def rand_slice(rng, n):
    c = [None] + list(range(-n - 1, n + 2))
    return slice(rng.choice(c), rng.choice(c), rng.choice([None, None, 1, 2, -1, -2]))


def rand_expr(rng, n, min_list=1):
    r = rng.random()
    if r < 0.4:
        return rng.randrange(n)
    if r < 0.75:
        return rand_slice(rng, n)
    return [rng.randrange(n) for _ in range(rng.randint(min_list, 3))]


def n_targets(exprs, shape):
    t = 1
    for e, n in zip(exprs, shape):
        t *= len(positions(e, n))
    return t


def gen_op(rng, m):
    """Generate one operation from the current model state."""
    shape, nf, nd = m.shape, len(m.fields), len(m.shape)
    r = rng.random()
    if r < 0.30:  # assignment
        route = rng.choice(["item", "data"])
        exprs = [rand_expr(rng, n, min_list=2 if route == "item" else 1) for n in shape]
        if route == "item":
            single = not any(isinstance(e, (slice, list)) for e in exprs)
            if single and rng.random() < 0.2:
                exprs = [e - n if rng.random() < 0.5 else e for e, n in zip(exprs, shape)]
        else:
            single = all(len(positions(e, n)) == 1 for e, n in zip(exprs, shape))
        bad = rng.random()
        if single:
            value = rand_array(rng, nf)
            if bad < 0.05:
                value = rand_array(rng, nf + 1)
            elif bad < 0.08:
                value = value.tolist()
            elif bad < 0.11:
                value = np.zeros((nf,))
            elif bad < 0.14:
                exprs[rng.randrange(nd)] = shape[0] + shape[-1] + 1
            elif bad < 0.17 and route == "data":
                exprs = exprs + [0]
        else:
            cnt = n_targets(exprs, shape)
            value = [rand_array(rng, nf) for _ in range(cnt)]
            if bad < 0.05 and cnt:
                value[rng.randrange(cnt)] = rand_array(rng, nf + rng.choice([-1, 1]))
            elif bad < 0.08:
                value = value + [rand_array(rng, nf)]
            elif bad < 0.11:
                value = rand_array(rng, nf)
            elif bad < 0.14 and cnt:
                value[rng.randrange(cnt)] = [[0.0] * nf]
            elif bad < 0.17 and route == "data":
                exprs = exprs[:-1] if nd > 1 else exprs + [0]
            elif bad < 0.20:
                k = rng.randrange(nd)
                if isinstance(exprs[k], list):
                    exprs[k] = exprs[k] + [shape[k]]
        return ("set", route, exprs, value)
    if r < 0.36:  # vector-valued slice assignment (creates aliases, like v[2:4, 1] = v[1:3, 1])
        for _ in range(20):
            dst = [rand_expr(rng, n, min_list=2) for n in shape]
            src = [rand_expr(rng, n) for n in shape]
            if not any(isinstance(e, slice) or isinstance(e, list) for e in dst):
                continue
            if not any(isinstance(e, (slice, list)) for e in src):
                continue
            if n_targets(src, shape) == 0:
                continue
            if n_targets(dst, shape) == n_targets(src, shape) or rng.random() < 0.1:
                return ("setvec", dst, src)
        return ("flat",)
    if r < 0.52:  # retrieval
        route = rng.choice(["item", "data"])
        exprs = [rand_expr(rng, n) for n in shape]
        bad = rng.random()
        if route == "item" and nd > 1 and bad < 0.25:
            exprs = exprs[: rng.randint(1, nd - 1)]
        elif route == "data" and bad < 0.08:
            exprs = exprs + [0]
        elif bad < 0.14:
            exprs[0] = shape[0]
        return ("get", route, exprs)
    if r < 0.64:
        field = rng.choice(m.fields) if rng.random() < 0.95 else "nope"
        sym = rng.choice(list(OPS))
        operand = rng.choice([2, 3, 0.5, 1.5, -2]) if sym != "**" else 2
        return ("fop", field, sym, operand)
    if r < 0.70:
        field = rng.choice(m.fields) if rng.random() < 0.95 else "nope"
        return ("fflat", rng.choice(["flatten", "asarray"]), field)
    if r < 0.80:
        field = rng.choice(m.fields) if rng.random() < 0.95 else "nope"
        total = sum(c.shape[0] for c in m.cells.values() if c is not None)
        bad = rng.random()
        n = total + 1 if bad < 0.08 else total
        values = np.array([rng.uniform(-9, 9) for _ in range(n)], dtype=float)
        if rng.random() < 0.3:
            values = np.arange(n, dtype=np.int64)
        if bad > 0.92:
            values = values.reshape(1, -1)
        if rng.random() < 0.3:
            values = values.tolist()
        return ("fset", rng.choice(["item", "view"]), field, values)
    if r < 0.84:
        return ("flat",)
    if r < 0.92:
        pool = ["a", "b", "c", "d", "e", "x", "y", "field_0", "field_1", "field_2"]
        names = rng.sample(pool, rng.randint(1, 3))
        if rng.random() < 0.1:
            names = names + names[:1]
        form = rng.random()
        if form < 0.3:
            names = names[0]
        elif form < 0.6:
            names = tuple(names)
        if nf > 6:
            return ("flat",)
        return ("add", names)
    # removal (never all fields)
    present = rng.sample(m.fields, rng.randint(0, max(0, min(2, nf - 1))))
    names = present + (["ghost"] if rng.random() < 0.3 else [])
    if rng.random() < 0.2 and present:
        names = names + present[:1]
    rng.shuffle(names)
    if not names:
        names = ["ghost2"]
    form = rng.random()
    if form < 0.3 and len(names) == 1:
        names = names[0]
    elif form < 0.6:
        names = tuple(names)
    return ("remove", names)


# --------------------------------------------------------------------------
# driving the three implementations in lock-step
# --------------------------------------------------------------------------
class State:
    def __init__(self, new, old, model):
        self.new, self.old, self.model = new, old, model


def compare(st, ctx):
    sn, so, sm = snapshot(st.new), snapshot(st.old), st.model.snapshot()
    assert sn == so, ("old/new state differs", ctx)
    assert sn == sm, ("state differs from the reference model", ctx)


def create(rng):
    nd = rng.randint(1, 3)
    nf = rng.randint(1, 3)
    kw = {}
    if rng.random() < 0.5:
        kw["fields"] = rng.sample(["a", "b", "c", "d", "e"], nf)
        if rng.random() < 0.3:
            kw["num_fields"] = nf
    else:
        kw["num_fields"] = nf
    if rng.random() < 0.4:
        kw["units"] = [rng.choice(["nm", "A", "mrad", "none"]) for _ in range(nf)]
    if rng.random() < 0.4:
        kw["name"] = "vec%d" % rng.randrange(100)
    if nd == 1 and rng.random() < 0.5:
        n = rng.randint(1, 4)
        data = [rand_array(rng, nf) for _ in range(n)]
        if rng.random() < 0.3:
            data = [d.tolist() if d.shape[0] else d for d in data]
        if "fields" in kw and "num_fields" not in kw and rng.random() < 0.5:
            pass
        new = Vector.from_data(clone(data), **clone(kw))
        old = OrigVector.from_data(clone(data), **clone(kw))
        model = Model.from_data(clone(data), **clone(kw))
    else:
        shape = tuple(rng.randint(1, 3 if nd > 1 else 4) for _ in range(nd))
        new = Vector.from_shape(shape, **clone(kw))
        old = OrigVector.from_shape(shape, **clone(kw))
        model = Model.from_shape(shape, **clone(kw))
    assert type(new) is Vector and type(old) is OrigVector
    return State(new, old, model)


def check_get_identity(st, op, raw_new):
    """Slicing / retrieval must return the very cells that were addressed."""
    _, route, exprs = op
    v = st.new
    full = list(exprs) + [slice(None)] * (len(v.shape) - len(exprs))
    pos = [positions(e, n) for e, n in zip(full, v.shape)]
    expected = [cell_at(v, tuple(int(i) for i in t)) for t in itertools.product(*pos)]
    if isinstance(raw_new, Vector):
        assert tuple(raw_new.shape) == tuple(len(p) for p in pos)
        got = cells_of(raw_new)
    elif isinstance(raw_new, list):
        got = raw_new
    else:
        got = [raw_new]
        if route == "item":
            expected = [cell_at(v, tuple(e % n for e, n in zip(exprs, v.shape)))]
    assert len(got) == len(expected) and all(g is e for g, e in zip(got, expected)), op


def step(st, op, rng, ctx):
    rn, raw_new = attempt(lambda: apply_vec(st.new, op))
    ro, _ = attempt(lambda: apply_vec(st.old, op))
    st.model.out = ""
    rm, _ = attempt(lambda: apply_model(st.model, op))
    assert rn == ro, ("old/new result differs", ctx, op, rn, ro)
    assert rn[0] == rm[0], ("outcome differs from the reference model", ctx, op, rn, rm)
    if rn[0] == "err":
        assert rn[1] == rm[1], ("exception type differs from the model", ctx, op, rn, rm)
    else:
        assert rn[1] == rm[1], ("result differs from the reference model", ctx, op)
        assert rn[2] == st.model.out, ("stdout differs from the model", ctx, op, rn[2])
        if op[0] == "get":
            check_get_identity(st, op, raw_new)
    compare(st, (ctx, op))
    check_invariants(st.new, rng)
    check_invariants(st.old, rng)
    compare(st, (ctx, op, "after invariants"))


def do_copy(st, rng, ctx):
    """Replace the triple by copies; the originals must stay untouched by later operations."""
    frozen = (st.new, st.old, snapshot(st.new), snapshot(st.old))
    cn, co = st.new.copy(), st.old.copy()
    assert type(cn) is Vector and type(co) is Vector
    co.__class__ = OrigVector  # keep driving the ORIGINAL bodies on the old side
    assert snapshot(cn) == snapshot(st.new) and snapshot(co) == snapshot(st.old)
    # no shared mutable state
    assert cn.data is not st.new.data and cn.metadata is not st.new.metadata
    ids = {id(c) for c in cells_of(st.new) if c is not None}
    assert not any(id(c) in ids for c in cells_of(cn) if c is not None)
    assert not any(
        np.shares_memory(a, b)
        for a in cells_of(cn)
        if a is not None
        for b in cells_of(st.new)
        if b is not None
    )
    st.new, st.old, st.model = cn, co, st.model.copy()
    compare(st, (ctx, "copy"))
    return frozen


def run_history(seed, nsteps):
    rng = random.Random(seed)
    st = create(rng)
    compare(st, (seed, "create"))
    check_invariants(st.new, rng)
    frozen = []
    for k in range(nsteps):
        if rng.random() < 0.06:
            frozen.append(do_copy(st, rng, (seed, k)))
            continue
        op = gen_op(rng, st.model)
        step(st, op, rng, (seed, k))
    for vn, vo, sn, so in frozen:
        assert snapshot(vn) == sn and snapshot(vo) == so, ("copy was not independent", seed)


# --------------------------------------------------------------------------
# deterministic spot checks
# --------------------------------------------------------------------------
def outcome(fn):
    r, _ = attempt(fn)
    return r


def creation_parity():
    """from_data / from_shape: old == new on valid and invalid inputs."""
    A = lambda r, c, dt=float: np.arange(r * c, dtype=dt).reshape(r, c)  # noqa: E731
    datas = [
        [A(2, 2), A(3, 2)],
        [A(0, 2), A(1, 2)],
        [A(2, 3, np.int64)],
        [[[1, 2], [3, 4]], [[5, 6], [7, 8], [9, 10]]],
        [[[1, 2]], A(2, 2)],
        [A(2, 2), A(2, 3)],
        [],
        [A(2, 2), None],
        [None, A(2, 2)],
        [[]],
        [A(2, 2), "ab"],
        (A(2, 2),),
        A(2, 2),
        [np.arange(3.0)],
        [A(1, 1)],
    ]
    kws = [
        {},
        {"num_fields": 2},
        {"num_fields": 3},
        {"num_fields": 0},
        {"fields": ["x", "y"]},
        {"fields": ["x", "x"]},
        {"fields": ["x", "y", "z"]},
        {"fields": ["x", "y"], "num_fields": 2, "units": ["m", "m"], "name": "n"},
        {"fields": ("x", "y"), "units": ("m",)},
        {"num_fields": 2, "units": ["m", "s"]},
        {"num_fields": 1},
        {"name": ""},
    ]
    n = 0
    for d in datas:
        for kw in kws:
            a = outcome(lambda: Vector.from_data(clone(d), **clone(kw)))
            b = outcome(lambda: OrigVector.from_data(clone(d), **clone(kw)))
            assert a == b, ("from_data parity", d, kw, a, b)
            n += 1
    # from_data must not share state between two vectors built from different inputs
    v1 = Vector.from_data([A(2, 2)], fields=["x", "y"])
    v2 = Vector.from_data([A(2, 2)], fields=["x", "y"])
    v1["x"] += 1
    v1.add_fields("z")
    v1.metadata["k"] = 1
    assert v2.fields == ["x", "y"] and v2.metadata == {} and enc(v2[0]) == enc(A(2, 2))
    return n


def doc_example():
    """The class docstring's example, on all three implementations."""
    for cls in (Vector, OrigVector):
        v = cls.from_shape(shape=(4, 3), fields=["field0", "field1", "field2"])
        for i, j in order((4, 3)):
            v[i, j] = np.full((i + j, 3), float(i * 3 + j))
        v["field0"] += 16
        v[2:4, 1] = v[1:3, 1]
        assert v[2, 1] is v[1, 1] and v[3, 1] is not v[2, 1]
        v.add_fields(("field3", "field4", "field5"))
        assert v.fields == ["field%d" % i for i in range(6)] and v.units == ["none"] * 6
        assert all(c.shape[1] == 6 for c in cells_of(v))
        v.remove_fields(("field3", "field4", "field5"))
        assert v.fields == ["field0", "field1", "field2"] and v.units == ["none"] * 3
        assert all(c.shape[1] == 3 for c in cells_of(v))
        assert v.flatten().shape == (sum(c.shape[0] for c in cells_of(v)), 3)
        v.set_data([np.ones((1, 3)), np.zeros((2, 3))], slice(0, 2), 1)
        assert v[0, 1].shape == (1, 3) and v[1, 1].shape == (2, 3)
        s = v[1:3]
        assert s.shape == (2, 3) and s[0, 1] is v[1, 1]


def main():
    doc_example()
    ncreate = creation_parity()
    nhist = 400
    for seed in range(nhist):
        run_history(seed, 30)
    print(f"C11 demo OK: {nhist} histories x 30 steps, {ncreate} creation cases")
    return 0


if __name__ == "__main__":
    sys.exit(main())
