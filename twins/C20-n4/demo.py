"""C20 demo: display normalisation is a monotone map into [0, 1] with invertible stretches.

Two parts:

1. OLD == NEW, bit for bit.  Verbatim copies of the ORIGINAL versions of the five
   functions touched by the synonym patches are embedded below (class ``_Orig``).
   Each is run next to the function currently installed in ``quantem`` on a wide
   spread of inputs (shapes, int/float dtypes, NaN/inf, empty arrays, every
   interval/stretch configuration, presets, bad arguments) and the outcomes are
   compared exactly: same type, dtype, shape, raw bytes, masks, in-place effects
   on the argument, raised exception type + message and emitted warnings.

2. The C20 property itself is asserted on the installed code: finite data maps into
   [0, 1], the map is non-decreasing, the limits go to 0 and 1, NaNs come back
   masked, and stretch(inverse(y)) == y on [0, 1].

Exits 0 on the unmodified tree and with any (or all) of the five patches applied.
"""

import itertools
import tempfile
import warnings

import numpy as np
from numpy.typing import NDArray

from quantem.core.visualization.custom_normalizations import (
    NORMALIZATION_PRESETS,
    CenteredInterval,
    CustomNormalization,
    HyperbolicSineStretch,
    InverseHyperbolicSineStretch,
    InverseLogarithmicStretch,
    LinearStretch,
    LogarithmicStretch,
    ManualInterval,
    NormalizationConfig,
    PowerLawStretch,
    QuantileInterval,
    _resolve_normalization,
)


# --------------------------------------------------------------------------------------
# Verbatim copies of the ORIGINAL functions (worktree HEAD), used as the reference.
# --------------------------------------------------------------------------------------
class _Orig:
    class ManualInterval:
        def get_limits(self, values: NDArray) -> tuple[float, float]:
            # Avoid overhead of preparing array if both limits have been specified
            # manually, for performance.

            if self.vmin is not None and self.vmax is not None:
                return self.vmin, self.vmax

            # Make sure values is a Numpy array
            values = np.asarray(values).ravel()

            # Filter out invalid values (inf, nan)
            values = values[np.isfinite(values)]
            vmin = np.min(values) if self.vmin is None else self.vmin
            vmax = np.max(values) if self.vmax is None else self.vmax

            return vmin, vmax

    class CenteredInterval:
        def get_limits(self, values: NDArray) -> tuple[float, float]:
            if self.half_range is not None:
                return self.vcenter - self.half_range, self.vcenter + self.half_range

            values = np.asarray(values).ravel()
            values = values[np.isfinite(values)]
            vmin = np.min(values)
            vmax = np.max(values)

            half_range = np.maximum(np.abs(vmin - self.vcenter), np.abs(vmax - self.vcenter))

            return self.vcenter - half_range, self.vcenter + half_range

    class InverseHyperbolicSineStretch:
        def __call__(self, values: NDArray, copy: bool = True) -> NDArray:
            values = np.array(values, copy=copy)
            np.clip(values, 0.0, 1.0, out=values)
            # map to [-1,1]
            np.multiply(values, 2.0, out=values)
            np.subtract(values, 1.0, out=values)

            np.true_divide(values, self.a, out=values)
            np.arcsinh(values, out=values)

            # map from [-1,1]
            np.true_divide(values, np.arcsinh(1.0 / self.a) * 2.0, out=values)
            np.add(values, 0.5, out=values)
            return values

    class CustomNormalization:
        def _set_limits(self, data: NDArray) -> None:
            """Set the normalization limits based on the provided data.

            Parameters
            ----------
            data : ndarray
                The data array to use for setting limits.

            Returns
            -------
            None
            """
            if data.dtype == np.bool_ or data.dtype == bool:
                self.vmin, self.vmax = 0.0, 1.0
                self.interval = ManualInterval(self.vmin, self.vmax)
                return None

            self.vmin, self.vmax = self.interval.get_limits(data)
            self.interval = ManualInterval(self.vmin, self.vmax)  # set explicitly with ManualInterval
            return None

    @staticmethod
    def _resolve_normalization(norm, **kwargs) -> NormalizationConfig:
        if norm is None:
            if "vmin" in kwargs or "vmax" in kwargs:
                return NormalizationConfig(
                    interval_type="manual",
                    stretch_type=kwargs.get("stretch_type", "linear"),
                    vmin=kwargs.get("vmin"),
                    vmax=kwargs.get("vmax"),
                )
            elif "lower_quantile" in kwargs or "upper_quantile" in kwargs:
                return NormalizationConfig(
                    interval_type="quantile",
                    lower_quantile=kwargs.get("lower_quantile", 0.02),
                    upper_quantile=kwargs.get("upper_quantile", 0.98),
                )
            else:
                return NormalizationConfig()
        elif isinstance(norm, dict):
            return NormalizationConfig(**norm)
        elif isinstance(norm, str):
            if norm not in NORMALIZATION_PRESETS:
                raise ValueError(f"Unknown normalization preset: {norm}")
            return NORMALIZATION_PRESETS[norm]()
        elif isinstance(norm, NormalizationConfig):
            return norm
        else:
            raise TypeError("norm must be None, dict, str, or NormalizationConfig")


# --------------------------------------------------------------------------------------
# Exact comparison helpers
# --------------------------------------------------------------------------------------
def _freeze(x):
    """A hashable/==-comparable fingerprint that is exact (types, dtypes, raw bytes)."""
    if isinstance(x, np.ma.MaskedArray):
        return (
            "ma",
            _freeze(np.asarray(x.data)),
            _freeze(np.ma.getmaskarray(x)),
            x.mask is np.ma.nomask,
        )
    if isinstance(x, np.ndarray):
        return ("nd", type(x).__name__, str(x.dtype), x.shape, np.ascontiguousarray(x).tobytes())
    if isinstance(x, np.generic):
        return ("sc", type(x).__name__, x.tobytes())
    if isinstance(x, (tuple, list)):
        return (type(x).__name__,) + tuple(_freeze(v) for v in x)
    if isinstance(x, float):
        return ("float", np.float64(x).tobytes())
    if isinstance(x, (ManualInterval, CenteredInterval, QuantileInterval, NormalizationConfig)):
        return (type(x).__name__,) + tuple(
            (k, _freeze(v)) for k, v in sorted(vars(x).items())
        )
    return (type(x).__name__, repr(x))


def _run(fn, *args, **kwargs):
    """Outcome of a call: value or exception, plus the warnings it emitted."""
    with warnings.catch_warnings(record=True) as caught:
        warnings.simplefilter("always")
        try:
            out = ("ok", _freeze(fn(*args, **kwargs)))
        except Exception as exc:  # noqa: BLE001 - exceptions are part of the behaviour
            out = ("exc", type(exc).__name__, str(exc))
    warns = tuple((w.category.__name__, str(w.message)) for w in caught)
    return out, warns


N_CMP = 0


def same(label, old, new):
    global N_CMP
    N_CMP += 1
    assert old == new, f"OLD != NEW for {label}:\n old={old!r}\n new={new!r}"


# --------------------------------------------------------------------------------------
# Inputs
# --------------------------------------------------------------------------------------
def data_arrays():
    rng = np.random.default_rng(20)
    out = []
    base = rng.normal(size=(7, 9)) * 3.0 + 0.5
    out.append(("f64", base))
    out.append(("f32", base.astype(np.float32)))
    out.append(("f16", base.astype(np.float16)))
    withbad = base.copy()
    withbad[0, 0] = np.nan
    withbad[1, 2] = np.inf
    withbad[3, 4] = -np.inf
    withbad[6, 8] = np.nan
    out.append(("f64+nan/inf", withbad))
    out.append(("f32+nan/inf", withbad.astype(np.float32)))
    out.append(("1d", np.linspace(-2.0, 5.0, 41)))
    out.append(("3d", rng.random((2, 3, 4))))
    out.append(("0d", np.array(3.5)))
    out.append(("two-values", np.array([1.0, 2.0])))
    out.append(("constant", np.full((4, 4), 2.5)))
    out.append(("huge", np.array([-1e300, 0.0, 1e300, 1e-300])))
    out.append(("u8", rng.integers(0, 255, size=(6, 5)).astype(np.uint8)))
    out.append(("i16", rng.integers(-300, 300, size=(6, 5)).astype(np.int16)))
    out.append(("i64", rng.integers(-(10**12), 10**12, size=(11,))))
    out.append(("u64", np.array([0, 1, 2**63, 2**64 - 1], dtype=np.uint64)))
    out.append(("bool", rng.random((5, 5)) > 0.5))
    out.append(("empty", np.zeros((0,), dtype=np.float64)))
    out.append(("all-nan", np.full((3, 3), np.nan)))
    out.append(("fortran", np.asfortranarray(base)))
    out.append(("strided", base[::2, ::3]))
    out.append(("masked", np.ma.masked_greater(base, 2.0)))
    out.append(("list", [[1.0, 2.0, float("nan")], [4.0, -1.0, 0.25]]))
    out.append(("complex", base + 1j * base.T[:7, :7].mean()))
    return out


def interval_configs():
    cfgs = []
    for lq, uq in [(0.02, 0.98), (0.0, 1.0), (0.25, 0.75), (0.1, 0.5)]:
        cfgs.append(dict(interval_type="quantile", lower_quantile=lq, upper_quantile=uq))
    cfgs.append(dict(interval_type="manual"))
    cfgs.append(dict(interval_type="manual", vmin=-1.0))
    cfgs.append(dict(interval_type="manual", vmax=2.0))
    cfgs.append(dict(interval_type="manual", vmin=-1.5, vmax=4.0))
    cfgs.append(dict(interval_type="manual", vmin=0, vmax=200))
    cfgs.append(dict(interval_type="centered"))
    cfgs.append(dict(interval_type="centered", vcenter=1.0))
    cfgs.append(dict(interval_type="centered", vcenter=0.5, half_range=2.0))
    cfgs.append(dict(interval_type="centered", half_range=100.0))
    return cfgs


def stretch_configs():
    cfgs = [dict(stretch_type="linear")]
    for p in (0.2, 0.5, 2.0, 3.7):
        cfgs.append(dict(stretch_type="power", power=p))
    cfgs.append(dict(stretch_type="power"))
    for a in (0.01, 1.0, 1000.0, 1e6):
        cfgs.append(dict(stretch_type="logarithmic", logarithmic_index=a))
    for a in (0.01, 0.1, 0.5, 3.0):
        cfgs.append(dict(stretch_type="asinh", asinh_linear_range=a))
    return cfgs


# --------------------------------------------------------------------------------------
# Part 1: old == new
# --------------------------------------------------------------------------------------
def check_manual_get_limits():
    limits = [None, 0, -1.0, 2.5, np.float32(0.5), np.float64(-3.0), float("nan")]
    for (name, arr), vmin, vmax in itertools.product(data_arrays(), limits, limits):
        iv = ManualInterval(vmin, vmax)
        old = _run(_Orig.ManualInterval.get_limits, iv, arr)
        new = _run(iv.get_limits, arr)
        same(f"ManualInterval({vmin!r},{vmax!r}).get_limits[{name}]", old, new)
        if vmin is not None and vmax is not None:
            a, b = iv.get_limits(arr)
            assert a is vmin and b is vmax  # the very objects are handed back


def check_centered_get_limits():
    centers = [0.0, 1.0, -2.5, 7, np.float32(0.25)]
    halves = [None, 2.0, 0.0, np.float32(1.5), 3]
    for (name, arr), c, h in itertools.product(data_arrays(), centers, halves):
        iv = CenteredInterval(c, h)
        old = _run(_Orig.CenteredInterval.get_limits, iv, arr)
        new = _run(iv.get_limits, arr)
        same(f"CenteredInterval({c!r},{h!r}).get_limits[{name}]", old, new)


def check_asinh_call():
    rng = np.random.default_rng(7)
    y = np.linspace(0.0, 1.0, 257)
    inputs = [
        ("unit", y),
        ("unit-f32", y.astype(np.float32)),
        ("unit-f16", y.astype(np.float16)),
        ("outside", np.linspace(-0.7, 1.9, 53).reshape(1, 53)),
        ("bad", np.array([np.nan, np.inf, -np.inf, 0.0, 0.5, 1.0, -0.0])),
        ("2d", rng.random((8, 8))),
        ("0d", np.array(0.3)),
        ("scalar", 0.75),
        ("list", [0.0, 0.1, 0.9]),
        ("empty", np.zeros((0, 3))),
        ("int", np.array([0, 1, 2])),
        ("bool", np.array([True, False])),
        ("masked", np.ma.masked_invalid(np.array([0.1, np.nan, 0.9]))),
        ("strided", rng.random((6, 6))[::2, 1::2]),
    ]
    a_values = [0.1, 0.01, 0.5, 1.0, 3.0, 1e-3, 1e-300, 5e-324, 1e300,
                np.float32(0.1), np.float64(0.25), 2]
    for (name, arr), a, copy in itertools.product(inputs, a_values, (True, False)):
        st = InverseHyperbolicSineStretch(a)
        arg_old = arr.copy() if isinstance(arr, np.ndarray) else arr
        arg_new = arr.copy() if isinstance(arr, np.ndarray) else arr
        old = _run(_Orig.InverseHyperbolicSineStretch.__call__, st, arg_old, copy=copy)
        new = _run(st, arg_new, copy=copy)
        label = f"asinh(a={a!r})[{name}, copy={copy}]"
        same(label, old, new)
        # in-place effect on the argument is part of the behaviour
        same(label + " argument afterwards", _freeze(arg_old), _freeze(arg_new))
        if not copy and type(arg_new) is np.ndarray and arg_new.dtype.kind == "f":
            with np.errstate(all="ignore"):
                assert st(arg_new, copy=False) is arg_new  # copy=False works in place


def _norm_state(n):
    return (
        _freeze(n.vmin),
        _freeze(n.vmax),
        _freeze(n.interval),
        _freeze(n.stretch.__class__.__name__),
        n.vmin is getattr(n.interval, "vmin", "absent"),
        n.vmax is getattr(n.interval, "vmax", "absent"),
    )


def check_set_limits():
    for (name, arr), icfg in itertools.product(data_arrays(), interval_configs()):
        if not isinstance(arr, np.ndarray):
            arr = np.asarray(arr)
        n_old = CustomNormalization(**icfg)
        n_new = CustomNormalization(**icfg)
        events_old, events_new = [], []
        n_old.callbacks.connect("changed", lambda n=n_old: events_old.append((n.vmin, n.vmax)))
        n_new.callbacks.connect("changed", lambda n=n_new: events_new.append((n.vmin, n.vmax)))
        old = _run(_Orig.CustomNormalization._set_limits, n_old, arr)
        new = _run(n_new._set_limits, arr)
        label = f"_set_limits[{name}, {icfg}]"
        same(label, old, new)
        same(label + " state", _norm_state(n_old), _norm_state(n_new))
        # matplotlib "changed" notifications: same number, same intermediate (vmin, vmax)
        same(label + " callbacks", _freeze(events_old), _freeze(events_new))
        # and the resulting normalisation acts identically
        same(label + " call", _run(n_old, arr), _run(n_new, arr))


def check_resolve_normalization():
    cfg = NormalizationConfig(interval_type="centered", stretch_type="asinh", vcenter=2.0)

    class SubDict(dict):
        pass

    class SubStr(str):
        pass

    norms = [
        None,
        {},
        {"interval_type": "manual", "vmin": 0.0, "vmax": 2.0},
        {"stretch_type": "power", "power": 0.5},
        {"bogus_key": 1},
        SubDict(stretch_type="logarithmic"),
        cfg,
        "nope",
        "",
        SubStr("log_auto"),
        3,
        1.5,
        [],
        ["quantile"],
        ("manual",),
        True,
        b"quantile",
        NormalizationConfig,
    ] + list(NORMALIZATION_PRESETS)
    kwargs_list = [
        {},
        {"vmin": 1.0},
        {"vmax": 3.0},
        {"vmin": -1.0, "vmax": 3.0, "stretch_type": "logarithmic"},
        {"vmin": None},
        {"lower_quantile": 0.1},
        {"upper_quantile": 0.9},
        {"lower_quantile": 0.05, "upper_quantile": 0.5, "stretch_type": "power"},
        {"vmin": 0.0, "lower_quantile": 0.3},
        {"stretch_type": "asinh"},
        {"spine_linewidth": 2, "power": 2.0},
    ]
    for norm, kw in itertools.product(norms, kwargs_list):
        old = _run(_Orig._resolve_normalization, norm, **kw)
        new = _run(_resolve_normalization, norm, **kw)
        same(f"_resolve_normalization({norm!r}, **{kw})", old, new)
    assert _resolve_normalization(cfg) is cfg
    assert _resolve_normalization(cfg, vmin=1.0) is cfg


# --------------------------------------------------------------------------------------
# Part 2: the property on the installed code
# --------------------------------------------------------------------------------------
TOL = 1e-12
N_PROP = 0


def assert_property(norm, data, label):
    global N_PROP
    N_PROP += 1
    data = np.asarray(data)
    with np.errstate(all="ignore"):
        out = norm(data)
    assert isinstance(out, np.ma.MaskedArray), label
    assert out.shape == data.shape, label
    fdata = data.astype(np.float64)
    nan = np.isnan(fdata)
    mask = np.ma.getmaskarray(out)
    # NaN never becomes a number
    assert np.all(mask[nan]), f"{label}: NaN not masked"
    raw = np.asarray(out.data, dtype=np.float64)
    assert np.all(np.isnan(raw[nan])), f"{label}: NaN turned into a number"
    # everything that is not NaN lands in [0, 1] (and is not masked)
    ok = ~nan
    assert not np.any(mask[ok]), f"{label}: non-NaN masked"
    assert np.all(raw[ok] >= -TOL) and np.all(raw[ok] <= 1.0 + TOL), f"{label}: outside [0, 1]"
    # non-decreasing in the data value (inf included: clipped to the ends)
    order = np.argsort(fdata[ok], kind="stable")
    assert np.all(np.diff(raw[ok][order]) >= -TOL), f"{label}: not monotone"
    # limits go to 0 and 1
    vmin, vmax = float(norm.vmin), float(norm.vmax)
    if vmax > vmin and np.isfinite(vmax - vmin):
        with np.errstate(all="ignore"):
            ends = norm(np.array([vmin, vmax, -np.inf, np.inf], dtype=np.float64))
        assert np.allclose(np.asarray(ends), [0.0, 1.0, 0.0, 1.0], atol=1e-12), f"{label}: limits {ends}"


def check_property():
    for (name, arr), icfg, scfg in itertools.product(
        data_arrays(), interval_configs(), stretch_configs()
    ):
        arr = np.asarray(arr)
        if arr.dtype.kind == "c" or arr.size == 0:
            continue
        if arr.dtype == np.float16:
            continue  # half precision overflows inside the log stretch (a * x); old/new only
        finite = arr[np.isfinite(arr)] if arr.dtype.kind == "f" else arr.ravel()
        if np.unique(finite).size < 2:
            continue  # the property is stated for >= 2 distinct finite values
        if icfg.get("vmin") is not None and icfg.get("vmax") is None and not icfg["vmin"] < finite.max():
            continue
        if icfg.get("vmax") is not None and icfg.get("vmin") is None and not icfg["vmax"] > finite.min():
            continue
        if arr.dtype.kind == "b" and icfg["interval_type"] != "manual":
            pass  # bool data is forced onto [0, 1] by _set_limits; still must satisfy the property
        with np.errstate(all="ignore"):
            norm = CustomNormalization(data=arr, **icfg, **scfg)
        assert isinstance(norm.interval, ManualInterval)
        assert norm.interval.vmin is norm.vmin or norm.interval.vmin == norm.vmin
        assert_property(norm, arr, f"[{name}] {icfg} {scfg}")

    # all named presets, through the resolver, the way _show_2d_array builds the object
    rng = np.random.default_rng(3)
    img = rng.normal(size=(16, 16)) * 2.0 + 5.0
    img[2, 3] = np.nan
    img[5, 5] = np.inf
    for preset in NORMALIZATION_PRESETS:
        c = _resolve_normalization(preset)
        norm = CustomNormalization(
            interval_type=c.interval_type, stretch_type=c.stretch_type,
            lower_quantile=c.lower_quantile, upper_quantile=c.upper_quantile,
            vmin=c.vmin, vmax=c.vmax, vcenter=c.vcenter, half_range=c.half_range,
            power=c.power, logarithmic_index=c.logarithmic_index,
            asinh_linear_range=c.asinh_linear_range, data=img,
        )
        assert_property(norm, img, f"preset {preset}")
    for kw in ({"vmin": 3.0, "vmax": 8.0}, {"lower_quantile": 0.1, "upper_quantile": 0.9}, {}):
        c = _resolve_normalization(None, **kw)
        norm = CustomNormalization(
            interval_type=c.interval_type, stretch_type=c.stretch_type,
            lower_quantile=c.lower_quantile, upper_quantile=c.upper_quantile,
            vmin=c.vmin, vmax=c.vmax, data=img,
        )
        assert_property(norm, img, f"kwargs {kw}")
        if "vmin" in kw:
            assert norm.vmin == 3.0 and norm.vmax == 8.0


def check_stretch_inverse_pairs():
    y = np.linspace(0.0, 1.0, 1001)
    stretches = [LinearStretch()]
    stretches += [PowerLawStretch(p) for p in (0.2, 0.5, 1.0, 2.0, 3.7)]
    stretches += [LogarithmicStretch(a) for a in (0.01, 1.0, 10.0, 1000.0, 1e6)]
    stretches += [InverseLogarithmicStretch(a) for a in (0.01, 1.0, 1000.0)]
    stretches += [InverseHyperbolicSineStretch(a) for a in (0.01, 0.1, 0.5, 1.0, 3.0)]
    stretches += [HyperbolicSineStretch(a) for a in (0.2, 1.0 / 3.0, 1.0, 3.0)]
    for st in stretches:
        inv = st.inverse
        fwd_back = st(inv(y))
        back_fwd = inv(st(y))
        assert np.allclose(fwd_back, y, atol=1e-8, rtol=0.0), f"{st}: stretch(inverse(y)) != y"
        assert np.allclose(back_fwd, y, atol=1e-8, rtol=0.0), f"{st}: inverse(stretch(y)) != y"
        out = st(y)
        assert out[0] == 0.0 or abs(out[0]) < 1e-12, st
        assert abs(out[-1] - 1.0) < 1e-12, st
        assert np.all(np.diff(out) >= -TOL), f"{st}: not monotone"
        # y itself must be untouched by the default copy=True
        assert y[0] == 0.0 and y[-1] == 1.0 and y[500] == 0.5
    # CustomNormalization.inverse undoes __call__ inside the interval
    data = np.linspace(-3.0, 9.0, 301)
    for scfg in stretch_configs():
        norm = CustomNormalization("manual", data=data, vmin=-3.0, vmax=9.0, **scfg)
        back = norm.inverse(np.asarray(norm(data)))
        assert np.allclose(back, data, atol=1e-6, rtol=0.0), f"inverse {scfg}"


def main():
    with tempfile.TemporaryDirectory():  # nothing is written; kept for the sandbox contract
        check_manual_get_limits()
        check_centered_get_limits()
        check_asinh_call()
        check_set_limits()
        check_resolve_normalization()
        check_property()
        check_stretch_inverse_pairs()
    print(f"C20 demo OK: {N_CMP} exact old/new comparisons, {N_PROP} property instances")


if __name__ == "__main__":
    main()
