"""C07 / patch 1: get_fourier_filter_torch restructured (window branches merged, single fftshift multiply).

Checks, on the tree it is run against:
  * bitwise identity with a verbatim copy of the ORIGINAL get_fourier_filter_torch
    (all filter names, many even sizes, float32/float64, same exceptions for bad input);
  * agreement with scikit-image's _get_fourier_filter;
  * iradon_torch (which consumes the filter) agrees with skimage.transform.iradon for every filter.
"""

import numpy as np
import torch
from skimage.transform import iradon, radon
from skimage.transform.radon_transform import _get_fourier_filter

from quantem.tomography.radon.radon import get_fourier_filter_torch, iradon_torch

torch.set_num_threads(1)


# ----------------------------------------------------------------------------- original (verbatim)
def orig_get_fourier_filter_torch(size, filter_name="ramp", device=None, dtype=torch.float32):
    """
    Construct the Fourier filter in PyTorch.
    """
    if size % 2 != 0:
        raise ValueError("Filter size must be even")

    n = torch.cat(
        [
            torch.arange(1, size // 2 + 1, 2, device=device),
            torch.arange(size // 2 - 1, 0, -2, device=device),
        ]
    )
    f = torch.zeros(size, device=device, dtype=dtype)
    f[0] = 0.25
    f[1::2] = -1.0 / (torch.pi * n.float()) ** 2

    fourier_filter = 2 * torch.real(torch.fft.fft(f))

    if filter_name == "ramp":
        pass
    elif filter_name == "shepp-logan":
        omega = torch.pi * torch.fft.fftfreq(size, device=device)[1:]
        fourier_filter[1:] *= torch.sin(omega) / omega
    elif filter_name == "cosine":
        # np.linspace(0, pi, size, endpoint=False) of the reference implementation
        freq = torch.linspace(0, torch.pi, steps=size + 1, device=device)[:-1]
        fourier_filter *= torch.fft.fftshift(torch.sin(freq))
    elif filter_name == "hamming":
        hamming = torch.hamming_window(size, periodic=False, dtype=dtype, device=device)
        fourier_filter *= torch.fft.fftshift(hamming)
    elif filter_name == "hann":
        hann = torch.hann_window(size, periodic=False, dtype=dtype, device=device)
        fourier_filter *= torch.fft.fftshift(hann)
    elif filter_name is None:
        fourier_filter[:] = 1.0
    else:
        raise ValueError(f"Unknown filter: {filter_name}")

    # Reshape filter for broadcasting with sinogram
    return fourier_filter.unsqueeze(0)  # Shape: [1, size] for broadcasting with [num_angles, size]


# ----------------------------------------------------------------------------------------- checks
FILTERS = ("ramp", "shepp-logan", "cosine", "hamming", "hann", None)
SIZES = (2, 4, 6, 10, 64, 66, 128, 250, 256, 1024)


def outcome(fn, *a, **k):
    try:
        return ("ok", fn(*a, **k))
    except Exception as e:  # noqa: BLE001
        return ("err", type(e), str(e))


def check_identical_to_original():
    n = 0
    for size in SIZES:
        for name in FILTERS:
            for dtype in (torch.float32, torch.float64):
                new = get_fourier_filter_torch(size, name, dtype=dtype)
                old = orig_get_fourier_filter_torch(size, name, dtype=dtype)
                assert new.shape == old.shape == (1, size), (new.shape, old.shape)
                assert new.dtype == old.dtype, (new.dtype, old.dtype)
                assert torch.equal(new, old), (size, name, dtype, (new - old).abs().max())
                n += 1
    # default arguments / keyword spelling
    assert torch.equal(get_fourier_filter_torch(64), orig_get_fourier_filter_torch(64))
    assert torch.equal(
        get_fourier_filter_torch(size=32, filter_name="hann", device=torch.device("cpu")),
        orig_get_fourier_filter_torch(size=32, filter_name="hann", device=torch.device("cpu")),
    )
    # repeated calls do not share state
    a = get_fourier_filter_torch(64, "hamming")
    a.zero_()
    assert torch.equal(get_fourier_filter_torch(64, "hamming"), orig_get_fourier_filter_torch(64, "hamming"))
    # bad inputs: same exception type and message
    for args in ((7, "ramp"), (64, "bogus"), (64, "Hann"), (64, ""), (64, 3), (64, ["hann"]), (63, "bogus"),
                 (64, ("hamming", "hann")), (0, "ramp"), (0, "hann"), (0, None)):
        o_new, o_old = outcome(get_fourier_filter_torch, *args), outcome(orig_get_fourier_filter_torch, *args)
        assert o_new[0] == o_old[0], (args, o_new, o_old)
        if o_new[0] == "err":
            assert o_new[1:] == o_old[1:], (args, o_new, o_old)
        else:
            assert o_new[1].shape == o_old[1].shape and torch.equal(o_new[1], o_old[1]), args
    return n


def check_against_skimage_filter():
    worst = 0.0
    for size in SIZES:
        for name in FILTERS:
            got = get_fourier_filter_torch(size, name).numpy().ravel()
            ref = _get_fourier_filter(size, name).ravel()
            assert got.shape == ref.shape
            err = float(np.abs(got - ref).max())
            worst = max(worst, err)
            assert err < 2e-6, (size, name, err)
            got64 = get_fourier_filter_torch(size, name, dtype=torch.float64).numpy().ravel()
            assert float(np.abs(got64 - ref).max()) < 2e-6, (size, name)
    return worst


def check_iradon_against_skimage():
    rng = np.random.default_rng(7)
    worst = 0.0
    for N in (9, 16, 31, 40):
        img = rng.random((N, N))
        yy, xx = np.mgrid[:N, :N]
        img = img * (((xx - N // 2) ** 2 + (yy - N // 2) ** 2) <= (N // 2) ** 2)
        for theta in (np.arange(0.0, 180.0, 12.0), np.array([0.0, 17.5, 90.0, 133.0, 180.0]), np.array([60.0])):
            sino = radon(img, theta=theta, circle=True)  # (N, A)
            s_t = torch.from_numpy(sino.T.astype(np.float32))
            th = torch.tensor(theta, dtype=torch.float32)
            for name in FILTERS:
                ref = iradon(sino, theta=theta, filter_name=name, circle=True)
                got = iradon_torch(s_t, theta=th, filter_name=name).numpy()
                tol = 2e-4 * max(1.0, float(np.abs(ref).max()))
                err = float(np.abs(got - ref).max())
                worst = max(worst, err / max(1.0, float(np.abs(ref).max())))
                assert err < tol, (N, len(theta), name, err)
                # batched call equals the per-image calls
                batch = torch.stack([s_t, 2 * s_t, s_t.flip(1)])
                gb = iradon_torch(batch, theta=th, filter_name=name)
                for b in range(3):
                    single = iradon_torch(batch[b], theta=th, filter_name=name)
                    assert torch.allclose(gb[b], single, rtol=0, atol=1e-4 * max(1.0, float(single.abs().max()))), (N, name, b)
    return worst


if __name__ == "__main__":
    n = check_identical_to_original()
    w1 = check_against_skimage_filter()
    w2 = check_iradon_against_skimage()
    print(f"PASS: {n} filter configurations bitwise identical to the original; "
          f"max |filter - skimage| = {w1:.2e}; max rel iradon error vs skimage = {w2:.2e}")
