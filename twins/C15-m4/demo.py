"""
Demo for property C15 (drift correction starts from an exact, shape-independent
resampling geometry).

Two kinds of checks, both of which must pass on the unmodified tree and with any of
the behaviour-preserving patches applied:

  A. old == new, bit for bit.  Verbatim copies of the ORIGINAL
     dft_upsample / cross_correlation_shift / bilinear_kde / DriftInterpolator /
     DriftCorrection.preprocess / DriftCorrection.align_translation are embedded below
     and compared (dtype, shape and raw bytes) against the live implementations in
     quantem on a spread of inputs.

  B. the property itself on the live code: exact initial geometry for every shape /
     angle / pad fraction / knot count, unit weight per pixel, and identical stacks
     being a fixed point of align_translation.

Run as:  PYTHONPATH=<root>/src /venv/bin/python demo.py
"""

import itertools
import sys
import warnings
from typing import List, Optional, Tuple, Union

import matplotlib

matplotlib.use("Agg")

import numpy as np
from numpy.typing import NDArray
from scipy.interpolate import interp1d
from scipy.ndimage import gaussian_filter

import quantem.core.utils.imaging_utils as iu_mod
import quantem.imaging.drift as drift_mod
from quantem.core.datastructures.dataset3d import Dataset3d
from quantem.core.utils.compound_validators import validate_pad_value
from quantem.core.utils.utils import generate_batches

# --------------------------------------------------------------------------------------
# Verbatim copies of the ORIGINAL code (reference implementation)
# --------------------------------------------------------------------------------------

def dft_upsample(
    F: NDArray,
    up: int,
    shift: Tuple[float, float],
    device: str = "cpu",
):
    """
    Matrix multiplication DFT, from:

    Manuel Guizar-Sicairos, Samuel T. Thurman, and James R. Fienup, "Efficient subpixel
    image registration algorithms," Opt. Lett. 33, 156-158 (2008).
    http://www.sciencedirect.com/science/article/pii/S0045790612000778
    """
    if device == "gpu":
        import cupy as cp  # type: ignore

        xp = cp
    else:
        xp = np

    M, N = F.shape
    du = np.ceil(1.5 * up).astype(int)
    # sample positions (in upsampled pixels) of the local patch, centred on `shift`
    row = np.arange(-du, du + 1) + shift[0] * up
    col = np.arange(-du, du + 1) + shift[1] * up

    # inverse-DFT kernels: F is a Fourier-domain array, the patch is in real space
    kern_row = np.exp(
        2j * np.pi / (M * up) * np.outer(row, xp.fft.ifftshift(xp.arange(M)) - M // 2)
    )
    kern_col = np.exp(
        2j * np.pi / (N * up) * np.outer(xp.fft.ifftshift(xp.arange(N)) - N // 2, col)
    )
    return xp.real(kern_row @ F @ kern_col)


def cross_correlation_shift(
    im_ref,
    im,
    upsample_factor: int = 1,
    max_shift=None,
    return_shifted_image: bool = False,
    fft_input: bool = False,
    fft_output: bool = False,
    device: str = "cpu",
):
    """
    Estimate subpixel shift between two 2D images using Fourier cross-correlation.

    Parameters
    ----------
    im_ref : ndarray
        Reference image or its FFT if fft_input=True
    im : ndarray
        Image to align or its FFT if fft_input=True
    upsample_factor : int
        Subpixel upsampling factor (must be > 1 for subpixel accuracy)
    fft_input : bool
        If True, assumes im_ref and im are already in Fourier space
    return_shifted_image : bool
        If True, return the shifted version of `im` aligned to `im_ref`
    device : str
        'cpu' or 'gpu' (requires CuPy)

    Returns
    -------
    shifts : tuple of float
        (row_shift, col_shift) to align `im` to `im_ref`
    image_shifted : ndarray (optional)
        Shifted image in real space, only returned if return_shifted_image=True
    """
    if device == "gpu":
        import cupy as cp  # type: ignore

        xp = cp
    else:
        xp = np

    # Fourier transforms
    F_ref = im_ref if fft_input else xp.fft.fft2(im_ref)
    F_im = im if fft_input else xp.fft.fft2(im)

    # Correlation
    cc = F_ref * xp.conj(F_im)
    cc_real = xp.real(xp.fft.ifft2(cc))

    if max_shift is not None:
        x = np.fft.fftfreq(cc.shape[0], 1 / cc.shape[0])
        y = np.fft.fftfreq(cc.shape[1], 1 / cc.shape[1])
        mask = x[:, None] ** 2 + y[None, :] ** 2 >= max_shift**2
        cc_real[mask] = 0.0

    # Coarse peak
    peak = xp.unravel_index(xp.argmax(cc_real), cc_real.shape)
    x0, y0 = peak

    # Parabolic refinement
    x_inds = xp.mod(x0 + xp.arange(-1, 2), cc.shape[0]).astype(int)
    y_inds = xp.mod(y0 + xp.arange(-1, 2), cc.shape[1]).astype(int)

    vx = cc_real[x_inds, y0]
    vy = cc_real[x0, y_inds]

    def parabolic_peak(v):
        return (v[2] - v[0]) / (4 * v[1] - 2 * v[2] - 2 * v[0])

    dx = parabolic_peak(vx)
    dy = parabolic_peak(vy)

    x0 = (x0 + dx) % cc.shape[0]
    y0 = (y0 + dy) % cc.shape[1]

    if upsample_factor <= 1:
        shifts = (x0, y0)
    else:
        # Local DFT upsampling

        local = dft_upsample(cc, upsample_factor, (x0, y0), device=device)
        peak = np.unravel_index(xp.argmax(local), local.shape)

        try:
            lx, ly = peak
            icc = local[lx - 1 : lx + 2, ly - 1 : ly + 2]
            if icc.shape == (3, 3):
                dxf = parabolic_peak(icc[:, 1])
                dyf = parabolic_peak(icc[1, :])
            else:
                raise ValueError("Subarray too close to edge")
        except (IndexError, ValueError):
            dxf = dyf = 0.0

        # the local patch is centred on (x0, y0): its centre sample has index (len - 1) // 2
        center = (np.array(local.shape) - 1) // 2
        shifts = np.array([x0, y0]) + (np.array(peak) - center) / upsample_factor
        shifts += np.array([dxf, dyf]) / upsample_factor

    shifts = (shifts + 0.5 * np.array(cc.shape)) % cc.shape - 0.5 * np.array(cc.shape)

    if not return_shifted_image:
        return shifts

    # Fourier shift image (F_im assumed to be FFT)
    kx = xp.fft.fftfreq(F_im.shape[0])[:, None]
    ky = xp.fft.fftfreq(F_im.shape[1])[None, :]
    phase_ramp = xp.exp(-2j * np.pi * (kx * shifts[0] + ky * shifts[1]))
    F_im_shifted = F_im * phase_ramp
    if fft_output:
        image_shifted = F_im_shifted
    else:
        image_shifted = xp.real(xp.fft.ifft2(F_im_shifted))

    return shifts, image_shifted


def bilinear_kde(
    xa: NDArray,
    ya: NDArray,
    values: NDArray,
    output_shape: Tuple[int, int],
    kde_sigma: float,
    pad_value: float = 0.0,
    threshold: float = 1e-3,
    lowpass_filter: bool = False,
    max_batch_size: Optional[int] = None,
    return_pix_count: bool = False,
) -> NDArray | tuple[NDArray, NDArray]:
    """
    Compute a bilinear kernel density estimate (KDE) with smooth threshold masking.

    Parameters
    ----------
    xa : NDArray
        Vertical (row) coordinates of input points.
    ya : NDArray
        Horizontal (col) coordinates of input points.
    values : NDArray
        Weights for each (xa, ya) point.
    output_shape : tuple of int
        Output image shape (rows, cols).
    kde_sigma : float
        Standard deviation of Gaussian KDE smoothing.
    pad_value : float, default = 1.0
        Value to return when KDE support is too low.
    threshold : float, default = 1e-3
        Minimum counts_KDE value for trusting the output signal.
    lowpass_filter : bool, optional
        If True, apply sinc-based inverse filtering to deconvolve the kernel.
    max_batch_size : int or None, optional
        Max number of points to process in one batch.

    Returns
    -------
    NDArray
        The estimated KDE image with threshold-masked output.
    """
    rows, cols = output_shape
    xF = np.floor(xa.ravel()).astype(int)
    yF = np.floor(ya.ravel()).astype(int)
    dx = xa.ravel() - xF
    dy = ya.ravel() - yF
    w = values.ravel()

    pix_count = np.zeros(rows * cols, dtype=np.float32)
    pix_output = np.zeros(rows * cols, dtype=np.float32)

    if max_batch_size is None:
        max_batch_size = xF.shape[0]

    for start, end in generate_batches(xF.shape[0], max_batch=max_batch_size):
        for dx_off, dy_off, weights in [
            (0, 0, (1 - dx[start:end]) * (1 - dy[start:end])),
            (1, 0, dx[start:end] * (1 - dy[start:end])),
            (0, 1, (1 - dx[start:end]) * dy[start:end]),
            (1, 1, dx[start:end] * dy[start:end]),
        ]:
            inds = [xF[start:end] + dx_off, yF[start:end] + dy_off]
            inds_1D = np.ravel_multi_index(inds, dims=output_shape, mode="wrap")

            pix_count += np.bincount(inds_1D, weights=weights, minlength=rows * cols)
            pix_output += np.bincount(
                inds_1D, weights=weights * w[start:end], minlength=rows * cols
            )

    # Reshape to 2D and apply Gaussian KDE
    pix_count = pix_count.reshape(output_shape)
    pix_output = pix_output.reshape(output_shape)

    pix_count = gaussian_filter(pix_count, kde_sigma)
    pix_output = gaussian_filter(pix_output, kde_sigma)

    # Final image
    weight = np.minimum(pix_count / threshold, 1.0)
    image = pad_value * (1.0 - weight) + weight * (pix_output / np.maximum(pix_count, 1e-8))

    if lowpass_filter:
        f_img = np.fft.fft2(image)
        fx = np.fft.fftfreq(rows)
        fy = np.fft.fftfreq(cols)
        f_img /= np.sinc(fx)[:, None]
        f_img /= np.sinc(fy)[None, :]
        image = np.real(np.fft.ifft2(f_img))

        if return_pix_count:
            f_img = np.fft.fft2(pix_count)
            f_img /= np.sinc(fx)[:, None]
            f_img /= np.sinc(fy)[None, :]
            pix_count = np.real(np.fft.ifft2(f_img))

    if return_pix_count:
        return image, pix_count
    else:
        return image


class DriftInterpolator:
    def __init__(
        self,
        input_shape,
        output_shape,
        scan_fast,
        scan_slow,
        pad_value,
        kde_sigma,
    ):
        self.input_shape = input_shape
        self.output_shape = output_shape
        self.scan_fast = scan_fast
        self.scan_slow = scan_slow
        self.pad_value = pad_value
        self.kde_sigma = kde_sigma

        self.rows_input = np.arange(input_shape[0])
        self.cols_input = np.arange(input_shape[1])
        self.u = np.linspace(0, 1, input_shape[1])

    def transform_rows(
        self,
        knots_row: NDArray,
    ):
        num_knots = knots_row.shape[-1]
        basis = np.linspace(0, 1, num_knots)

        if num_knots == 1:
            xa = knots_row[0] + self.u[None, :] * self.scan_fast[0] * (self.input_shape[1] - 1)
            ya = knots_row[1] + self.u[None, :] * self.scan_fast[1] * (self.input_shape[1] - 1)
        elif num_knots == 2:
            xa = interp1d(basis, knots_row[0], kind="linear", assume_sorted=True)(self.u)
            ya = interp1d(basis, knots_row[1], kind="linear", assume_sorted=True)(self.u)
        else:
            kind = "quadratic" if num_knots == 3 else "cubic"
            xa = interp1d(
                basis,
                knots_row[0],
                kind=kind,
                fill_value="extrapolate",
                assume_sorted=True,
            )(self.u)
            ya = interp1d(
                basis,
                knots_row[1],
                kind=kind,
                fill_value="extrapolate",
                assume_sorted=True,
            )(self.u)

        return xa, ya

    def transform_coordinates(
        self,
        knots: NDArray,
    ):
        num_knots = knots.shape[-1]

        if num_knots == 1:
            # vectorized version for speed
            xa, ya = self.transform_rows(knots)
        else:
            xa = np.zeros(self.input_shape)
            ya = np.zeros(self.input_shape)
            for i in range(self.input_shape[0]):
                xa[i], ya[i] = self.transform_rows(knots[:, i])

        return xa, ya

    def warp_image(
        self,
        image: NDArray,
        knots: NDArray,  # shape: (2, rows, num_knots)
        kde_sigma=None,
        output_shape=None,
        pad_value=None,
        upsample_factor=None,
    ) -> NDArray:
        xa, ya = self.transform_coordinates(
            knots,
        )

        if kde_sigma is None:
            kde_sigma = self.kde_sigma

        if output_shape is None:
            output_shape = self.output_shape

        if pad_value is None:
            pad_value = self.pad_value

        if upsample_factor is None:
            upsample_factor = 1.0

        image_interp, weight_interp = bilinear_kde(
            xa=xa * upsample_factor,  # rows
            ya=ya * upsample_factor,  # cols
            values=image,
            output_shape=np.round(np.array(output_shape) * upsample_factor).astype("int"),
            kde_sigma=kde_sigma * upsample_factor,
            pad_value=pad_value,
            return_pix_count=True,
        )

        return image_interp, weight_interp



class _OrigMethods:
    def preprocess(
        self,
        pad_fraction: float = 0.25,
        pad_value: Union[float, str, List[float]] = "median",
        kde_sigma: float = 0.5,
        number_knots: int = 1,
        show_merged: bool = False,
        show_images: bool = False,
        show_knots: bool = True,
        **kwargs,
    ):
        # Validators
        validated_pad_value = validate_pad_value(pad_value, self._images)

        # Input data
        self.pad_fraction = pad_fraction
        self._pad_value = validated_pad_value
        self.kde_sigma = kde_sigma
        self.number_knots = number_knots

        # Derived data
        self.scan_direction = np.deg2rad(self.scan_direction_degrees)
        self.scan_fast = np.stack(
            [
                np.sin(-self.scan_direction),
                np.cos(-self.scan_direction),
            ],
            axis=1,
        )
        self.scan_slow = np.stack(
            [
                np.cos(-self.scan_direction),
                -np.sin(-self.scan_direction),
            ],
            axis=1,
        )
        self.shape = (
            len(self.images),
            int(np.round(self.images[0].shape[0] * (1 + self.pad_fraction) / 2) * 2),
            int(np.round(self.images[1].shape[1] * (1 + self.pad_fraction) / 2) * 2),
        )

        # Initialize Bezier knots and scan vectors for scanlines
        self.knots = []
        for a0 in range(self.shape[0]):
            shape = self.images[a0].shape

            v_slow = np.linspace(-(shape[0] - 1) / 2, (shape[0] - 1) / 2, shape[0])
            u_fast = np.linspace(-(shape[1] - 1) / 2, (shape[1] - 1) / 2, self.number_knots)

            xa = (
                (self.shape[1] - 1) / 2
                + u_fast[None, :] * self.scan_fast[a0, 0]
                + v_slow[:, None] * self.scan_slow[a0, 0]
            )
            ya = (
                (self.shape[2] - 1) / 2
                + u_fast[None, :] * self.scan_fast[a0, 1]
                + v_slow[:, None] * self.scan_slow[a0, 1]
            )

            self.knots.append(np.stack([xa, ya], axis=0))

        # Precompute the interpolator for all images
        self.interpolator = []
        for a0 in range(self.shape[0]):
            self.interpolator.append(
                DriftInterpolator(
                    input_shape=self.images[a0].shape,
                    output_shape=self.shape[1:],
                    scan_fast=self.scan_fast[a0],
                    scan_slow=self.scan_slow[a0],
                    pad_value=self.pad_value[a0],
                    kde_sigma=self.kde_sigma,
                )
            )

        # Generate initial resampled images
        self.images_warped = Dataset3d.from_shape(self.shape)
        self.weights_warped = Dataset3d.from_shape(self.shape)
        for ind in range(self.shape[0]):
            self.images_warped.array[ind], self.weights_warped.array[ind] = self.interpolator[
                ind
            ].warp_image(
                self.images[ind].array,
                self.knots[ind],
            )

        # Error tracking
        self.calculate_error(0)

        # Plots
        kwargs.pop("title", None)
        if show_merged:
            self.plot_merged_images(show_knots=show_knots, title="Merged: initial", **kwargs)
        if show_images:
            self.plot_transformed_images(
                show_knots=show_knots,
                title=[f"Image {i}: initial" for i in range(self.shape[0])],
                **kwargs,
            )

        return self

    def align_translation(
        self,
        upsample_factor: int = 8,
        min_image_shift: Optional[float] = None,
        max_image_shift: float = 32,
        show_merged: bool = True,
        show_images: bool = False,
        show_knots: bool = True,
        **kwargs,
    ):
        """
        Solve for the translation between all images in DriftCorrection.images_warped
        """

        if not hasattr(self, "knots"):
            print("\033[91mNo knots found — running .preprocess() with default settings.\033[0m")
            self.preprocess()

        # init
        dxy = np.zeros((self.shape[0], 2))

        # loop over images
        F_ref = np.fft.fft2(self.images_warped.array[0])
        for ind in range(1, self.shape[0]):
            shifts, image_shift = cross_correlation_shift(
                F_ref,
                np.fft.fft2(self.images_warped.array[ind]),
                upsample_factor=upsample_factor,
                max_shift=max_image_shift,
                fft_input=True,
                fft_output=True,
                return_shifted_image=True,
            )

            dxy[ind, :] = shifts
            F_ref = F_ref * ind / (ind + 1) + image_shift / (ind + 1)

        # Normalize dxy
        dxy -= np.mean(dxy, axis=0)

        # Minimum image shift
        if min_image_shift is not None:
            if np.linalg.norm(dxy[ind]) < min_image_shift:
                dxy[ind] = 0.0

        # Apply shifts to knots
        for ind in range(self.shape[0]):
            self.knots[ind][0] += dxy[ind, 0]
            self.knots[ind][1] += dxy[ind, 1]

        # Regenerate images
        for ind in range(self.shape[0]):
            self.images_warped.array[ind], self.weights_warped.array[ind] = self.interpolator[
                ind
            ].warp_image(
                self.images[ind].array,
                self.knots[ind],
            )

        # Plots
        kwargs.pop("title", None)
        if show_merged:
            self.plot_merged_images(show_knots=show_knots, title="Merged: translation", **kwargs)
        if show_images:
            self.plot_transformed_images(
                show_knots=show_knots,
                title=[f"Image {i}: translation" for i in range(self.shape[0])],
                **kwargs,
            )

        return self



class OrigDriftCorrection(drift_mod.DriftCorrection):
    """Live class with the two anchored methods replaced by their original text; the
    originals resolve DriftInterpolator / bilinear_kde / cross_correlation_shift to the
    verbatim copies above (this module's globals)."""

    preprocess = _OrigMethods.preprocess
    align_translation = _OrigMethods.align_translation


# --------------------------------------------------------------------------------------
# helpers
# --------------------------------------------------------------------------------------

N_CMP = 0


def same(a, b, what):
    """Bit-for-bit equality (dtype, shape, bytes); recurses through tuples / lists."""
    global N_CMP
    if isinstance(a, (tuple, list)) or isinstance(b, (tuple, list)):
        assert type(a) is type(b), f"{what}: container type {type(a)} vs {type(b)}"
        assert len(a) == len(b), f"{what}: length {len(a)} vs {len(b)}"
        for i, (x, y) in enumerate(zip(a, b)):
            same(x, y, f"{what}[{i}]")
        return
    assert type(a) is type(b), f"{what}: type {type(a)} vs {type(b)}"
    xa = np.asarray(a)
    xb = np.asarray(b)
    assert xa.dtype == xb.dtype, f"{what}: dtype {xa.dtype} vs {xb.dtype}"
    assert xa.shape == xb.shape, f"{what}: shape {xa.shape} vs {xb.shape}"
    assert np.ascontiguousarray(xa).tobytes() == np.ascontiguousarray(xb).tobytes(), (
        f"{what}: values differ (max abs diff "
        f"{np.nanmax(np.abs(xa.astype(complex) - xb.astype(complex)))})"
    )
    N_CMP += 1


def test_image(shape, rng, seed_blobs=6):
    """Smooth non-periodic test image with a unique autocorrelation peak."""
    r, c = np.meshgrid(np.arange(shape[0]), np.arange(shape[1]), indexing="ij")
    im = np.zeros(shape)
    for _ in range(seed_blobs):
        r0 = rng.uniform(0.15, 0.85) * shape[0]
        c0 = rng.uniform(0.15, 0.85) * shape[1]
        s = rng.uniform(1.0, 2.5)
        im += rng.uniform(0.5, 1.5) * np.exp(-((r - r0) ** 2 + (c - c0) ** 2) / (2 * s**2))
    im += 0.05 * rng.standard_normal(shape)
    return im


def compare_state(new, old, what):
    same(new.shape, old.shape, what + ".shape")
    same(new.scan_direction, old.scan_direction, what + ".scan_direction")
    same(new.scan_fast, old.scan_fast, what + ".scan_fast")
    same(new.scan_slow, old.scan_slow, what + ".scan_slow")
    same(new.knots, old.knots, what + ".knots")
    same(new.images_warped.array, old.images_warped.array, what + ".images_warped")
    same(new.weights_warped.array, old.weights_warped.array, what + ".weights_warped")
    same(new.error_track, old.error_track, what + ".error_track")


# --------------------------------------------------------------------------------------
# A1. bilinear_kde: old == new
# --------------------------------------------------------------------------------------


def check_bilinear_kde():
    rng = np.random.default_rng(1)
    for in_shape, out_shape in [((9, 14), (16, 22)), ((15, 8), (20, 12)), ((11, 11), (14, 14))]:
        for spread in (0.9, 1.6):  # 1.6 -> points outside the canvas (wrap path)
            xa = (out_shape[0] - 1) / 2 + spread * (rng.random(in_shape) - 0.5) * out_shape[0]
            ya = (out_shape[1] - 1) / 2 + spread * (rng.random(in_shape) - 0.5) * out_shape[1]
            vals = rng.standard_normal(in_shape)
            for sigma, pad, lp, rpc, mb, as_arr in itertools.product(
                (0.0, 0.5, 1.3), (0.0, 0.7), (False, True), (False, True), (None, 37), (False, True)
            ):
                oshape = np.array(out_shape).astype("int") if as_arr else out_shape
                kw = dict(
                    xa=xa,
                    ya=ya,
                    values=vals,
                    output_shape=oshape,
                    kde_sigma=sigma,
                    pad_value=pad,
                    lowpass_filter=lp,
                    max_batch_size=mb,
                    return_pix_count=rpc,
                )
                new = iu_mod.bilinear_kde(**kw)
                old = bilinear_kde(**kw)
                same(new, old, f"bilinear_kde{in_shape}->{out_shape} {sigma, pad, lp, rpc, mb}")
    # truthy / falsy non-bool flags for return_pix_count
    for flag in (0, 1, None, "yes", ""):
        new = iu_mod.bilinear_kde(xa, ya, vals, out_shape, 0.5, return_pix_count=flag)
        old = bilinear_kde(xa, ya, vals, out_shape, 0.5, return_pix_count=flag)
        same(new, old, f"bilinear_kde return_pix_count={flag!r}")


# --------------------------------------------------------------------------------------
# A2. cross_correlation_shift: old == new
# --------------------------------------------------------------------------------------


def check_cross_correlation_shift():
    rng = np.random.default_rng(2)
    for shape in [(16, 16), (20, 26), (27, 18), (15, 21)]:
        ref = test_image(shape, rng)
        for true_shift in [(0, 0), (2, -3), (-4, 1)]:
            im = np.roll(ref, true_shift, axis=(0, 1)) + 0.01 * rng.standard_normal(shape)
            for up, ms, rsi, fin, fout in itertools.product(
                (1, 2, 8), (None, 3, 32, 6.5), (False, True), (False, True), (False, True)
            ):
                a, b = (np.fft.fft2(ref), np.fft.fft2(im)) if fin else (ref, im)
                kw = dict(
                    upsample_factor=up,
                    max_shift=ms,
                    return_shifted_image=rsi,
                    fft_input=fin,
                    fft_output=fout,
                )
                with warnings.catch_warnings():
                    warnings.simplefilter("ignore")
                    new = iu_mod.cross_correlation_shift(a, b, **kw)
                    old = cross_correlation_shift(a, b, **kw)
                same(new, old, f"cross_correlation_shift{shape} {true_shift} {up, ms, rsi, fin, fout}")


# --------------------------------------------------------------------------------------
# A3. DriftInterpolator.transform_rows / transform_coordinates / warp_image: old == new
# --------------------------------------------------------------------------------------


def check_interpolator():
    rng = np.random.default_rng(3)
    for in_shape in [(10, 10), (9, 16), (14, 7), (1, 5), (6, 2)]:
        out_shape = (in_shape[0] + 6, in_shape[1] + 4)
        ang = rng.uniform(0, 2 * np.pi)
        sf = np.array([np.sin(-ang), np.cos(-ang)])
        ss = np.array([np.cos(-ang), -np.sin(-ang)])
        kw = dict(
            input_shape=in_shape,
            output_shape=out_shape,
            scan_fast=sf,
            scan_slow=ss,
            pad_value=0.3,
            kde_sigma=0.5,
        )
        new_i = drift_mod.DriftInterpolator(**kw)
        old_i = DriftInterpolator(**kw)
        image = rng.standard_normal(in_shape)
        for k in (1, 2, 3, 4):
            knots = rng.uniform(2, 8, size=(2, in_shape[0], k))
            # single row
            for r in range(in_shape[0]):
                same(
                    new_i.transform_rows(knots[:, r]),
                    old_i.transform_rows(knots[:, r]),
                    f"transform_rows{in_shape} k={k} row={r}",
                )
            # integer-valued knots (dtype path)
            kint = np.round(knots).astype(int)
            same(
                new_i.transform_rows(kint[:, 0]),
                old_i.transform_rows(kint[:, 0]),
                f"transform_rows{in_shape} k={k} int knots",
            )
            if k == 1:
                same(
                    new_i.transform_rows(knots),
                    old_i.transform_rows(knots),
                    f"transform_rows{in_shape} vectorised",
                )
            same(
                new_i.transform_coordinates(knots),
                old_i.transform_coordinates(knots),
                f"transform_coordinates{in_shape} k={k}",
            )
            for up, sig in ((None, None), (2, 0.8), (3.0, 0.25)):
                same(
                    new_i.warp_image(image, knots, kde_sigma=sig, upsample_factor=up),
                    old_i.warp_image(image, knots, kde_sigma=sig, upsample_factor=up),
                    f"warp_image{in_shape} k={k} up={up}",
                )


# --------------------------------------------------------------------------------------
# A4 + B.  DriftCorrection.preprocess / align_translation: old == new and the property
# --------------------------------------------------------------------------------------

SHAPES = [(16, 16), (12, 20), (21, 13), (17, 24), (15, 15)]


def check_geometry_and_weights(d, what):
    """Property: pixel (r, c) -> canvas centre + rotation of its offset from the image
    centre; unit total weight per pixel."""
    for ind in range(d.shape[0]):
        R, C = d.images[ind].shape
        xa, ya = d.interpolator[ind].transform_coordinates(d.knots[ind])
        assert xa.shape == (R, C) and ya.shape == (R, C), what
        r = np.arange(R)[:, None] - (R - 1) / 2
        c = np.arange(C)[None, :] - (C - 1) / 2
        th = -np.deg2rad(d.scan_direction_degrees[ind])
        x_exp = (d.shape[1] - 1) / 2 + c * np.sin(th) + r * np.cos(th)
        y_exp = (d.shape[2] - 1) / 2 + c * np.cos(th) - r * np.sin(th)
        err = max(np.abs(xa - x_exp).max(), np.abs(ya - y_exp).max())
        assert err < 1e-9, f"{what}: geometry error {err}"
        wsum = float(np.sum(d.weights_warped.array[ind], dtype=np.float64))
        assert abs(wsum - R * C) < 1e-3 * R * C, f"{what}: weight sum {wsum} != {R * C}"


def check_drift_correction():
    rng = np.random.default_rng(4)
    coords_ref = {}
    n_cfg = 0
    for shape in SHAPES:
        base = test_image(shape, rng)
        for n_img, angle, pad, sigma, up in [
            (2, 0.0, 0.25, 0.5, 8),
            (3, 90.0, 0.5, 1.0, 4),
            (4, 33.0, 0.25, 0.5, 1),
            (2, 217.5, 0.4, 0.75, 8),
            (3, 300.0, 0.6, 0.5, 2),
        ]:
            for k in (1, 2, 3, 4):
                what = f"identical stack {shape} n={n_img} angle={angle} pad={pad} k={k}"
                images = [base.copy() for _ in range(n_img)]
                angles = [angle] * n_img
                new = drift_mod.DriftCorrection.from_data(images, angles)
                old = OrigDriftCorrection.from_data([im.copy() for im in images], angles)
                new.preprocess(pad_fraction=pad, kde_sigma=sigma, number_knots=k)
                old.preprocess(pad_fraction=pad, kde_sigma=sigma, number_knots=k)
                compare_state(new, old, what + " [preprocess]")

                # property: geometry + weights, independent of knot count
                check_geometry_and_weights(new, what)
                xy = new.interpolator[0].transform_coordinates(new.knots[0])
                key = (shape, angle, pad)
                if k == 1:
                    coords_ref[key] = xy
                else:
                    d = max(
                        np.abs(xy[0] - coords_ref[key][0]).max(),
                        np.abs(xy[1] - coords_ref[key][1]).max(),
                    )
                    assert d < 1e-9, f"{what}: coordinates depend on knot count ({d})"

                # property: fixed point of translation alignment
                knots_before = [kn.copy() for kn in new.knots]
                with warnings.catch_warnings():
                    warnings.simplefilter("ignore")
                    new.align_translation(upsample_factor=up, show_merged=False)
                    old.align_translation(upsample_factor=up, show_merged=False)
                compare_state(new, old, what + " [align_translation]")
                move = max(np.abs(a - b).max() for a, b in zip(new.knots, knots_before))
                assert move < 1e-6, f"{what}: knots moved by {move} on an identical stack"
                n_cfg += 1

    # non-identical stacks, mixed scan directions, min/max shift options: old == new only
    for shape in SHAPES[:4]:
        base = test_image(shape, rng)
        for angles, pad, k, kw in [
            ([0.0, 90.0], 0.25, 1, dict(upsample_factor=8)),
            ([10.0, 100.0, 190.0], 0.5, 2, dict(upsample_factor=4, min_image_shift=0.75)),
            ([45.0, 135.0, 225.0, 315.0], 0.3, 3, dict(upsample_factor=1, max_image_shift=4)),
            ([0.0, 180.0], 0.25, 4, dict(upsample_factor=2, min_image_shift=100.0)),
            ([20.0, 20.0], 0.25, 1, dict(upsample_factor=8, max_image_shift=None)),
        ]:
            images = []
            for j in range(len(angles)):
                sh = (int(rng.integers(-2, 3)), int(rng.integers(-2, 3)))
                images.append(np.roll(base, sh, axis=(0, 1)) + 0.02 * rng.standard_normal(shape))
            what = f"mixed stack {shape} angles={angles} k={k}"
            new = drift_mod.DriftCorrection.from_data([im.copy() for im in images], angles)
            old = OrigDriftCorrection.from_data([im.copy() for im in images], angles)
            for pv in ("median", 0.25):
                new.preprocess(pad_fraction=pad, pad_value=pv, number_knots=k)
                old.preprocess(pad_fraction=pad, pad_value=pv, number_knots=k)
                compare_state(new, old, what + f" [preprocess pad_value={pv}]")
                check_geometry_and_weights(new, what)
                with warnings.catch_warnings():
                    warnings.simplefilter("ignore")
                    for rep in range(2):
                        new.align_translation(show_merged=False, **kw)
                        old.align_translation(show_merged=False, **kw)
                        compare_state(new, old, what + f" [align_translation #{rep}]")
            n_cfg += 1
    return n_cfg


def main():
    check_bilinear_kde()
    check_cross_correlation_shift()
    check_interpolator()
    n_cfg = check_drift_correction()
    print(f"OK: {N_CMP} bit-for-bit comparisons, {n_cfg} DriftCorrection configurations")
    return 0


if __name__ == "__main__":
    sys.exit(main())
