"""Shared demo for the five behaviour-preserving edits of property C20.

Embeds verbatim copies of the ORIGINAL functions that the patches touch and checks that
the functions currently in quantem give bit-for-bit the same results (values, dtype,
shape, mask, or the same exception) on a spread of inputs.  It then asserts the property
itself: range [0, 1], monotonicity, limits -> 0/1, NaNs masked, stretch o inverse == id.

Run:  PYTHONPATH=<root>/src /venv/bin/python demo.py
"""

import itertools
import warnings

import numpy as np

from quantem.core.visualization import custom_normalizations as cn

warnings.filterwarnings("ignore")


# --------------------------------------------------------------------------------------
# verbatim copies of the ORIGINAL functions (bodies unchanged, docstrings dropped)
# --------------------------------------------------------------------------------------
def orig_BaseInterval_call(self, values):
    vmin, vmax = self.get_limits(values)

    # integer data is converted first: unsigned subtraction would wrap around below vmin
    values = np.asarray(values)
    if np.issubdtype(values.dtype, np.integer):
        values = values.astype(np.float64)
    # subtract vmin
    values = np.subtract(values, vmin)
    # divide by interval
    if (vmax - vmin) != 0.0:
        np.true_divide(values, vmax - vmin, out=values)

    # clip to [0:1]
    np.clip(values, 0.0, 1.0, out=values)
    return values


def orig_ManualInterval_get_limits(self, values):
    # Avoid overhead of preparing array if both limits have been specified
    # manually, for performance.

    if self.vmin is not None and self.vmax is not None:
        return self.vmin, self.vmax

    # Make sure values is a Numpy array
    values = np.asarray(values).ravel()

    # Filter out invalid values (inf, nan)
    values = values[np.isfinite(values)]
    vmin = np.min(values) if self.vmin is None else self.vmin
    vmax = np.max(values) if self.vmax is None else self.vmax

    return vmin, vmax


def orig_CenteredInterval_get_limits(self, values):
    if self.half_range is not None:
        return self.vcenter - self.half_range, self.vcenter + self.half_range

    values = np.asarray(values).ravel()
    values = values[np.isfinite(values)]
    vmin = np.min(values)
    vmax = np.max(values)

    half_range = np.maximum(np.abs(vmin - self.vcenter), np.abs(vmax - self.vcenter))

    return self.vcenter - half_range, self.vcenter + half_range


def orig_InverseHyperbolicSineStretch_call(self, values, copy=True):
    values = np.array(values, copy=copy)
    np.clip(values, 0.0, 1.0, out=values)
    # map to [-1,1]
    np.multiply(values, 2.0, out=values)
    np.subtract(values, 1.0, out=values)

    np.true_divide(values, self.a, out=values)
    np.arcsinh(values, out=values)

    # map from [-1,1]
    np.true_divide(values, np.arcsinh(1.0 / self.a) * 2.0, out=values)
    np.add(values, 0.5, out=values)
    return values


def orig_CustomNormalization_call(self, value, clip=None):
    values = self.interval(value)
    self.stretch(values, copy=False)
    return np.ma.masked_invalid(values)


# --------------------------------------------------------------------------------------
# bit-for-bit comparison helpers
# --------------------------------------------------------------------------------------
def fingerprint(x):
    """A hashable, bit-exact description of a result (scalar, tuple, ndarray, masked array)."""
    if isinstance(x, tuple):
        return ("tuple",) + tuple(fingerprint(e) for e in x)
    if isinstance(x, np.ma.MaskedArray):
        return (
            "ma",
            str(x.dtype),
            x.shape,
            np.ascontiguousarray(x.data).tobytes(),
            np.ascontiguousarray(np.ma.getmaskarray(x)).tobytes(),
        )
    if isinstance(x, np.ndarray):
        return ("nd", str(x.dtype), x.shape, np.ascontiguousarray(x).tobytes())
    if isinstance(x, np.generic):
        return ("npscalar", str(x.dtype), x.tobytes())
    if isinstance(x, float):
        return ("float", np.float64(x).tobytes())
    return (type(x).__name__, repr(x))


def outcome(fn, *args, **kwargs):
    try:
        return ("ok", fingerprint(fn(*args, **kwargs)))
    except Exception as e:  # noqa: BLE001 - exceptions are part of observable behaviour
        return ("exc", type(e).__name__, str(e))


N_COMPARED = 0


def same(new_fn, old_fn, make_args):
    """Call both with independently built (hence unaliased) arguments and compare bits."""
    global N_COMPARED
    a = outcome(new_fn, *make_args())
    b = outcome(old_fn, *make_args())
    assert a == b, f"old/new differ: new={a[0]}/{hash(a)} old={b[0]}/{hash(b)}"
    N_COMPARED += 1
    return a


# --------------------------------------------------------------------------------------
# inputs
# --------------------------------------------------------------------------------------
def make_arrays():
    rng = np.random.default_rng(20)
    arrs = []
    for shape in [(7,), (4, 5), (2, 3, 4), (1,), (0,), ()]:
        n = int(np.prod(shape))
        for dt in [np.float64, np.float32]:
            a = (rng.standard_normal(n) * 50.0 + 3.0).astype(dt).reshape(shape)
            arrs.append(a)
            if n >= 4:
                b = a.copy()
                fb = b.reshape(-1)
                fb[0] = np.nan
                fb[1] = np.inf
                fb[2] = -np.inf
                arrs.append(b)
            if n >= 1:
                arrs.append(np.full(shape, np.nan, dtype=dt))  # no finite value at all
                arrs.append(np.full(shape, 2.5, dtype=dt))  # constant (vmax == vmin)
        for dt in [np.uint8, np.int8, np.uint16, np.int32, np.int64]:
            info = np.iinfo(dt)
            lo, hi = max(info.min, -1000), min(info.max, 1000)
            arrs.append(rng.integers(lo, hi, size=shape, endpoint=True).astype(dt))
        arrs.append(rng.integers(0, 2, size=shape).astype(bool))
    # non-contiguous view, python list input
    base = rng.standard_normal((6, 8))
    arrs.append(base[::2, ::-1])
    arrs.append([[1.0, 2.0, float("nan")], [4.0, -5.0, 6.0]])
    arrs.append([3, 1, 2])
    return arrs


def copy_in(a):
    return a.copy() if isinstance(a, np.ndarray) else [r[:] if isinstance(r, list) else r for r in a]


ARRAYS = make_arrays()

MANUAL = [
    cn.ManualInterval(),
    cn.ManualInterval(vmin=-10.0),
    cn.ManualInterval(vmax=20.0),
    cn.ManualInterval(vmin=-10.0, vmax=20.0),
    cn.ManualInterval(vmin=0, vmax=255),
    cn.ManualInterval(vmin=5.0, vmax=5.0),
    cn.ManualInterval(vmin=np.float32(1.5), vmax=None),
    cn.ManualInterval(vmin=0.0, vmax=0.0),
]
CENTERED = [
    cn.CenteredInterval(),
    cn.CenteredInterval(vcenter=3.0),
    cn.CenteredInterval(vcenter=-2, half_range=7),
    cn.CenteredInterval(vcenter=1.5, half_range=0.0),
    cn.CenteredInterval(vcenter=np.float32(0.25)),
]
QUANTILE = [
    cn.QuantileInterval(),
    cn.QuantileInterval(0.0, 1.0),
    cn.QuantileInterval(0.25, 0.6),
]
ASINH_A = [0.1, 1e-3, 0.5, 1.0, 7.0, 1e3, 2, np.float32(0.3)]


def check_old_equals_new():
    # ManualInterval.get_limits / CenteredInterval.get_limits
    for arr in ARRAYS:
        for iv in MANUAL:
            same(iv.get_limits, lambda v, iv=iv: orig_ManualInterval_get_limits(iv, v), lambda: (copy_in(arr),))
        for iv in CENTERED:
            same(iv.get_limits, lambda v, iv=iv: orig_CenteredInterval_get_limits(iv, v), lambda: (copy_in(arr),))

    # BaseInterval.__call__ through every interval subclass
    for arr in ARRAYS:
        for iv in MANUAL + CENTERED + QUANTILE:
            same(iv, lambda v, iv=iv: orig_BaseInterval_call(iv, v), lambda: (copy_in(arr),))

    # InverseHyperbolicSineStretch.__call__ (copy=True and in-place copy=False)
    rng = np.random.default_rng(7)
    unit = [
        np.linspace(0.0, 1.0, 257),
        np.linspace(-0.5, 1.5, 101).astype(np.float32),
        rng.random((5, 6)),
        np.array([0.0, 1.0, 0.5, np.nan, np.inf, -np.inf, 1e-300, 1 - 2**-53]),
        np.array(0.3),
        np.array([], dtype=np.float64),
        np.array([0, 1, 1, 0]),  # integer input: same exception/outcome either way
        [0.1, 0.9],
    ]
    for a in ASINH_A:
        st = cn.InverseHyperbolicSineStretch(a)
        for u in unit:
            for cp in (True, False):
                same(
                    lambda v, st=st, cp=cp: st(v, copy=cp),
                    lambda v, st=st, cp=cp: orig_InverseHyperbolicSineStretch_call(st, v, copy=cp),
                    lambda: (copy_in(u),),
                )

    # CustomNormalization.__call__ over interval x stretch configurations
    for arr in ARRAYS:
        for kw in CONFIGS:
            for with_data in (False, True):

                def build(kw=kw, with_data=with_data, arr=arr):
                    n = cn.CustomNormalization(**kw)
                    if with_data:
                        n._set_limits(np.asarray(copy_in(arr)))
                    return n

                try:
                    n_new, n_old = build(), build()
                except Exception:  # construction is not what is under test here
                    continue
                same(n_new, lambda v, n=n_old: orig_CustomNormalization_call(n, v), lambda: (copy_in(arr),))


CONFIGS = []
for interval_kw in [
    dict(interval_type="quantile"),
    dict(interval_type="quantile", lower_quantile=0.1, upper_quantile=0.7),
    dict(interval_type="manual"),
    dict(interval_type="manual", vmin=-20.0, vmax=40.0),
    dict(interval_type="manual", vmin=-20.0),
    dict(interval_type="centered"),
    dict(interval_type="centered", vcenter=2.0, half_range=30.0),
]:
    for stretch_kw in [
        dict(stretch_type="linear"),
        dict(stretch_type="power", power=2.0),
        dict(stretch_type="power", power=0.37),
        dict(stretch_type="logarithmic"),
        dict(stretch_type="logarithmic", logarithmic_index=3.0),
        dict(stretch_type="asinh"),
        dict(stretch_type="asinh", asinh_linear_range=2.5),
        dict(stretch_type="asinh", asinh_linear_range=1e-3),
    ]:
        CONFIGS.append({**interval_kw, **stretch_kw})
for name, factory in cn.NORMALIZATION_PRESETS.items():
    cfg = cn._resolve_normalization(name)
    assert cfg == factory()
    CONFIGS.append(dict(cfg.__dict__))


# --------------------------------------------------------------------------------------
# the property itself
# --------------------------------------------------------------------------------------
def check_property():
    rng = np.random.default_rng(2020)
    datas = []
    for shape, dt in itertools.product([(40,), (6, 7), (3, 4, 5)], [np.float64, np.float32, np.int16, np.uint8]):
        n = int(np.prod(shape))
        if np.issubdtype(dt, np.integer):
            info = np.iinfo(dt)
            d = rng.integers(max(info.min, -300), min(info.max, 300), size=n, endpoint=True).astype(dt)
        else:
            d = (rng.standard_normal(n) * 30.0 + 4.0).astype(dt)
            d[rng.integers(0, n, size=3)] = np.nan
            d[rng.integers(0, n)] = np.inf
            d[rng.integers(0, n)] = -np.inf
        datas.append(d.reshape(shape))

    n_checked = 0
    for data in datas:
        for kw in CONFIGS:
            norm = cn.CustomNormalization(**kw, data=data.copy())
            vmin, vmax = float(norm.vmin), float(norm.vmax)
            if not (np.isfinite(vmin) and np.isfinite(vmax) and vmax > vmin):
                continue
            out = norm(data.copy())
            assert isinstance(out, np.ma.MaskedArray) and out.shape == data.shape
            isnan = np.isnan(data.astype(np.float64))
            mask = np.ma.getmaskarray(out)
            # NaN never becomes a number, finite data is never masked
            assert np.all(mask[isnan]), kw
            fin = np.isfinite(data.astype(np.float64))
            assert not np.any(mask[fin]), kw
            vals = np.asarray(out.data, dtype=np.float64)[~mask]
            assert np.all(vals >= 0.0) and np.all(vals <= 1.0 + 1e-12), kw
            # non-decreasing in the data value
            src = data.astype(np.float64)[~mask]
            order = np.argsort(src, kind="stable")
            assert np.all(np.diff(vals[order]) >= -1e-9), kw
            # limits -> 0 and 1
            ends = norm(np.array([vmin, vmax], dtype=np.float64))
            assert abs(float(ends[0]) - 0.0) < 1e-9 and abs(float(ends[1]) - 1.0) < 1e-9, (kw, ends)
            n_checked += 1
    assert n_checked > 100, n_checked

    # stretch o inverse == identity on [0, 1]
    y = np.linspace(0.0, 1.0, 501)
    stretches = [cn.LinearStretch()]
    stretches += [cn.PowerLawStretch(p) for p in (0.2, 0.5, 1.0, 2.0, 3.7)]
    stretches += [cn.LogarithmicStretch(a) for a in (0.5, 3.0, 1000.0)]
    stretches += [cn.InverseLogarithmicStretch(a) for a in (0.5, 3.0, 1000.0)]
    stretches += [cn.InverseHyperbolicSineStretch(a) for a in (0.05, 0.1, 0.5, 2.0)]
    for st in stretches:
        inv = st.inverse
        assert np.allclose(st(inv(y.copy())), y, atol=1e-7, rtol=0), st
        assert np.allclose(inv(st(y.copy())), y, atol=1e-7, rtol=0), st
        # inputs are left untouched with copy=True
        z = y.copy()
        st(z)
        assert np.array_equal(z, y)


if __name__ == "__main__":
    check_old_equals_new()
    check_property()
    print(f"OK: {N_COMPARED} old-vs-new comparisons bit-identical; property assertions hold")
