"""Demo for C10 patch 3: ProbePixelated._apply_weights (initial probe intensity / weight scaling).

For probe stacks with 1..5 modes, odd / non-square shapes, numpy and torch inputs of both complex
precisions, default and user weights, and mean intensities spanning 12 decades and several scalar
types:
 (a) the total diffraction intensity of the returned stack equals the measured mean intensity and
     the relative mode intensities equal the requested weights;
 (b) the result, its dtype, and the side effect on a torch input (it is rescaled in place) are
     bit-identical to a verbatim copy of the ORIGINAL implementation;
 (c) the full set_initial_probe pipeline (array- and parameter-initialised) gives identical
     initial_probe / probe with the original method monkey-patched back in.
CPU only, a few seconds, writes nothing.
"""

import types
import warnings

import numpy as np
import torch

from quantem.diffractive_imaging.probe_models import ProbePixelated

warnings.filterwarnings("ignore")
torch.set_num_threads(1)  # tiny arrays: thread fan-out only costs time


# ---- verbatim copy of the original method -------------------------------------------------
def orig_apply_weights(self, probe_array):
    probes = self._to_torch(probe_array)
    probe_intensity = torch.sum(torch.abs(torch.fft.fft2(probes, norm="ortho")).square())
    intensity_norm = torch.sqrt(self.mean_diffraction_intensity / probe_intensity)
    probes *= intensity_norm

    current_weights = torch.sum(torch.abs(probes).square(), dim=(1, 2))
    current_weights = current_weights / torch.sum(current_weights)
    weight_scaling = torch.sqrt(self.initial_probe_weights.to(self.device) / current_weights)
    probes = probes * self._to_torch(weight_scaling)[:, None, None]

    # self._initial_probe = self._to_torch(probes)
    # self._probe = self._initial_probe.clone()
    return probes


# --------------------------------------------------------------------------------------------
def same(a, b):
    if a.shape != b.shape or a.dtype != b.dtype:
        return False
    if a.is_complex():
        a, b = torch.view_as_real(a), torch.view_as_real(b)
    return bool((torch.isnan(a) == torch.isnan(b)).all()) and torch.equal(
        torch.nan_to_num(a, nan=7.0), torch.nan_to_num(b, nan=7.0)
    )


def check_property(out, mean_intensity, weights, tag, rtol):
    o = out.detach().to(torch.complex128)
    total = torch.fft.fft2(o, norm="ortho").abs().square().sum()
    assert abs(float(total) / float(mean_intensity) - 1) < rtol, (tag, float(total))
    rel = o.abs().square().sum((1, 2))
    rel = rel / rel.sum()
    assert torch.allclose(rel, weights.to(torch.float64), rtol=rtol, atol=0), (tag, rel, weights)


def main():
    rng = np.random.default_rng(99)
    n_cmp = 0
    shapes = [(6, 8), (7, 5), (1, 9), (16, 11), (2, 2)]
    intensities = [1.0, 1234.5, 3e-6, 4e6, np.float32(17.25), np.float64(0.125), 7]
    for np_dtype, rtol in [(np.complex64, 2e-4), (np.complex128, 2e-4)]:
        # (weights are always float32, so the relative accuracy is float32 in both cases)
        for shape in shapes:
            for n in range(1, 6):
                for wkind in ["default", "user", "equal", "ascending"]:
                    if wkind == "default":
                        w = None
                    elif wkind == "user":
                        w = list(rng.uniform(0.05, 3.0, size=n))  # not normalised on purpose
                    elif wkind == "equal":
                        w = np.ones(n)
                    else:
                        w = np.arange(1, n + 1, dtype=np.float64)
                    base = (rng.normal(size=(n, *shape)) + 1j * rng.normal(size=(n, *shape))) * (
                        10.0 ** rng.uniform(-3, 3, size=(n, 1, 1))
                    )
                    base = base.astype(np_dtype)
                    model = ProbePixelated.from_array(
                        base.astype(np.complex64), rng=4, initial_probe_weights=w
                    )
                    assert tuple(model.roi_shape) == shape and model.num_probes == n
                    weights = model.initial_probe_weights
                    assert abs(float(weights.sum()) - 1) < 1e-6
                    for mi in intensities:
                        model.mean_diffraction_intensity = mi
                        tag = (np_dtype.__name__, shape, n, wkind, mi)

                        # numpy input (copied by _to_torch)
                        a_in, b_in = base.copy(), base.copy()
                        new = model._apply_weights(a_in)
                        old = orig_apply_weights(model, b_in)
                        assert same(new, old), tag
                        assert np.array_equal(a_in, base) and np.array_equal(b_in, base), tag

                        # torch input on the model device: rescaled IN PLACE by the intensity
                        # normalisation (and only by that) - must be the same before and after
                        ta, tb = torch.tensor(base), torch.tensor(base)
                        new_t = model._apply_weights(ta)
                        old_t = orig_apply_weights(model, tb)
                        assert same(new_t, old_t) and same(new_t, new), tag
                        assert same(ta, tb), tag
                        assert new_t.data_ptr() != ta.data_ptr(), tag
                        n_cmp += 2

                        assert new.dtype == torch.tensor(base).dtype and new.shape == base.shape
                        check_property(new, mi, weights, tag, rtol)

                        # applying it again to its own output keeps the property (idempotent scale)
                        again = model._apply_weights(new.clone())
                        assert same(again, orig_apply_weights(model, new.clone())), tag
                        check_property(again, mi, weights, tag, rtol)

    # ---- full pipeline: set_initial_probe, array-initialised and parameter-initialised ------
    def build(kind, seed):
        if kind == "array":
            arr = np.random.default_rng(7).normal(size=(3, 10, 14)) + 0j
            arr = arr * np.exp(1j * np.random.default_rng(8).normal(size=(3, 10, 14)))
            return ProbePixelated.from_array(
                arr.astype(np.complex64), rng=seed, initial_probe_weights=[0.7, 0.2, 0.1]
            )
        if kind == "array-single-tiled":
            arr = np.random.default_rng(9).normal(size=(1, 9, 6)).astype(np.complex64)
            return ProbePixelated.from_array(arr, num_probes=1, rng=seed)
        return ProbePixelated.from_params(
            {"energy": 80e3, "defocus": 150.0, "semiangle_cutoff": 20.0},
            num_probes=4,
            roi_shape=(12, 16),
            rng=seed,
        )

    for kind, roi in [("array", (10, 14)), ("array-single-tiled", (9, 6)), ("params", (12, 16))]:
        for mi in [1.0, 5321.0, 2.5e-3]:
            m_new, m_old = build(kind, 11), build(kind, 11)
            m_old._apply_weights = types.MethodType(orig_apply_weights, m_old)
            for m in (m_new, m_old):
                m.set_initial_probe(roi, np.array([0.05, 0.04]), mi)
            assert same(m_new.initial_probe, m_old.initial_probe), (kind, mi)
            assert same(m_new._probe.detach(), m_old._probe.detach()), (kind, mi)
            assert same(m_new.probe.detach(), m_old.probe.detach()), (kind, mi)
            check_property(m_new.initial_probe, mi, m_new.initial_probe_weights, (kind, mi), 2e-4)
            # reset() brings the optimised probe back to the same normalised initial probe
            with torch.no_grad():
                m_new._probe.mul_(3.0)
            m_new.reset()
            assert same(m_new._probe.detach(), m_old._probe.detach()), (kind, mi)
            n_cmp += 1

    # ---- bad inputs fail the same way ----------------------------------------------------
    model = ProbePixelated.from_array(np.ones((3, 4, 5), dtype=np.complex64), rng=0)
    model.mean_diffraction_intensity = 10.0
    for bad in (
        np.ones((2, 4, 5), dtype=np.complex64),  # mode count does not match the weights
        np.ones((4, 5), dtype=np.complex64),  # not a stack
        "not an array",
    ):
        errs = []
        for fn in (model._apply_weights, lambda x: orig_apply_weights(model, x)):
            try:
                fn(bad)
                errs.append(None)
            except Exception as e:  # noqa: BLE001
                errs.append(type(e))
        assert errs[0] is not None and errs[0] is errs[1], errs
    # a leaf tensor that requires grad cannot be rescaled in place - in either version
    errs = []
    for fn in (model._apply_weights, lambda x: orig_apply_weights(model, x)):
        leaf = torch.ones(3, 4, 5, dtype=torch.complex64, requires_grad=True)
        try:
            fn(leaf)
            errs.append(None)
        except Exception as e:  # noqa: BLE001
            errs.append(type(e))
    assert errs[0] is not None and errs[0] is errs[1], errs

    print(f"PASS  ({n_cmp} old/new comparisons)")


if __name__ == "__main__":
    main()
