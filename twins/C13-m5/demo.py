"""Demo for property C13 (image registration sign convention / accuracy).

Embeds a verbatim copy of the ORIGINAL registration functions from
quantem/core/utils/imaging_utils.py and asserts that the functions of the
installed tree return bit-for-bit identical results on a spread of inputs
(shapes, shifts, upsampling factors, fft_input/fft_output, max_shift), and in
addition asserts the property itself (applied shift is recovered, identical
images give zero, swapping negates).
"""

import os

for _v in ("OMP_NUM_THREADS", "MKL_NUM_THREADS", "OPENBLAS_NUM_THREADS", "NUMEXPR_NUM_THREADS"):
    os.environ.setdefault(_v, "1")

import math
from typing import Tuple

import numpy as np
import torch
from numpy.typing import NDArray

import quantem.core.utils.imaging_utils as new

torch.set_num_threads(1)

# --------------------------------------------------------------------------
# verbatim copy of the ORIGINAL functions (worktree HEAD)
# --------------------------------------------------------------------------

def dft_upsample(
    F: NDArray,
    up: int,
    shift: Tuple[float, float],
    device: str = "cpu",
):
    """
    Matrix multiplication DFT, from:

    Manuel Guizar-Sicairos, Samuel T. Thurman, and James R. Fienup, "Efficient subpixel
    image registration algorithms," Opt. Lett. 33, 156-158 (2008).
    http://www.sciencedirect.com/science/article/pii/S0045790612000778
    """
    if device == "gpu":
        import cupy as cp  # type: ignore

        xp = cp
    else:
        xp = np

    M, N = F.shape
    du = np.ceil(1.5 * up).astype(int)
    # sample positions (in upsampled pixels) of the local patch, centred on `shift`
    row = np.arange(-du, du + 1) + shift[0] * up
    col = np.arange(-du, du + 1) + shift[1] * up

    # inverse-DFT kernels: F is a Fourier-domain array, the patch is in real space
    kern_row = np.exp(
        2j * np.pi / (M * up) * np.outer(row, xp.fft.ifftshift(xp.arange(M)) - M // 2)
    )
    kern_col = np.exp(
        2j * np.pi / (N * up) * np.outer(xp.fft.ifftshift(xp.arange(N)) - N // 2, col)
    )
    return xp.real(kern_row @ F @ kern_col)


def cross_correlation_shift(
    im_ref,
    im,
    upsample_factor: int = 1,
    max_shift=None,
    return_shifted_image: bool = False,
    fft_input: bool = False,
    fft_output: bool = False,
    device: str = "cpu",
):
    """
    Estimate subpixel shift between two 2D images using Fourier cross-correlation.

    Parameters
    ----------
    im_ref : ndarray
        Reference image or its FFT if fft_input=True
    im : ndarray
        Image to align or its FFT if fft_input=True
    upsample_factor : int
        Subpixel upsampling factor (must be > 1 for subpixel accuracy)
    fft_input : bool
        If True, assumes im_ref and im are already in Fourier space
    return_shifted_image : bool
        If True, return the shifted version of `im` aligned to `im_ref`
    device : str
        'cpu' or 'gpu' (requires CuPy)

    Returns
    -------
    shifts : tuple of float
        (row_shift, col_shift) to align `im` to `im_ref`
    image_shifted : ndarray (optional)
        Shifted image in real space, only returned if return_shifted_image=True
    """
    if device == "gpu":
        import cupy as cp  # type: ignore

        xp = cp
    else:
        xp = np

    # Fourier transforms
    F_ref = im_ref if fft_input else xp.fft.fft2(im_ref)
    F_im = im if fft_input else xp.fft.fft2(im)

    # Correlation
    cc = F_ref * xp.conj(F_im)
    cc_real = xp.real(xp.fft.ifft2(cc))

    if max_shift is not None:
        x = np.fft.fftfreq(cc.shape[0], 1 / cc.shape[0])
        y = np.fft.fftfreq(cc.shape[1], 1 / cc.shape[1])
        mask = x[:, None] ** 2 + y[None, :] ** 2 >= max_shift**2
        cc_real[mask] = 0.0

    # Coarse peak
    peak = xp.unravel_index(xp.argmax(cc_real), cc_real.shape)
    x0, y0 = peak

    # Parabolic refinement
    x_inds = xp.mod(x0 + xp.arange(-1, 2), cc.shape[0]).astype(int)
    y_inds = xp.mod(y0 + xp.arange(-1, 2), cc.shape[1]).astype(int)

    vx = cc_real[x_inds, y0]
    vy = cc_real[x0, y_inds]

    def parabolic_peak(v):
        return (v[2] - v[0]) / (4 * v[1] - 2 * v[2] - 2 * v[0])

    dx = parabolic_peak(vx)
    dy = parabolic_peak(vy)

    x0 = (x0 + dx) % cc.shape[0]
    y0 = (y0 + dy) % cc.shape[1]

    if upsample_factor <= 1:
        shifts = (x0, y0)
    else:
        # Local DFT upsampling

        local = dft_upsample(cc, upsample_factor, (x0, y0), device=device)
        peak = np.unravel_index(xp.argmax(local), local.shape)

        try:
            lx, ly = peak
            icc = local[lx - 1 : lx + 2, ly - 1 : ly + 2]
            if icc.shape == (3, 3):
                dxf = parabolic_peak(icc[:, 1])
                dyf = parabolic_peak(icc[1, :])
            else:
                raise ValueError("Subarray too close to edge")
        except (IndexError, ValueError):
            dxf = dyf = 0.0

        # the local patch is centred on (x0, y0): its centre sample has index (len - 1) // 2
        center = (np.array(local.shape) - 1) // 2
        shifts = np.array([x0, y0]) + (np.array(peak) - center) / upsample_factor
        shifts += np.array([dxf, dyf]) / upsample_factor

    shifts = (shifts + 0.5 * np.array(cc.shape)) % cc.shape - 0.5 * np.array(cc.shape)

    if not return_shifted_image:
        return shifts

    # Fourier shift image (F_im assumed to be FFT)
    kx = xp.fft.fftfreq(F_im.shape[0])[:, None]
    ky = xp.fft.fftfreq(F_im.shape[1])[None, :]
    phase_ramp = xp.exp(-2j * np.pi * (kx * shifts[0] + ky * shifts[1]))
    F_im_shifted = F_im * phase_ramp
    if fft_output:
        image_shifted = F_im_shifted
    else:
        image_shifted = xp.real(xp.fft.ifft2(F_im_shifted))

    return shifts, image_shifted


def cross_correlation_shift_torch(
    im_ref: torch.Tensor, im: torch.Tensor, upsample_factor: int = 2
) -> torch.Tensor:
    """
    Align two real images using Fourier cross-correlation and DFT upsampling.
    Returns dx, dy in pixel units (signed shifts).
    """
    G1 = torch.fft.fft2(im_ref)
    G2 = torch.fft.fft2(im)

    xy_shift = align_images_fourier_torch(G1, G2, upsample_factor)

    # convert to centered signed shifts as original code
    M, N = im_ref.shape
    dx = ((xy_shift[0] + M / 2) % M) - M / 2
    dy = ((xy_shift[1] + N / 2) % N) - N / 2

    return torch.tensor([dx, dy], device=G1.device)


def align_images_fourier_torch(
    G1: torch.Tensor,
    G2: torch.Tensor,
    upsample_factor: int,
) -> torch.Tensor:
    """
    Alignment using DFT upsampling of cross correlation.
    G1, G2: torch tensors representing FTs of images (complex)
    Returns: xy_shift (tensor length 2)
    """
    device = G1.device
    cc = G1 * G2.conj()
    cc_real = torch.fft.ifft2(cc).real

    # local max (integer)
    flat_idx = torch.argmax(cc_real)
    x0 = (flat_idx // cc_real.shape[1]).to(torch.long).item()
    y0 = (flat_idx % cc_real.shape[1]).to(torch.long).item()

    # half pixel shifts: pick ±1 indices with wrap (mod)
    M, N = cc_real.shape
    x_inds = [((x0 + dx) % M) for dx in (-1, 0, 1)]
    y_inds = [((y0 + dy) % N) for dy in (-1, 0, 1)]

    vx = cc_real[x_inds, y0]
    vy = cc_real[x0, y_inds]

    # parabolic half-pixel refine
    # dx = (vx[2] - vx[0]) / (4*vx[1] - 2*vx[2] - 2*vx[0])
    denom_x = 4.0 * vx[1] - 2.0 * vx[2] - 2.0 * vx[0]
    denom_y = 4.0 * vy[1] - 2.0 * vy[2] - 2.0 * vy[0]
    dx = (vx[2] - vx[0]) / denom_x if denom_x != 0 else torch.tensor(0.0, device=device)
    dy = (vy[2] - vy[0]) / denom_y if denom_y != 0 else torch.tensor(0.0, device=device)

    # round to nearest half-pixel
    x0 = torch.round((x0 + dx) * 2.0) / 2.0
    y0 = torch.round((y0 + dy) * 2.0) / 2.0

    xy_shift = torch.tensor([x0, y0])

    if upsample_factor > 2:
        xy_shift = upsampled_correlation_torch(cc, upsample_factor, xy_shift)

    return xy_shift


def upsampled_correlation_torch(
    imageCorr: torch.Tensor,
    upsampleFactor: int,
    xyShift: torch.Tensor,
) -> torch.Tensor:
    """
    Refine the correlation peak of imageCorr around xyShift by DFT upsampling.

    imageCorr: complex-valued FT-domain cross-correlation (G1 * conj(G2))
    upsampleFactor: integer > 2
    xyShift: 2-element tensor (x,y) in image coords; must be half-pixel precision as described.
    Returns refined xyShift (tensor length 2).
    """

    assert upsampleFactor > 2

    xyShift = torch.round(xyShift * float(upsampleFactor)) / float(upsampleFactor)
    globalShift = torch.floor(torch.ceil(torch.tensor(upsampleFactor * 1.5)) / 2.0)
    upsampleCenter = globalShift - (upsampleFactor * xyShift)

    conj_input = imageCorr.conj()
    im_up = dftUpsample_torch(conj_input, upsampleFactor, upsampleCenter)
    imageCorrUpsample = im_up.conj()

    # find maximum
    # flatten argmax -> unravel to 2D
    flat_idx = torch.argmax(imageCorrUpsample.real)
    # unravel_index
    xySubShift0 = (flat_idx // imageCorrUpsample.shape[1]).to(torch.long)
    xySubShift1 = (flat_idx % imageCorrUpsample.shape[1]).to(torch.long)
    xySubShift = torch.tensor([xySubShift0.item(), xySubShift1.item()])

    # parabolic subpixel refinement
    dx = 0.0
    dy = 0.0
    try:
        # extract 3x3 patch around found peak
        r = xySubShift[0].item()
        c = xySubShift[1].item()
        patch = imageCorrUpsample.real[r - 1 : r + 2, c - 1 : c + 2]
        # if patch is incomplete (near edge) this will raise / have wrong shape -> except
        if patch.shape == (3, 3):
            icc = patch
            # dx corresponds to row direction (vertical axis) as in original code:
            dx = (icc[2, 1] - icc[0, 1]) / (4.0 * icc[1, 1] - 2.0 * icc[2, 1] - 2.0 * icc[0, 1])
            dy = (icc[1, 2] - icc[1, 0]) / (4.0 * icc[1, 1] - 2.0 * icc[1, 2] - 2.0 * icc[1, 0])
            dx = dx.item()
            dy = dy.item()
        else:
            dx, dy = 0.0, 0.0
    except Exception:
        dx, dy = 0.0, 0.0

    # convert xySubShift to zero-centered by subtracting globalShift
    xySubShift = xySubShift.to(dtype=torch.get_default_dtype())
    xySubShift = xySubShift - globalShift.to(xySubShift.dtype)

    xyShift = xyShift + (xySubShift + torch.tensor([dx, dy])) / float(upsampleFactor)

    return xyShift


def dftUpsample_torch(
    imageCorr: torch.Tensor,
    upsampleFactor: int,
    xyShift: torch.Tensor,
) -> torch.Tensor:
    """
    Corrected matrix-multiply DFT upsampling (matches the original numpy dftups).
    Returns the real-valued upsampled correlation patch.

    imageCorr: (M, N) complex tensor (FT-domain cross-correlation)
    upsampleFactor: int > 2
    xyShift: 2-element tensor [x0, y0] giving the (half-pixel-rounded) peak location
             in the UPSAMPLED grid (same convention used elsewhere).
    """
    device = imageCorr.device
    M, N = imageCorr.shape
    pixelRadius = 1.5
    numRow = int(math.ceil(pixelRadius * upsampleFactor))
    numCol = numRow

    # prepare the vectors exactly like the numpy version
    # col: frequency indices (centered) for N
    col_freq = torch.fft.ifftshift(torch.arange(N, device=device)) - math.floor(N / 2)
    # row: frequency indices (centered) for M
    row_freq = torch.fft.ifftshift(torch.arange(M, device=device)) - math.floor(M / 2)

    # small upsample grid coordinates (integer positions in the UPSAMPLED GRID)
    col_coords = torch.arange(numCol, device=device, dtype=torch.get_default_dtype()) - float(
        xyShift[1]
    )
    row_coords = torch.arange(numRow, device=device, dtype=torch.get_default_dtype()) - float(
        xyShift[0]
    )

    # build kernels: note factor signs and denominators match original numpy code
    # colKern: shape (N, numCol)
    factor_col = -2j * math.pi / (N * float(upsampleFactor))
    # outer(col_freq, col_coords) -> shape (N, numCol)
    colKern = torch.exp(factor_col * (col_freq.unsqueeze(1) * col_coords.unsqueeze(0))).to(
        imageCorr.dtype
    )

    # rowKern: shape (numRow, M)
    factor_row = -2j * math.pi / (M * float(upsampleFactor))
    # outer(row_coords, row_freq) -> shape (numRow, M)
    rowKern = torch.exp(factor_row * (row_coords.unsqueeze(1) * row_freq.unsqueeze(0))).to(
        imageCorr.dtype
    )

    # perform the small-matrix DFT: (numRow, M) @ (M, N) @ (N, numCol) -> (numRow, numCol)
    imageUpsample = rowKern @ imageCorr @ colKern

    # original code took xp.real(...) before returning
    return imageUpsample.real


# --------------------------------------------------------------------------
# comparison harness
# --------------------------------------------------------------------------

ORIG = {
    "dft_upsample": dft_upsample,
    "cross_correlation_shift": cross_correlation_shift,
    "cross_correlation_shift_torch": cross_correlation_shift_torch,
    "align_images_fourier_torch": align_images_fourier_torch,
    "upsampled_correlation_torch": upsampled_correlation_torch,
    "dftUpsample_torch": dftUpsample_torch,
}


def same_np(a, b):
    a = np.asarray(a)
    b = np.asarray(b)
    return a.dtype == b.dtype and a.shape == b.shape and a.tobytes() == b.tobytes()


def same_t(a, b):
    return (
        a.dtype == b.dtype
        and a.shape == b.shape
        and a.device == b.device
        and a.detach().numpy().tobytes() == b.detach().numpy().tobytes()
    )


def make_image(shape, rng, dtype=np.float64):
    """Band-limited random image with a unique correlation peak."""
    M, N = shape
    F = rng.normal(size=shape) + 1j * rng.normal(size=shape)
    fx = np.fft.fftfreq(M)[:, None]
    fy = np.fft.fftfreq(N)[None, :]
    F *= np.exp(-(fx**2 + fy**2) / (2 * 0.12**2))
    F[np.sqrt(fx**2 + fy**2) > 0.35] = 0
    im = np.real(np.fft.ifft2(F))
    im /= np.abs(im).max()
    return im.astype(dtype)


def fourier_shift(im, s):
    """Translate im by s (rows, cols) with the exact Fourier shift theorem."""
    M, N = im.shape
    # use integer-symmetric frequencies so that the result stays real
    kx = np.fft.fftfreq(M)[:, None]
    ky = np.fft.fftfreq(N)[None, :]
    F = np.fft.fft2(im)
    ramp = np.exp(-2j * np.pi * (kx * s[0] + ky * s[1]))
    if M % 2 == 0:
        ramp[M // 2, :] = np.real(ramp[M // 2, :])
    if N % 2 == 0:
        ramp[:, N // 2] = np.real(ramp[:, N // 2])
    return np.real(np.fft.ifft2(F * ramp))


def wrap(d, shape):
    d = np.asarray(d, dtype=float)
    sh = np.asarray(shape, dtype=float)
    return (d + 0.5 * sh) % sh - 0.5 * sh


def main():
    rng = np.random.default_rng(1234)
    shapes = [(16, 16), (17, 23), (32, 20), (15, 15)]
    ups = [1, 2, 3, 4, 8, 16, 64]
    n_cmp = 0

    for shape in shapes:
        ref = make_image(shape, rng)
        M, N = shape
        shift_list = [
            (0, 0),
            (1, 0),
            (0, -1),
            (3, -2),
            (-5, 4),
            (M // 2 - 1, -(N // 2) + 1),
            (M - 2, N - 3),  # beyond half the size: wraps
            (0.5, -0.25),
            (2.3, -1.7),
            (-3.37, 4.81),
            (M / 2 + 1.4, -N / 2 - 2.6),
        ]
        for s in shift_list:
            is_int = all(float(v).is_integer() for v in s)
            # `ref` is `im` translated by s  <=>  im is ref translated by -s
            if is_int:
                im = np.roll(ref, (-int(s[0]), -int(s[1])), axis=(0, 1))
            else:
                im = fourier_shift(ref, (-s[0], -s[1]))
            s_wrapped = wrap(s, shape)

            F_ref = np.fft.fft2(ref)
            F_im = np.fft.fft2(im)

            for up in ups:
                for max_shift in (None, 2.5, 6):
                    # ---- plain shifts, real-space input
                    a = ORIG["cross_correlation_shift"](
                        ref.copy(), im.copy(), upsample_factor=up, max_shift=max_shift
                    )
                    b = new.cross_correlation_shift(
                        ref.copy(), im.copy(), upsample_factor=up, max_shift=max_shift
                    )
                    assert same_np(a, b), ("shift differs", shape, s, up, max_shift, a, b)
                    n_cmp += 1

                    # ---- the property (only when the true shift is admitted by max_shift)
                    if max_shift is None or np.hypot(*s_wrapped) < max_shift - 1.5:
                        err = np.abs(wrap(np.asarray(b) - s_wrapped, shape))
                        if is_int:
                            assert err.max() < 1e-6, ("int shift", shape, s, up, b)
                        else:
                            tol = 0.5 if up <= 1 else max(1.0 / up, 0.05)
                            assert err.max() <= tol, ("subpixel", shape, s, up, b, err)

                    # ---- all fft_input / fft_output / return image combinations
                    for fft_input in (False, True):
                        for fft_output in (False, True):
                            args = (F_ref.copy(), F_im.copy()) if fft_input else (ref.copy(), im.copy())
                            a = ORIG["cross_correlation_shift"](
                                *args,
                                upsample_factor=up,
                                max_shift=max_shift,
                                return_shifted_image=True,
                                fft_input=fft_input,
                                fft_output=fft_output,
                            )
                            args = (F_ref.copy(), F_im.copy()) if fft_input else (ref.copy(), im.copy())
                            b = new.cross_correlation_shift(
                                *args,
                                upsample_factor=up,
                                max_shift=max_shift,
                                return_shifted_image=True,
                                fft_input=fft_input,
                                fft_output=fft_output,
                            )
                            assert same_np(a[0], b[0]), ("shift differs", shape, s, up)
                            assert same_np(a[1], b[1]), ("image differs", shape, s, up)
                            n_cmp += 1
                            if is_int and max_shift is None:
                                al = b[1] if not fft_output else np.real(np.fft.ifft2(b[1]))
                                assert np.abs(al - ref).max() < 1e-6, ("aligned", shape, s, up)

                # ---- swap negates / identical gives zero (numpy)
                if is_int:
                    fwd = new.cross_correlation_shift(ref, im, upsample_factor=up)
                    bwd = new.cross_correlation_shift(im, ref, upsample_factor=up)
                    both = wrap(np.asarray(fwd) + np.asarray(bwd), shape)
                    assert np.abs(both).max() < 1e-6, ("swap", shape, s, up, fwd, bwd)
                zero = new.cross_correlation_shift(ref, ref, upsample_factor=up)
                assert np.abs(zero).max() < 1e-6, ("zero", shape, up, zero)

                # ---- dft_upsample directly
                cc = F_ref * np.conj(F_im)
                for centre in ((0.0, 0.0), (float(s[0]) % M, float(s[1]) % N), (np.float64(1.25), 3)):
                    a = ORIG["dft_upsample"](cc.copy(), max(up, 2), centre)
                    b = new.dft_upsample(cc.copy(), max(up, 2), centre)
                    assert same_np(a, b), ("dft_upsample differs", shape, s, up, centre)
                    n_cmp += 1

            # ---- torch variants (float32 and float64 inputs)
            for tdtype in (torch.float32, torch.float64):
                t_ref = torch.tensor(ref, dtype=tdtype)
                t_im = torch.tensor(im, dtype=tdtype)
                G1 = torch.fft.fft2(t_ref)
                G2 = torch.fft.fft2(t_im)
                for up in ups:
                    a = ORIG["cross_correlation_shift_torch"](t_ref.clone(), t_im.clone(), up)
                    b = new.cross_correlation_shift_torch(t_ref.clone(), t_im.clone(), up)
                    assert same_t(a, b), ("torch shift differs", shape, s, up, a, b)
                    n_cmp += 1

                    a2 = ORIG["align_images_fourier_torch"](G1.clone(), G2.clone(), up)
                    b2 = new.align_images_fourier_torch(G1.clone(), G2.clone(), up)
                    assert same_t(a2, b2), ("torch align differs", shape, s, up, a2, b2)
                    n_cmp += 1

                    err = np.abs(wrap(b.numpy().astype(float) - s_wrapped, shape))
                    if is_int:
                        assert err.max() < 1e-3, ("torch int shift", shape, s, up, b)
                    else:
                        tol = 0.75 if up <= 2 else max(1.0 / up, 0.06)
                        assert err.max() <= tol, ("torch subpixel", shape, s, up, b, err)

                    if up > 2:
                        cc_t = G1 * G2.conj()
                        for start in (
                            torch.tensor([0.0, 0.0]),
                            torch.tensor([0.5, 1.5]),
                            torch.round(b2 * 2.0) / 2.0,
                        ):
                            a3 = ORIG["upsampled_correlation_torch"](cc_t.clone(), up, start.clone())
                            b3 = new.upsampled_correlation_torch(cc_t.clone(), up, start.clone())
                            assert same_t(a3, b3), ("torch upsampled differs", shape, s, up)
                            a4 = ORIG["dftUpsample_torch"](cc_t.clone(), up, start.clone())
                            b4 = new.dftUpsample_torch(cc_t.clone(), up, start.clone())
                            assert same_t(a4, b4), ("torch dftUpsample differs", shape, s, up)
                            n_cmp += 2

                # identical images -> zero, swap negates (torch)
                for up in ups:
                    z = new.cross_correlation_shift_torch(t_ref, t_ref, up)
                    assert float(z.abs().max()) < 1e-3, ("torch zero", shape, up, z)
                    if is_int:
                        f = new.cross_correlation_shift_torch(t_ref, t_im, up).numpy().astype(float)
                        g = new.cross_correlation_shift_torch(t_im, t_ref, up).numpy().astype(float)
                        assert np.abs(wrap(f + g, shape)).max() < 1e-3, ("torch swap", shape, s, up)

    # float32 numpy inputs and a degenerate flat correlation (parabola 0/0 -> nan) must also agree
    for shape in [(16, 16), (17, 23)]:
        ref32 = make_image(shape, rng, dtype=np.float32)
        im32 = np.roll(ref32, (2, -3), axis=(0, 1))
        for up in (1, 4, 16):
            a = ORIG["cross_correlation_shift"](ref32, im32, up, return_shifted_image=True)
            b = new.cross_correlation_shift(ref32, im32, up, return_shifted_image=True)
            assert same_np(a[0], b[0]) and same_np(a[1], b[1]), ("float32", shape, up)
            n_cmp += 1
    with np.errstate(all="ignore"):
        flat = np.ones((8, 8))
        for up in (1, 4):
            for ms in (None, 3):
                a = ORIG["cross_correlation_shift"](flat, flat, up, max_shift=ms)
                b = new.cross_correlation_shift(flat, flat, up, max_shift=ms)
                assert same_np(a, b), ("flat", up, ms, a, b)
                n_cmp += 1

    print(f"OK: {n_cmp} old-vs-new comparisons bit-identical; property assertions hold")


if __name__ == "__main__":
    main()
