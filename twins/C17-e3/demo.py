import math
import sys
from collections import deque

import numpy as np
import torch

from quantem.core.utils import imaging_utils as iu

TWO_PI = 2.0 * math.pi


# ----------------------------------------------------------------------------
# test-field / mask generators and the property oracle
# ----------------------------------------------------------------------------
def wrap(x):
    return (x + math.pi) % TWO_PI - math.pi


def grid(H, W):
    y, x = torch.meshgrid(
        torch.arange(H, dtype=torch.float64),
        torch.arange(W, dtype=torch.float64),
        indexing="ij",
    )
    return y, x


def max_neighbour_diff(f, periodic):
    if periodic:
        dy = (torch.roll(f, -1, 0) - f).abs().max()
        dx = (torch.roll(f, -1, 1) - f).abs().max()
    else:
        dy = (f[1:, :] - f[:-1, :]).abs().max() if f.shape[0] > 1 else torch.tensor(0.0)
        dx = (f[:, 1:] - f[:, :-1]).abs().max() if f.shape[1] > 1 else torch.tensor(0.0)
    return float(max(dy, dx))


def rescale(f, periodic, target=2.6):
    """Scale so that the largest neighbour difference equals `target` (< pi)."""
    m = max_neighbour_diff(f, periodic)
    if m > 0:
        f = f * (target / m)
    return f.to(torch.float32)


def make_fields(H, W, periodic, rng):
    y, x = grid(H, W)
    out = {}
    if not periodic:
        out["ramp"] = rescale(0.9 * y - 0.37 * x, False)
        out["quadratic"] = rescale((y - H / 2.3) ** 2 + 0.6 * (x - W / 1.7) ** 2 + 0.3 * x * y, False)
        out["gauss"] = rescale(
            torch.exp(-((y - H / 2) ** 2 / (0.18 * H * H + 1) + (x - W / 3) ** 2 / (0.15 * W * W + 1))),
            False,
        )
    # band-limited random field built from integer frequencies: periodic by construction
    f = torch.zeros(H, W, dtype=torch.float64)
    for _ in range(5):
        m, n = int(rng.integers(-2, 3)), int(rng.integers(-2, 3))
        a, p = rng.normal(), rng.uniform(0, TWO_PI)
        f = f + a * torch.cos(TWO_PI * (m * y / H + n * x / W) + p)
    f = f + 1.5 * torch.sin(TWO_PI * y / H + 0.3) + 1.1 * torch.cos(TWO_PI * x / W)
    out["bandlimited"] = rescale(f, periodic)
    out["sincos"] = rescale(
        3.0 * torch.sin(TWO_PI * y / H) * torch.cos(TWO_PI * x / W) + 2.0 * torch.cos(2 * TWO_PI * y / H + 0.7),
        periodic,
    )
    return out


def make_masks(H, W, rng):
    y, x = grid(H, W)
    r = torch.sqrt((y - (H - 1) / 2) ** 2 + (x - (W - 1) / 2) ** 2)
    R = min(H, W) / 2
    masks = {"none": None}
    masks["disk"] = r < 0.9 * R
    masks["annulus"] = (r < 0.95 * R) & (r > 0.35 * R)
    two = torch.zeros(H, W, dtype=torch.bool)
    two[: H // 2 - 1, : W // 2] = True
    two[H // 2 + 1 :, W // 3 :] = True
    two[1:3, 1:3] = False  # a hole
    masks["two_blobs_hole"] = two
    masks["random80"] = torch.from_numpy(rng.random((H, W)) < 0.8)
    edge = torch.zeros(H, W, dtype=torch.bool)  # touches all four borders
    edge[:2, :] = True
    edge[-2:, :] = True
    edge[:, :2] = True
    edge[:, -1:] = True
    edge[H // 2, :] = True
    masks["frame"] = edge
    return masks


def components(mask, H, W, periodic):
    """4-connected components of `mask` (all True when None); returns list of index arrays."""
    m = np.ones((H, W), bool) if mask is None else mask.numpy().astype(bool)
    seen = np.zeros((H, W), bool)
    comps = []
    for sy in range(H):
        for sx in range(W):
            if not m[sy, sx] or seen[sy, sx]:
                continue
            q = deque([(sy, sx)])
            seen[sy, sx] = True
            cur = []
            while q:
                cy, cx = q.popleft()
                cur.append(cy * W + cx)
                for dy, dx in ((1, 0), (-1, 0), (0, 1), (0, -1)):
                    ny, nx = cy + dy, cx + dx
                    if periodic:
                        ny %= H
                        nx %= W
                    elif not (0 <= ny < H and 0 <= nx < W):
                        continue
                    if m[ny, nx] and not seen[ny, nx]:
                        seen[ny, nx] = True
                        q.append((ny, nx))
            comps.append(np.array(cur))
    return comps


def check_property(field, phi_in, out, mask, periodic, tag, tol=2e-3):
    """out == field + const on each component; out - phi_in == 2*pi*k + one constant everywhere."""
    H, W = field.shape
    assert out.shape == field.shape, tag
    assert out.dtype == phi_in.dtype, tag
    d = (out.double() - field.double()).flatten().numpy()
    for comp in components(mask, H, W, periodic):
        spread = d[comp].max() - d[comp].min()
        assert spread < tol, f"{tag}: not constant on a component (spread {spread})"
    r = ((out.double() - phi_in.double()) / TWO_PI).flatten().numpy()
    r = r - r[0]
    frac = np.abs(r - np.round(r)).max()
    assert frac < tol, f"{tag}: not 2*pi multiples plus one constant ({frac})"


def same_tensor(a, b):
    return a.dtype == b.dtype and a.shape == b.shape and torch.equal(a, b)


from quantem.core.utils.imaging_utils import unwrap_phase_2d_torch  # noqa: E402
from quantem.diffractive_imaging import direct_ptycho_utils as dpu  # noqa: E402


# ----------------------------------------------------------------------------
# verbatim copy of the ORIGINAL unwrap_bf_overlap_phase_torch
# ----------------------------------------------------------------------------
def unwrap_bf_overlap_phase_torch_ORIG(
    complex_data_bf,  # (N_k,)
    mask_bf,  # (N_k,)
    bf_mask,  # (N_kx, N_ky)
    *,
    method="reliability-sorting",
    two_pass=True,
    **unwrap_kwargs,
):
    phase_bf = torch.angle(complex_data_bf)
    phase_grid = torch.zeros_like(bf_mask, dtype=torch.float32)
    mask_grid = torch.zeros_like(bf_mask, dtype=torch.bool)

    phase_grid[bf_mask] = phase_bf
    mask_grid[bf_mask] = mask_bf

    if mask_grid.any():
        if phase_grid.max() - phase_grid.min() > math.pi:
            phase_grid = unwrap_phase_2d_torch(
                phase_grid * mask_grid,
                method=method,
                mask=mask_grid,
                **unwrap_kwargs,
            )
            phase_grid = phase_grid * mask_grid

            if two_pass:
                phase_grid = unwrap_phase_2d_torch(
                    phase_grid,
                    method=method,
                    mask=mask_grid,
                    **unwrap_kwargs,
                )
                phase_grid = phase_grid * mask_grid

    return phase_grid[bf_mask]


def outcome(fn, *args, **kwargs):
    try:
        return "ok", fn(*args, **kwargs)
    except Exception as e:  # noqa: BLE001
        return "err", (type(e), str(e))


def run_both(data, mask_bf, bf_mask, tag, **kw):
    """Old and new on identical inputs: same value (bitwise, NaNs included) or same exception."""
    d0, m0, b0 = data.clone(), mask_bf.clone(), bf_mask.clone()
    k_old, old = outcome(unwrap_bf_overlap_phase_torch_ORIG, data, mask_bf, bf_mask, **kw)
    k_new, new = outcome(dpu.unwrap_bf_overlap_phase_torch, data, mask_bf, bf_mask, **kw)
    assert k_old == k_new, f"{tag}: {k_old} vs {k_new} ({old!r} / {new!r})"
    if k_old == "err":
        assert old == new, f"{tag}: {old} vs {new}"
        return None
    assert old.dtype == new.dtype and old.shape == new.shape, tag
    assert torch.equal(torch.nan_to_num(old, nan=12345.0), torch.nan_to_num(new, nan=12345.0)), (
        f"{tag}: differs from the original"
    )
    assert torch.equal(torch.isnan(old), torch.isnan(new)), tag
    assert torch.equal(torch.signbit(old), torch.signbit(new)), tag
    # inputs are not modified
    assert torch.equal(data, d0) or bool(torch.isnan(torch.view_as_real(d0)).any()), tag
    assert torch.equal(mask_bf, m0) and torch.equal(bf_mask, b0), tag
    return new


def check_on_selection(field, wrapped, full, sel_grid, periodic, tag, tol=2e-3):
    """On the valid pixels: result == field + const per component, == wrapped + 2*pi*k + one const."""
    H, W = field.shape
    d = (full.double() - field.double()).flatten().numpy()
    for comp in components(sel_grid, H, W, periodic):
        spread = d[comp].max() - d[comp].min()
        assert spread < tol, f"{tag}: not constant on a component (spread {spread})"
    r = ((full.double() - wrapped.double()) / TWO_PI)[sel_grid].numpy()
    r = r - r[0]
    frac = np.abs(r - np.round(r)).max()
    assert frac < tol, f"{tag}: not 2*pi multiples plus one constant ({frac})"


def disk(H, W, cy, cx, R):
    y, x = grid(H, W)
    return ((y - cy) ** 2 + (x - cx) ** 2) < R * R


def overlap_masks(H, W, bf_mask, rng):
    """Valid-pixel selections (as (H, W) grids) typical of BF-disk overlaps, plus odd ones."""
    cy, cx = (H - 1) / 2, (W - 1) / 2
    R = min(H, W) / 2 - 1.6
    sel = {
        "all": torch.ones(H, W, dtype=torch.bool),
        "none": torch.zeros(H, W, dtype=torch.bool),
        "lens": disk(H, W, cy + 0.45 * R, cx - 0.3 * R, R),  # double overlap
        "two_lobes": disk(H, W, cy, cx - 0.75 * R, 0.55 * R) | disk(H, W, cy, cx + 0.75 * R, 0.55 * R),
        "ring": ~disk(H, W, cy, cx, 0.4 * R),
        "random85": torch.from_numpy(rng.random((H, W)) < 0.85),
        "single_pixel": torch.zeros(H, W, dtype=torch.bool),
    }
    sel["single_pixel"][int(cy), int(cx)] = True
    return {k: (v & bf_mask) for k, v in sel.items()}


def main():
    rng = np.random.default_rng(170017)
    n_cases = 0

    for H, W in [(13, 17), (16, 11)]:
        cy, cx = (H - 1) / 2, (W - 1) / 2
        bf_masks = {
            "inner": disk(H, W, cy, cx, min(H, W) / 2 - 1.6),  # stays clear of the border
            "touching": disk(H, W, cy, cx, min(H, W) / 2 + 0.6),  # touches the border
        }
        for bname, bf_mask in bf_masks.items():
            fields = make_fields(H, W, False, rng)
            for fname in ("ramp", "quadratic", "bandlimited"):
                field = fields[fname]
                amp = torch.from_numpy(rng.uniform(0.2, 3.0, (H, W))).float()
                data = torch.polar(amp, field)[bf_mask]  # complex64, (N_k,)
                truth = field[bf_mask]
                for sname, sel_grid in overlap_masks(H, W, bf_mask, rng).items():
                    mask_bf = sel_grid[bf_mask]
                    for kw in (
                        {},
                        {"two_pass": False},
                        {"wrap_around": False},
                        {"wrap_around": False, "two_pass": False},
                        {"wrap_around": True, "two_pass": 1},
                    ):
                        tag = f"{H}x{W} bf={bname} {fname} sel={sname} {kw}"
                        res = run_both(data, mask_bf, bf_mask, tag, **kw)
                        n_cases += 1
                        assert res is not None and res.shape == truth.shape, tag
                        assert res.dtype == torch.float32, tag
                        if not bool(mask_bf.any()):
                            # nothing valid: the raw angles come back
                            assert torch.equal(res, torch.angle(data)), tag
                            continue
                        periodic = kw.get("wrap_around", True)
                        if periodic and bname == "touching":
                            continue  # wrap-around edges on a non-periodic field: no exactness claim
                        full = torch.zeros(H, W)
                        full[bf_mask] = res
                        wrapped = torch.zeros(H, W)
                        wrapped[bf_mask] = torch.angle(data)
                        if float(wrapped.max() - wrapped.min()) > math.pi:
                            # pixels outside the selection are zeroed
                            assert bool((full[~sel_grid] == 0).all()), tag
                            # check the property on the valid pixels only
                            check_on_selection(field, wrapped, full, sel_grid, periodic, tag)
                        else:
                            assert torch.equal(res, torch.angle(data)), tag

            # the Poisson route (approximate by construction): only old == new, and same failures
            field = fields["quadratic"]
            data = torch.polar(torch.ones(H, W), field)[bf_mask]
            mask_bf = overlap_masks(H, W, bf_mask, rng)["lens"][bf_mask]
            for kw in (
                {"method": "poisson"},
                {"method": "poisson", "two_pass": False},
                {"method": "poisson", "regularization_lambda": 1e-3},
                {"method": "poisson", "wrap_around": False},  # NotImplementedError in both
                {"method": "bogus"},  # ValueError in both
                {"not_a_kwarg": 3},  # TypeError in both
            ):
                run_both(data, mask_bf, bf_mask, f"{H}x{W} bf={bname} {kw}", **kw)
                n_cases += 1
            # bad method only matters when unwrapping is attempted
            small = torch.polar(torch.ones(H, W), 0.01 * field / field.abs().max())[bf_mask]
            r = run_both(small, mask_bf, bf_mask, "small-range bogus", method="bogus")
            assert r is not None and torch.equal(r, torch.angle(small))
            r = run_both(data, torch.zeros_like(mask_bf), bf_mask, "no-valid bogus", method="bogus")
            assert r is not None and torch.equal(r, torch.angle(data))

    # odd inputs: NaNs in the data, empty BF mask, integer selection, length mismatch
    H, W = 11, 13
    bf_mask = disk(H, W, 5, 6, 4.2)
    field = make_fields(H, W, False, rng)["ramp"]
    data = torch.polar(torch.ones(H, W), field)[bf_mask]
    mask_bf = torch.ones(int(bf_mask.sum()), dtype=torch.bool)
    nan_data = data.clone()
    nan_data[3] = complex(float("nan"), 0.0)
    run_both(nan_data, mask_bf, bf_mask, "nan data")
    nan_sel = mask_bf.clone()
    nan_sel[3] = False
    run_both(nan_data, nan_sel, bf_mask, "nan data, deselected")
    empty_bf = torch.zeros(H, W, dtype=torch.bool)
    r = run_both(data[:0], mask_bf[:0], empty_bf, "empty bf mask")
    assert r is not None and r.numel() == 0
    r = run_both(data[:0], mask_bf[:0], torch.zeros(0, 5, dtype=torch.bool), "empty grid")
    assert r is not None and r.numel() == 0
    run_both(data, mask_bf.to(torch.int64), bf_mask, "int selection")
    run_both(data, mask_bf.float(), bf_mask, "float selection")
    run_both(data[:-1], mask_bf, bf_mask, "short data")
    run_both(data, mask_bf[:-1], bf_mask, "short selection")
    run_both(data.to(torch.complex128), mask_bf, bf_mask, "complex128 data")
    run_both(field[bf_mask], mask_bf, bf_mask, "real data")

    print(f"PASS ({n_cases} cases)")


if __name__ == "__main__":
    main()
