"""Demo for C20 / patch 1: the shared "array + clip to [0,1]" entry step of the
six stretch classes.

Compares the stretches of the installed tree against verbatim copies of the
ORIGINAL classes (same values bit for bit, same dtype, same aliasing for
copy=False, same exceptions) and asserts the property: every stretch maps
[0, 1] monotonically onto [0, 1], NaNs stay NaN (masked by CustomNormalization)
and stretch o inverse is the identity on [0, 1].
"""

import itertools
import warnings
from dataclasses import dataclass

import numpy as np
from numpy.typing import NDArray

import quantem.core.visualization.custom_normalizations as cn

warnings.filterwarnings("ignore")


# --------------------------------------------------------------------------
# verbatim copies of the ORIGINAL stretch classes (only the class names carry
# a leading "O" so that the inverse properties stay within the original set)
# --------------------------------------------------------------------------
@dataclass
class OLinearStretch:
    slope: float = 1.0
    intercept: float = 0.0

    def __call__(self, values: NDArray, copy: bool = True) -> NDArray:
        if self.slope == 1.0 and self.intercept == 0.0:
            return values

        values = np.array(values, copy=copy)
        np.clip(values, 0.0, 1.0, out=values)
        if self.slope != 1.0:
            np.multiply(values, self.slope, out=values)
        if self.intercept != 0.0:
            np.add(values, self.intercept, out=values)
        return values

    @property
    def inverse(self) -> "OLinearStretch":
        return OLinearStretch(1 / self.slope, -self.intercept / self.slope)


@dataclass
class OPowerLawStretch:
    power: float = 1.0

    def __post_init__(self) -> None:
        if self.power <= 0.0:
            raise ValueError("power must be > 0")

    def __call__(self, values: NDArray, copy: bool = True) -> NDArray:
        if self.power == 1.0:
            return values

        values = np.array(values, copy=copy)
        np.clip(values, 0.0, 1.0, out=values)
        np.power(values, self.power, out=values)
        return values

    @property
    def inverse(self) -> "OPowerLawStretch":
        return OPowerLawStretch(1.0 / self.power)


@dataclass
class OLogarithmicStretch:
    a: float = 1000.0

    def __post_init__(self) -> None:
        if self.a <= 0:
            raise ValueError("a must be > 0")

    def __call__(self, values: NDArray, copy: bool = True) -> NDArray:
        values = np.array(values, copy=copy)
        np.clip(values, 0.0, 1.0, out=values)
        np.multiply(values, self.a, out=values)
        np.add(values, 1.0, out=values)
        np.log(values, out=values)
        np.true_divide(values, np.log(self.a + 1.0), out=values)
        return values

    @property
    def inverse(self) -> "OInverseLogarithmicStretch":
        return OInverseLogarithmicStretch(self.a)


@dataclass
class OInverseLogarithmicStretch:
    a: float = 1000.0

    def __post_init__(self) -> None:
        if self.a <= 0:
            raise ValueError("a must be > 0")

    def __call__(self, values: NDArray, copy: bool = True) -> NDArray:
        values = np.array(values, copy=copy)
        np.clip(values, 0.0, 1.0, out=values)
        np.multiply(values, np.log(self.a + 1.0), out=values)
        np.exp(values, out=values)
        np.subtract(values, 1.0, out=values)
        np.true_divide(values, self.a, out=values)
        return values

    @property
    def inverse(self) -> "OLogarithmicStretch":
        return OLogarithmicStretch(self.a)


@dataclass
class OInverseHyperbolicSineStretch:
    a: float = 0.1

    def __post_init__(self) -> None:
        if self.a <= 0:
            raise ValueError("a must be > 0")

    def __call__(self, values: NDArray, copy: bool = True) -> NDArray:
        values = np.array(values, copy=copy)
        np.clip(values, 0.0, 1.0, out=values)
        # map to [-1,1]
        np.multiply(values, 2.0, out=values)
        np.subtract(values, 1.0, out=values)

        np.true_divide(values, self.a, out=values)
        np.arcsinh(values, out=values)

        # map from [-1,1]
        np.true_divide(values, np.arcsinh(1.0 / self.a) * 2.0, out=values)
        np.add(values, 0.5, out=values)
        return values

    @property
    def inverse(self) -> "OHyperbolicSineStretch":
        return OHyperbolicSineStretch(1.0 / np.arcsinh(1.0 / self.a))


@dataclass
class OHyperbolicSineStretch:
    a: float = 1.0 / 3.0

    def __post_init__(self) -> None:
        if self.a <= 0:
            raise ValueError("a must be > 0")

    def __call__(self, values: NDArray, copy: bool = True) -> NDArray:
        values = np.array(values, copy=copy)
        np.clip(values, 0.0, 1.0, out=values)

        # map to [-1,1]
        np.subtract(values, 0.5, out=values)
        np.multiply(values, 2.0, out=values)

        np.true_divide(values, self.a, out=values)
        np.sinh(values, out=values)

        # map from [-1,1]
        np.true_divide(values, np.sinh(1.0 / self.a) * 2.0, out=values)
        np.add(values, 0.5, out=values)
        return values

    @property
    def inverse(self) -> "OInverseHyperbolicSineStretch":
        return OInverseHyperbolicSineStretch(1.0 / np.sinh(1.0 / self.a))


# --------------------------------------------------------------------------
PAIRS = []  # (label, new stretch, original stretch)
for slope, intercept in [(1.0, 0.0), (2.0, 0.0), (1.0, 0.25), (0.5, 0.5), (3.0, -1.0), (-1.0, 1.0)]:
    PAIRS.append(
        (
            f"linear({slope},{intercept})",
            cn.LinearStretch(slope, intercept),
            OLinearStretch(slope, intercept),
        )
    )
for power in [1.0, 0.1, 0.5, 2.0, 3.7, 2, np.float32(1.5)]:
    PAIRS.append((f"power({power})", cn.PowerLawStretch(power), OPowerLawStretch(power)))
for a in [1e-3, 0.1, 1.0, 7, 1000.0, 1e6, np.float32(10.0), np.array(3.0)]:
    PAIRS.append((f"log({a})", cn.LogarithmicStretch(a), OLogarithmicStretch(a)))
    PAIRS.append((f"invlog({a})", cn.InverseLogarithmicStretch(a), OInverseLogarithmicStretch(a)))
for a in [1e-3, 0.02, 0.1, 1.0 / 3.0, 1.0, 5, 50.0, np.float32(0.25)]:
    PAIRS.append(
        (f"asinh({a})", cn.InverseHyperbolicSineStretch(a), OInverseHyperbolicSineStretch(a))
    )
    if float(a) >= 0.02:  # sinh(1/a) overflows below that, in both versions alike
        PAIRS.append((f"sinh({a})", cn.HyperbolicSineStretch(a), OHyperbolicSineStretch(a)))


def make_inputs():
    rng = np.random.default_rng(20)
    out = []
    out.append(("lin11", np.linspace(0.0, 1.0, 11)))
    out.append(("wide", np.linspace(-0.7, 1.9, 23)))
    out.append(("odd2d", rng.uniform(-0.3, 1.3, size=(3, 5))))
    out.append(("odd3d", rng.uniform(0.0, 1.0, size=(7, 1, 2))))
    out.append(("f32", rng.uniform(-0.3, 1.3, size=(4, 3)).astype(np.float32)))
    out.append(("f16", rng.uniform(0.0, 1.0, size=(5,)).astype(np.float16)))
    out.append(("naninf", np.array([[np.nan, 0.2, np.inf], [-np.inf, 0.9, 0.0], [1.0, -0.0, 0.5]])))
    out.append(("allnan", np.full((2, 3), np.nan)))
    out.append(("empty", np.zeros((0,), dtype=np.float64)))
    out.append(("empty2d", np.zeros((3, 0), dtype=np.float32)))
    out.append(("zerod", np.array(0.3)))
    out.append(("strided", np.linspace(-1.0, 2.0, 40).reshape(5, 8)[::2, 1::3]))
    out.append(("fortran", np.asfortranarray(rng.uniform(0, 1, size=(4, 6)))))
    out.append(("int", np.arange(-2, 4)))  # in-place float ops on ints: same error either way
    out.append(("uint8", np.arange(0, 3, dtype=np.uint8)))
    out.append(("bool", np.array([True, False, True])))
    out.append(("list", [0.1, 0.5, 2.0, -1.0]))
    out.append(("nested", [[0.1, 0.5], [2.0, float("nan")]]))
    out.append(("pyfloat", 0.75))
    out.append(("npscalar", np.float64(0.75)))
    out.append(("masked", np.ma.masked_invalid(np.array([0.1, np.nan, 0.8, 1.5]))))
    out.append(("complex", np.array([0.5 + 0.1j, 2.0])))
    out.append(("string", "abc"))
    out.append(("none", None))
    return out


def fresh(x):
    """Independent copy of an input so that in-place calls cannot interfere."""
    if isinstance(x, np.ndarray):
        return x.copy(order="K") if not isinstance(x, np.ma.MaskedArray) else x.copy()
    if isinstance(x, list):
        import copy as _copy

        return _copy.deepcopy(x)
    return x


def run(fn, x, copy):
    try:
        return ("ok", fn(x, copy=copy))
    except Exception as exc:  # noqa: BLE001
        return ("err", type(exc).__name__, str(exc))


def same_result(a, b):
    if type(a) is not type(b):
        return False
    if isinstance(a, np.ndarray):
        if a.dtype != b.dtype or a.shape != b.shape:
            return False
        if a.dtype.kind in "fc":
            return bool(np.array_equal(np.asarray(a), np.asarray(b), equal_nan=True)) and bool(
                np.array_equal(np.signbit(np.asarray(a).real), np.signbit(np.asarray(b).real))
            )
        return bool(np.array_equal(np.asarray(a), np.asarray(b)))
    if isinstance(a, list):
        return a == b or repr(a) == repr(b)
    if isinstance(a, float) or isinstance(a, np.floating):
        return (a == b) or (a != a and b != b)
    return a is b or a == b


n_cmp = 0
n_err = 0
for (label, new, old), (iname, x), copy in itertools.product(PAIRS, make_inputs(), [True, False]):
    x_new, x_old = fresh(x), fresh(x)
    r_new = run(new, x_new, copy)
    r_old = run(old, x_old, copy)
    where = f"{label} on {iname} copy={copy}"
    assert r_new[0] == r_old[0], (where, r_new, r_old)
    if r_new[0] == "err":
        assert r_new[1:] == r_old[1:], (where, r_new, r_old)
        n_err += 1
    else:
        assert same_result(r_new[1], r_old[1]), (where, r_new, r_old)
        # aliasing contract: copy=False works on the caller's buffer, copy=True never does
        assert (r_new[1] is x_new) == (r_old[1] is x_old), where
        if isinstance(x_new, np.ndarray) and isinstance(r_new[1], np.ndarray):
            assert np.shares_memory(r_new[1], x_new) == np.shares_memory(r_old[1], x_old), where
    # whatever happened (also after an exception half-way) the inputs were left in the same state
    if isinstance(x_new, np.ndarray):
        assert same_result(x_new, x_old), ("input state", where)
        if copy and not (r_new[0] == "ok" and r_new[1] is x_new):
            assert same_result(x_new, fresh(x)), ("copy=True must not touch the input", where)
    n_cmp += 1

# --------------------------------------------------------------------------
# the property itself, on the installed tree
# --------------------------------------------------------------------------
grid = np.concatenate(
    [np.linspace(0.0, 1.0, 257), [1e-12, 1e-6, 1 - 1e-9, 0.5], np.random.default_rng(1).uniform(0, 1, 64)]
)
grid.sort()
n_prop = 0
for label, new, _ in PAIRS:
    if label.startswith("linear"):
        continue  # a general affine stretch is not a map onto [0, 1]; checked against the original above
    if isinstance(getattr(new, "a", None), np.float32) or isinstance(
        getattr(new, "power", None), np.float32
    ):
        continue  # single-precision parameters only give single-precision end points (old == new above)
    y = new(grid)
    identity_shortcut = label.startswith("power(1.0")  # power == 1 hands the input straight back
    assert (y is grid) == identity_shortcut, label
    assert y.shape == grid.shape and y.dtype == np.float64, label
    assert np.all(np.isfinite(y)), label
    assert y.min() >= -1e-12 and y.max() <= 1.0 + 1e-12, (label, y.min(), y.max())
    assert abs(y[0]) <= 1e-12 and abs(y[-1] - 1.0) <= 1e-12, (label, y[0], y[-1])
    assert np.all(np.diff(y) >= -1e-9), (label, np.diff(y).min())
    # out-of-range input is clipped first, NaN stays NaN
    z = new(np.array([-3.0, np.nan, 4.0, np.inf, -np.inf]))
    assert np.isnan(z[1]), (label, z)
    if not identity_shortcut:  # (the identity shortcut leaves clipping to the interval step)
        assert abs(z[0]) <= 1e-12 and abs(z[2] - 1) <= 1e-12, (label, z)
        assert abs(z[3] - 1) <= 1e-12 and abs(z[4]) <= 1e-12, (label, z)
    # stretch o inverse and inverse o stretch are the identity on [0, 1]
    inv = new.inverse
    a = float(np.asarray(getattr(new, "a", 1.0)))
    p = float(np.asarray(getattr(new, "power", 1.0)))
    well_conditioned = (1e-2 <= a <= 1e3) and (0.4 <= p <= 4.0)
    if label.startswith("sinh"):  # sinh(1/a) spans 1e21 for a = 0.02: round trip loses digits
        well_conditioned = a >= 0.1
    tol = 1e-7 if well_conditioned else 1e-3
    back = new(inv(grid))
    assert np.allclose(back, grid, atol=tol, rtol=0), (label, np.abs(back - grid).max())
    if well_conditioned:
        forth = inv(new(grid))
        assert np.allclose(forth, grid, atol=1e-6, rtol=0), (label, np.abs(forth - grid).max())
    n_prop += 1

# end-to-end through CustomNormalization (copy=False path; NaNs come back masked)
rng = np.random.default_rng(3)
data = rng.normal(size=(5, 7)) * 20
data[1, 2] = np.nan
data[4, 6] = np.inf
data[0, 0] = -np.inf
for interval_type, kw in [
    ("quantile", dict(lower_quantile=0.1, upper_quantile=0.85)),
    ("manual", dict()),
    ("manual", dict(vmin=-5.0, vmax=11.0)),
    ("centered", dict(vcenter=2.0)),
    ("centered", dict(vcenter=-1.0, half_range=7.5)),
]:
    for stretch_type, skw in [
        ("linear", {}),
        ("power", dict(power=0.5)),
        ("power", dict(power=3.0)),
        ("logarithmic", dict(logarithmic_index=10.0)),
        ("logarithmic", {}),
        ("asinh", dict(asinh_linear_range=0.03)),
        ("asinh", {}),
    ]:
        norm = cn.CustomNormalization(interval_type, stretch_type, data=data, **kw, **skw)
        keep = data.copy()
        out = norm(data)
        assert np.array_equal(data, keep, equal_nan=True), "input must not be modified"
        assert isinstance(out, np.ma.MaskedArray) and out.shape == data.shape
        assert bool(out.mask[1, 2]) and np.isnan(out.data[1, 2])
        fin = np.isfinite(data)
        vals = np.asarray(out.data)[fin]
        assert vals.min() >= -1e-12 and vals.max() <= 1 + 1e-12
        order = np.argsort(data[fin], kind="stable")
        assert np.all(np.diff(vals[order]) >= -1e-9)
        lim = norm(np.array([norm.vmin, norm.vmax]))
        assert abs(lim[0]) <= 1e-12 and abs(lim[1] - 1) <= 1e-12, (interval_type, stretch_type, lim)
        assert abs(out.data[4, 6] - 1) <= 1e-12 and abs(out.data[0, 0]) <= 1e-12

print(f"compared {n_cmp} (stretch, input, copy) cases, {n_err} of them raising identically;")
print(f"property checked for {n_prop} stretches and 35 normalisation configurations")
print("PASS")
