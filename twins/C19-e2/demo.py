"""C19 / change 2: ``update`` (the priority-aware recursive merge) restructured: the
"replace by an empty dict" test uses ``dict.get`` and the 'new-defaults' overwrite rule
lives in a small predicate ``_holds_default``.

Checks
 1. the configuration store is a last-writer-wins nested map (random histories of
    set / update_defaults / refresh / get on the live global store, compared with a
    flat dictionary reference model; refresh restores exactly the accumulated defaults,
    nested updates keep sibling keys);
 2. ``update`` / ``merge`` / ``update_defaults`` / ``refresh`` of the installed tree give
    exactly the results of a verbatim copy of the ORIGINAL ``update`` (same dictionaries
    incl. key spelling and order, same exceptions, same partially updated state after an
    exception) for all three priorities, odd ``defaults`` and odd value types.
"""

import collections
import collections.abc
import copy
import os
import random
import tempfile
import warnings

import numpy as np

_tmp = tempfile.TemporaryDirectory()
os.environ["QUANTEM_CONFIG"] = _tmp.name  # no user configuration is picked up

from quantem.core import config as cfg  # noqa: E402

# --------------------------------------------------------------------------------------
# verbatim copy of the original function and of its (unchanged) callers, executed in a
# copy of the module namespace so that the callers use the ORIGINAL update
# --------------------------------------------------------------------------------------
ORIGINAL = '''
def update(
    old: dict,
    new: Mapping,
    priority: Literal["old", "new", "new-defaults"] = "new",
    defaults: Mapping | None = None,
) -> dict:
    for k, v in new.items():
        k, v = check_key_val(k, v)
        k = canonical_name(k, old)

        if isinstance(v, Mapping):
            if k not in old or old[k] is None or not isinstance(old[k], dict):
                old[k] = {}
            update(
                old[k],
                v,
                priority=priority,
                defaults=defaults.get(k) if defaults else None,
            )
        else:
            if (
                priority == "new"
                or k not in old
                or (
                    priority == "new-defaults"
                    and defaults
                    and k in defaults
                    and defaults[k] == old[k]
                )
            ):
                old[k] = v

    return old


def merge(*dicts: Mapping) -> dict:
    result: dict = {}
    for d in dicts:
        update(result, d)
    return result


def update_defaults(new: dict, config: dict = config, defaults: list[Mapping] = defaults) -> None:
    for key, value in new.items():
        key, nval = check_key_val(key, value)
        new[key] = nval

    current_defaults = merge(*defaults)
    defaults.append(new)
    update(config, new, priority="new-defaults", defaults=current_defaults)


def refresh(config: dict = config, defaults: list[Mapping] = defaults, **kwargs) -> None:
    config.clear()

    for d in defaults:
        update(config, d, priority="new")

    update(config, collect(**kwargs))
'''
_ns = dict(vars(cfg))
exec(ORIGINAL, _ns)
old_update, old_merge = _ns["update"], _ns["merge"]
old_update_defaults, old_refresh = _ns["update_defaults"], _ns["refresh"]


# --------------------------------------------------------------------------------------
# helpers
# --------------------------------------------------------------------------------------
def canon(path):
    return tuple(p.replace("-", "_") for p in path)


def flatten(d, prefix=()):
    out = {}
    for k, v in d.items():
        if isinstance(v, dict):
            out.update(flatten(v, prefix + (k,)))
        else:
            p = canon(prefix + (k,))
            assert p not in out, f"two spellings of {p} stored side by side"
            out[p] = v
    return out


def outcome(fn):
    try:
        return ("ok", fn())
    except Exception as e:  # noqa: BLE001
        return ("exc", type(e).__name__, str(e))


# --------------------------------------------------------------------------------------
# part 2: old update == new update
# --------------------------------------------------------------------------------------
NAMES = ["a", "b-c", "b_c", "x_y", "x-y", "d_e", "d-e", "f", "g-h", "g_h", "z", "new-key", "new_key"]


class ReadOnlyMap(collections.abc.Mapping):
    """a Mapping that is not a dict"""

    def __init__(self, d):
        self._d = dict(d)

    def __getitem__(self, k):
        return self._d[k]

    def __iter__(self):
        return iter(self._d)

    def __len__(self):
        return len(self._d)

    def __repr__(self):
        return f"ReadOnlyMap({self._d!r})"

    def __eq__(self, other):
        return isinstance(other, ReadOnlyMap) and self._d == other._d

    __hash__ = None


def random_tree(rng, depth=0, odd=False):
    out = {}
    for _ in range(rng.randint(0, 4)):
        k = rng.choice(NAMES)
        r = rng.random()
        if r < 0.35 and depth < 3:
            v = random_tree(rng, depth + 1, odd)
            if odd and rng.random() < 0.2:
                v = rng.choice([ReadOnlyMap(v), collections.OrderedDict(v)])
        elif r < 0.45:
            v = None
        elif r < 0.55:
            v = [rng.randint(0, 2)]
        elif odd and r < 0.60:
            v = np.arange(rng.randint(0, 3))  # ambiguous truth value when compared
        elif odd and r < 0.63:
            v = float("nan")
        else:
            v = rng.randint(0, 3)  # few distinct values so that "equals the default" happens
        out[k] = v
    return out


def same(a, b):
    return repr(a) == repr(b)


def compare_update(old, new, priority, defaults):
    o1, o2 = copy.deepcopy(old), copy.deepcopy(old)
    n1, n2 = copy.deepcopy(new), copy.deepcopy(new)
    r1 = outcome(lambda: old_update(o1, n1, priority=priority, defaults=copy.deepcopy(defaults)))
    r2 = outcome(lambda: cfg.update(o2, n2, priority=priority, defaults=copy.deepcopy(defaults)))
    assert r1[0] == r2[0], (old, new, priority, defaults, r1, r2)
    if r1[0] == "ok":
        assert r1[1] is o1 and r2[1] is o2  # in place, returns old
    else:
        assert r1 == r2, (r1, r2)
    assert same(o1, o2), (old, new, priority, defaults, o1, o2)
    assert same(n1, n2) and same(n1, new)  # the source is never modified
    return r1[0]


def part2():
    rng = random.Random(1902)
    n = exc = 0
    for i in range(4000):
        odd = i % 3 == 0
        old = random_tree(rng, odd=odd)
        new = random_tree(rng, odd=odd)
        if rng.random() < 0.1:
            new["device"] = rng.choice(["cpu", "CPU", "tpu", -1, "cuda:99", 1.5])
        if odd and rng.random() < 0.2:
            old = collections.defaultdict(list, old)
        r = rng.random()
        if r < 0.2:
            defaults = None
        elif r < 0.3:
            defaults = {}
        elif r < 0.6:
            defaults = copy.deepcopy(old)  # everything still holds its default
        elif r < 0.8:
            defaults = random_tree(rng, odd=odd)
        else:
            defaults = old_merge(old, random_tree(rng)) if not odd else random_tree(rng, odd=True)
        if isinstance(defaults, collections.defaultdict):
            defaults = dict(defaults)
        for priority in ("new", "old", "new-defaults", "bogus"):
            exc += compare_update(old, new, priority, defaults) == "exc"
            n += 1

    # documented examples
    assert cfg.update({"x": 1, "y": {"a": 2}}, {"x": 2, "y": {"b": 3}}) == {"x": 2, "y": {"a": 2, "b": 3}}
    assert cfg.update({"x": 1, "y": {"a": 2}}, {"x": 2, "y": {"b": 3}}, priority="old") == {
        "x": 1, "y": {"a": 2, "b": 3}}
    assert cfg.update({"x": 1, "y": {"a": 2}}, {"x": 2, "y": {"a": 3, "b": 3}}, priority="new-defaults",
                      defaults={"x": 0, "y": {"a": 2}}) == {"x": 1, "y": {"a": 3, "b": 3}}
    # scalar / None / missing replaced by a group, siblings kept, '-'/'_' folded
    assert cfg.update({"g": None, "h": 3, "k-l": {"m": 1}}, {"g": {"a": 1}, "h": {"b": 2}, "i": {"c": 3},
                                                           "k_l": {"n": 2}}) == {
        "g": {"a": 1}, "h": {"b": 2}, "k-l": {"m": 1, "n": 2}, "i": {"c": 3}}
    # defaults holding a scalar where new holds a nested group
    compare_update({"g": {"a": {"b": 1}}}, {"g": {"a": {"b": 2}}}, "new-defaults", {"g": "scalar"})
    compare_update({"g": {"a": 1}}, {"g": {"a": 2}}, "new-defaults", {"g": 5})

    # merge / update_defaults / refresh built on the old and on the new update
    for _ in range(300):
        layers = [random_tree(rng) for _ in range(rng.randint(0, 4))]
        assert same(old_merge(*copy.deepcopy(layers)), cfg.merge(*copy.deepcopy(layers)))
        c1, d1 = {}, []
        c2, d2 = {}, []
        for step in range(rng.randint(2, 10)):
            r = rng.random()
            if r < 0.5:
                t = random_tree(rng)
                r1 = outcome(lambda: old_update_defaults(copy.deepcopy(t), config=c1, defaults=d1))
                r2 = outcome(lambda: cfg.update_defaults(copy.deepcopy(t), config=c2, defaults=d2))
            elif r < 0.7:
                r1 = outcome(lambda: old_refresh(config=c1, defaults=d1, path=_tmp.name))
                r2 = outcome(lambda: cfg.refresh(config=c2, defaults=d2, path=_tmp.name))
            else:
                key = ".".join(rng.choice(NAMES) for _ in range(rng.randint(1, 3)))
                val = rng.randint(0, 3)
                r1 = outcome(lambda: cfg.set({key: val}, config=c1) and None)
                r2 = outcome(lambda: cfg.set({key: val}, config=c2) and None)
            assert r1 == r2, (r1, r2)
            assert same(c1, c2) and same(d1, d2), (c1, c2)
            n += 1
    assert exc > 20, exc  # the exception paths were exercised as well
    return n


# --------------------------------------------------------------------------------------
# part 1: last-writer-wins reference model on the live store
# --------------------------------------------------------------------------------------
LEAVES = [
    ("dtype_real",), ("dtype-complex",), ("verbose",), ("precision",),
    ("cupy", "fft-cache-size"), ("mkl", "threads"), ("viz", "cmap"),
    ("viz", "real_space_units"), ("viz", "colors", "set"), ("warnings", "suppress-all-"),
    ("extra-group", "first_leaf"), ("extra-group", "second-leaf"),
    ("extra-group", "deep", "er", "leaf"), ("solo_key",),
]
BAD_DEVICES = ["tpu", "cuda:99", -1, 1.5, "cuda:x", "quantum"]


def respell(path, rng):
    out = []
    for p in path:
        r = rng.random()
        out.append(p.replace("-", "_") if r < 0.4 else p.replace("_", "-") if r < 0.8 else p)
    return out


class Model:
    def __init__(self):
        self.cfg = flatten(cfg.config)
        self.dflt = [flatten(cfg.merge(*cfg.defaults))]

    def merged(self):
        out = {}
        for d in self.dflt:
            out.update(d)
        return out

    def set(self, path, value):
        self.cfg[canon(path)] = value

    def update_defaults(self, flat):
        cur = self.merged()
        for p, v in flat.items():
            if p not in self.cfg or (p in cur and cur[p] == self.cfg[p]):
                self.cfg[p] = v
        self.dflt.append(dict(flat))

    def refresh(self):
        self.cfg = self.merged()


def spell_like_store(path, rng):
    """spelling for a new set of defaults: levels that already exist in the store are
    spelled as they are stored, levels that do not exist yet are spelled at random"""
    out, d = [], cfg.config
    for p in path:
        found = [k for k in d if canon((k,)) == canon((p,))] if isinstance(d, dict) else []
        if found:
            out.append(found[0])
            d = d[found[0]]
        else:
            out.append(respell([p], rng)[0])
            d = None
    return tuple(out)


def nest(flat_items):
    out = {}
    for path, v in flat_items:
        d = out
        for p in path[:-1]:
            d = d.setdefault(p, {})
        d[path[-1]] = v
    return out


def check(model, rng):
    assert flatten(cfg.config) == model.cfg, (flatten(cfg.config), model.cfg)
    for path in rng.sample(LEAVES, 4):
        key = ".".join(respell(path, rng))
        want = model.cfg.get(canon(path), "<absent>")
        assert cfg.get(key, "<absent>") == want, (key, cfg.get(key, "<absent>"), want)
    assert cfg.get("device") == cfg.get_device() == model.cfg[("device",)]


def part1():
    rng = random.Random(19)
    uid = [0]

    def fresh(tag):
        uid[0] += 1
        return f"{tag}{uid[0]}"

    steps = 0
    for hist in range(40):
        cfg.refresh()
        model = Model()
        model.refresh()
        check(model, rng)
        for _ in range(rng.randint(5, 25)):
            op = rng.random()
            if op < 0.40:  # set, one of the three forms
                path = rng.choice(LEAVES)
                sp = respell(path, rng)
                val = fresh("u")
                form = rng.random()
                if form < 0.4:
                    cfg.set({".".join(sp): val})
                elif form < 0.7 and all(p.isidentifier() for p in (s.replace("-", "_") for s in sp)) \
                        and not any(s.endswith(("-", "_")) for s in sp):
                    cfg.set(**{"__".join(s.replace("-", "_") for s in sp): val})
                else:
                    other = rng.choice(LEAVES)
                    if canon(other) == canon(path):
                        cfg.set({".".join(sp): val})
                    else:
                        v2 = fresh("u")
                        cfg.set({".".join(respell(other, rng)): v2, ".".join(sp): val})
                        model.set(other, v2)
                model.set(path, val)
            elif op < 0.55:  # context manager form restores everything
                before = copy.deepcopy(cfg.config)
                paths = rng.sample(LEAVES, rng.randint(1, 3))
                with cfg.set({".".join(respell(p, rng)): fresh("t") for p in paths}):
                    for p in paths:
                        assert str(cfg.get(".".join(respell(p, rng)))).startswith("t")
                    if rng.random() < 0.5:
                        with cfg.set({"brand-new.group.leaf": 1, "device": "cpu"}):
                            assert cfg.get("brand_new.group.leaf") == 1
                        assert cfg.get("brand-new", None) is None
                assert cfg.config == before, (cfg.config, before)
            elif op < 0.70:  # new defaults, nested mapping, siblings must survive
                items = [(spell_like_store(p, rng), fresh("d")) for p in rng.sample(LEAVES, rng.randint(1, 4))]
                cfg.update_defaults(nest(items))
                model.update_defaults({canon(p): v for p, v in items})
            elif op < 0.80:
                cfg.refresh()
                model.refresh()
            elif op < 0.90:  # rejected devices leave the stored device alone
                dev = rng.choice(BAD_DEVICES)
                before = copy.deepcopy(cfg.config)
                try:
                    if rng.random() < 0.5:
                        cfg.set_device(dev)
                    else:
                        cfg.set(device=dev)
                except (RuntimeError, ValueError, TypeError):
                    pass
                else:
                    raise AssertionError(f"device {dev!r} accepted")
                assert cfg.config == before
            else:
                cfg.set_device(rng.choice(["cpu", "CPU", "cpu:0"]))
                model.set(("device",), "cpu")
            check(model, rng)
            steps += 1
        # refresh restores exactly the accumulated defaults
        cfg.refresh()
        model.refresh()
        check(model, rng)
        assert flatten(cfg.config) == flatten(cfg.merge(*cfg.defaults))
    return steps


if __name__ == "__main__":
    with warnings.catch_warnings():
        warnings.simplefilter("error")
        n2 = part2()
        n1 = part1()
    _tmp.cleanup()
    print(f"PASS: {n1} model-checked steps, {n2} old/new comparisons")
