"""C14 demo: serializer skip lists (AutoSerialize.save / _recursive_save / _recursive_load / load).

Two layers of checks, both must pass on the unmodified tree and with any of the five
behaviour-preserving patches applied:

 1. old == new: a verbatim copy of the ORIGINAL save, _recursive_save, _recursive_load and load
    is embedded below (ORIG_SRC).  For a spread of object graphs, skip lists (names, types,
    bare str / bare type / list / tuple forms, absent names), both stores and a few error paths,
    the installed implementation and the embedded original must produce the same exception
    (type and message), the same bytes on disk (every file of the zarr tree), the same stdout
    and the same loaded object (deep, bit-for-bit description).
 2. property C14 asserted directly on the installed implementation: names skipped at save
    time, at load time, or split between both are absent at every attribute-nested level;
    type skipping at save time removes exactly the instances of the listed types; what remains
    is identical to the corresponding part of the no-skip load; skip lists recorded in the file
    are honoured by a plain load().

Invoked as: PYTHONPATH=<root>/src /venv/bin/python demo.py
"""

import contextlib
import io
import logging
import os
import random
import tempfile
import zipfile
from unittest import mock
from pathlib import Path
from typing import Any

import attrs
import numpy as np
import torch

import quantem.core.io.serialize as ser
from quantem.core.io.serialize import AutoSerialize

# --------------------------------------------------------------------------------------------
# Verbatim copy of the ORIGINAL functions (worktree HEAD), executed in a copy of the module
# namespace so that every global they use (AutoSerialize, zarr, LocalStore, ...) is the real one.
# --------------------------------------------------------------------------------------------
ORIG_SRC = r'''
class _Orig:
    def save(
        self,
        path: str | Path,
        mode: Literal["w", "o"] = "w",
        store: Literal["auto", "zip", "dir"] = "auto",
        skip: Union[str, type, Sequence[Union[str, type]]] = (),
        compression_level: int | None = 4,
    ) -> None:
        """
        Save the current object to disk using Zarr serialization.

        Parameters
        ----------
        path : str or Path
            Target file path. Use '.zip' extension for zip format, otherwise a directory.
        mode : {'w', 'o'}
            'w' = write only if file doesn't exist, 'o' = overwrite if it does.
        store : {'auto', 'zip', 'dir'}
            Storage format. 'auto' infers from file extension.
        skip : str, type, or list of (str or type)
            Attribute names/types to skip (by name or type) during serialization.
        compression_level : int or None
            If set (0–9), applies Zstandard compression with Blosc backend at that level.
            Level 0 disables compression. Raises ValueError if > 9.

        Notes
        -----
        Skipped attribute names and types are also stored in the file metadata for correct
        round-trip skipping during load().
        """
        # Validate compression level
        if compression_level is not None:
            if not (0 <= compression_level <= 9):
                raise ValueError(
                    f"compression_level must be between 0 and 9, got {compression_level}"
                )
            compressors = [
                {
                    "name": "blosc",
                    "configuration": {
                        "cname": "zstd",
                        "clevel": int(compression_level),
                        "shuffle": "bitshuffle",
                    },
                }
            ]
        else:
            compressors = None

        path = str(path)
        # Auto-infer storage format if needed
        if store == "auto":
            store = "zip" if path.endswith(".zip") else "dir"

        # Ensure .zip extension if requested
        if store == "zip" and not path.endswith(".zip"):
            print(f"Warning: appending .zip to path '{path}'")
            path += ".zip"

        # Handle overwrite vs. write protection
        if os.path.exists(path):
            if mode == "o":
                if os.path.isdir(path):
                    shutil.rmtree(path)
                else:
                    os.remove(path)
            else:
                raise FileExistsError(f"File '{path}' already exists. Use mode='o' to overwrite.")

        # Normalize skip argument (split to names and types)
        if isinstance(skip, (str, type)):
            skip = [skip]
        skip_names = {s for s in skip if isinstance(s, str)}
        skip_types = tuple(s for s in skip if isinstance(s, type))

        def write_skip_metadata(root):
            # Store skip info as attributes for correct deserialization
            root.attrs["_autoserialize_skip_names"] = list(skip_names)
            root.attrs["_autoserialize_skip_types"] = [
                f"{t.__module__}.{t.__qualname__}" for t in skip_types
            ]

        # Main branch: choose between zip and directory storage
        if store == "zip":
            # Always use tempdir for safe atomic write
            with tempfile.TemporaryDirectory() as tmpdir:
                store_obj = LocalStore(tmpdir)
                root = zarr.group(store=store_obj, overwrite=True)
                self._recursive_save(self, root, skip_names, skip_types, compressors)
                write_skip_metadata(root)
                # Zip up all files in tempdir
                try:
                    with ZipFile(path, mode="w") as zf:
                        for dirpath, _, filenames in os.walk(tmpdir):
                            for filename in filenames:
                                full_path = os.path.join(dirpath, filename)
                                rel_path = os.path.relpath(full_path, tmpdir)
                                zf.write(full_path, arcname=rel_path)
                except BaseException:
                    # Never leave a partial (but readable) archive behind
                    if os.path.exists(path):
                        os.remove(path)
                    raise
        elif store == "dir":
            # Directory mode requires no extension
            if os.path.splitext(path)[1]:
                raise ValueError(
                    f"Expected a directory path for store='dir', but got file-like path '{path}'"
                )
            try:
                os.makedirs(path, exist_ok=True)
                store_obj = LocalStore(path)
                root = zarr.group(store=store_obj, overwrite=True)
                self._recursive_save(self, root, skip_names, skip_types, compressors)
                write_skip_metadata(root)
            except BaseException:
                # The target did not exist (or was removed above): never leave a partial,
                # but loadable, object behind when serialisation fails part-way
                shutil.rmtree(path, ignore_errors=True)
                raise
        else:
            raise ValueError(f"Unknown store type: {store}")

    def _recursive_save(
        self,
        obj,
        group: zarr.Group,
        skip_names: set[str] = set(),
        skip_types: tuple[type, ...] = (),
        compressors=None,
    ) -> None:
        # Store class identity and version metadata at group root if not already set
        if "_autoserialize" not in group.attrs:
            group.attrs["_autoserialize"] = {
                "version": 1,
                "class_module": obj.__class__.__module__,
                "class_name": obj.__class__.__qualname__,
            }

        # Support both attrs and plain Python classes
        attrs_fields = getattr(obj.__class__, "__attrs_attrs__", None)
        if attrs_fields is not None:
            items = [(field.name, getattr(obj, field.name)) for field in attrs_fields]
        else:
            items = obj.__dict__.items()

        for attr_name, attr_value in items:
            # Skip any attributes matching names/types in skip lists
            if attr_name in skip_names or isinstance(attr_value, skip_types):
                continue

            # Use unified serialization method
            self._serialize_value(
                attr_value, group, attr_name, skip_names, skip_types, compressors
            )

    @classmethod
    def _recursive_load(
        cls,
        group: zarr.Group,
        skip_names: AbstractSet[str] = frozenset(),
        skip_types: tuple[type, ...] = (),
    ) -> object:
        """
        Recursively reconstruct an AutoSerialize object from a Zarr group,
        honoring attribute/type skipping for selective deserialization.
        """
        # --- Load class identity and ensure version is compatible ---
        meta = cast(dict[str, Any], group.attrs["_autoserialize"])
        version = int(meta.get("version", 1))
        if version != 1:
            raise ValueError(f"Unsupported AutoSerialize version: {version}")
        module_name = cast(str, meta["class_module"])
        class_name = cast(str, meta["class_name"])
        module = __import__(module_name, fromlist=[class_name])
        cls_obj = getattr(module, class_name)
        obj = cls_obj.__new__(cls_obj)  # Avoid __init__ side effects

        # If attrs package is used, only allow whitelisted attribute names
        attrs_fields = getattr(cls_obj, "__attrs_attrs__", None)
        if attrs_fields is not None:
            attrs_item_names = [f.name for f in attrs_fields]
        else:
            attrs_item_names = []

        set_attrs = set()

        # --- Restore simple attributes ---
        for name, val in group.attrs.items():
            if (
                name in ("_autoserialize", "_autoserialize_skip_names", "_autoserialize_skip_types")
                or name.endswith(".torch_save")
                or name.endswith(".is_path")
            ):
                continue  # Skip metadata/flags
            if name in skip_names:
                continue
            if attrs_item_names and name not in attrs_item_names:
                continue

            # Convert string paths back to pathlib.Path objects if needed
            val = cls._convert_string_to_path_if_needed(val, group, name)

            setattr(obj, name, val)
            set_attrs.add(name)

        # --- Restore datasets (arrays/tensors/serialized objects) ---
        for ds in group.array_keys():
            if ds in skip_names:
                continue
            arr_np = AutoSerialize._read_array_np(group, ds)
            try:
                payload = gzip.decompress(arr_np.tobytes())
                v = dill.loads(payload)
            except Exception:
                v = arr_np
                if group.attrs.get(f"{ds}.torch_save", False):
                    v = torch.from_numpy(v)
            if type(v) in skip_types:
                continue
            setattr(obj, ds, v)
            set_attrs.add(ds)

        # --- Restore subgroups (optimizers, modules, nested objects, containers) ---
        for name in group.group_keys():
            if name in skip_names:
                continue
            subgrp = AutoSerialize._get_group(group, name)

            # torch tensor group
            if subgrp.attrs.get("_torch_tensor"):
                data = AutoSerialize._read_array_np(subgrp, "tensor").tobytes()
                buf = io.BytesIO(data)
                tensor = torch.load(buf, map_location="cpu", weights_only=False)
                if type(tensor) in skip_types:
                    continue
                setattr(obj, name, tensor)
                set_attrs.add(name)

            # torch optimizer group
            elif subgrp.attrs.get("_torch_optimizer"):
                data = AutoSerialize._read_array_np(subgrp, "optimizer").tobytes()
                buf = io.BytesIO(data)
                opt = torch.load(buf, map_location="cpu", weights_only=False)
                if type(opt) in skip_types:
                    continue

                setattr(obj, name, opt)
                set_attrs.add(name)

            # torch scheduler group
            elif subgrp.attrs.get("_torch_scheduler"):
                data = AutoSerialize._read_array_np(subgrp, "scheduler").tobytes()
                buf = io.BytesIO(data)
                scheduler = torch.load(buf, map_location="cpu", weights_only=False)
                if type(scheduler) in skip_types:
                    continue
                setattr(obj, name, scheduler)
                set_attrs.add(name)

            # torch logger group
            elif subgrp.attrs.get("_torch_logger"):
                # Recreate logger from saved metadata
                logger_class_name = subgrp.attrs.get("class_name", "SummaryWriter")

                if logger_class_name == "SummaryWriter":
                    from torch.utils.tensorboard import SummaryWriter

                    # Extract logger parameters with explicit type casting
                    log_dir = subgrp.attrs.get("log_dir", None)

                    comment = str(cast(Any, subgrp.attrs.get("comment", "")))
                    max_queue = int(cast(Any, subgrp.attrs.get("max_queue", 10)))
                    flush_secs = int(cast(Any, subgrp.attrs.get("flush_secs", 120)))
                    filename_suffix = str(cast(Any, subgrp.attrs.get("filename_suffix", "")))

                    # Create new logger instance
                    logger = SummaryWriter(
                        log_dir=log_dir,
                        comment=comment,
                        max_queue=max_queue,
                        flush_secs=flush_secs,
                        filename_suffix=filename_suffix,
                    )
                else:
                    # For other logger types, create a basic instance or skip
                    print(
                        f"Warning: Unknown logger type '{logger_class_name}', skipping logger restoration"
                    )
                    continue

                if type(logger) in skip_types:
                    continue
                setattr(obj, name, logger)
                set_attrs.add(name)

            # python logger group
            elif subgrp.attrs.get("_python_logger"):
                # Recreate Python logger from saved metadata
                logger_class_name = subgrp.attrs.get("class_name", "Logger")

                if logger_class_name == "Logger":
                    import logging

                    # Extract logger parameters
                    logger_name = cast(str, subgrp.attrs.get("logger_name", "quantem"))
                    logger_level = int(cast(Any, subgrp.attrs.get("logger_level", logging.INFO)))

                    # Create new logger instance
                    logger = logging.getLogger(logger_name)
                    logger.setLevel(logger_level)
                else:
                    # For other logger types, create a basic instance or skip
                    print(
                        f"Warning: Unknown Python logger type '{logger_class_name}', skipping logger restoration"
                    )
                    continue

                if type(logger) in skip_types:
                    continue
                setattr(obj, name, logger)
                set_attrs.add(name)

            # torch module group
            elif subgrp.attrs.get("_torch_whole_module"):
                data = AutoSerialize._read_array_np(subgrp, "module").tobytes()
                buf = io.BytesIO(data)
                mod = torch.load(buf, map_location="cpu", weights_only=False)
                if type(mod) in skip_types:
                    continue

                # Fix PyTorch module set attributes that might be corrupted
                if isinstance(mod, torch.nn.Module):
                    cls._fix_torch_module_sets(mod)

                setattr(obj, name, mod)
                set_attrs.add(name)

            # nested AutoSerialize group
            elif "_autoserialize" in subgrp.attrs:
                m = cast(dict[str, Any], subgrp.attrs["_autoserialize"])
                submod_name = cast(str, m["class_module"])
                subcls_name = cast(str, m["class_name"])
                submod = __import__(submod_name, fromlist=[subcls_name])
                subcls = getattr(submod, subcls_name)
                if subcls in skip_types:
                    continue
                val = subcls._recursive_load(subgrp, skip_names, skip_types)
                if type(val) in skip_types:
                    continue

                setattr(obj, name, val)
                set_attrs.add(name)

            # containers (list, tuple, dict)
            elif subgrp.attrs.get("_container_type", None) is not None:
                val = cls._deserialize_container(cast(zarr.Group, subgrp))
                if type(val) in skip_types:
                    continue
                setattr(obj, name, val)
                set_attrs.add(name)

            # NumPy random generator
            elif subgrp.attrs.get("_numpy_rng"):
                import numpy.random as npr

                # rng_type = subgrp.attrs.get("_rng_type", "Generator")
                bit_generator_type = subgrp.attrs.get("_bit_generator_type", "PCG64")
                # rng_state = subgrp.attrs["_rng_state"]

                # Create the appropriate bit generator
                if bit_generator_type == "PCG64":
                    bit_gen = npr.PCG64()
                elif bit_generator_type == "MT19937":
                    bit_gen = npr.MT19937()
                elif bit_generator_type == "Philox":
                    bit_gen = npr.Philox()
                elif bit_generator_type == "SFC64":
                    bit_gen = npr.SFC64()
                else:
                    # Fallback to default
                    bit_gen = npr.PCG64()

                # Create generator with fresh state
                rng = npr.Generator(bit_gen)
                # Note: We don't restore the exact state due to type compatibility issues
                # The generator will work fine with fresh state and can be re-seeded if needed

                setattr(obj, name, rng)
                set_attrs.add(name)

            # PyTorch generator (skipped during save)
            elif subgrp.attrs.get("_torch_rng_skipped"):
                # Create a new generator since we didn't save the state
                rng = torch.Generator()
                setattr(obj, name, rng)
                set_attrs.add(name)

            else:
                print(f"Unhandled group: {name} with attrs: {dict(subgrp.attrs)}")
                raise ValueError(f"Unknown subgroup structure: {subgrp.path}")

        # Remove attributes in skip_names that may have been set by __init__ (when using __new__)
        for name in skip_names:
            if hasattr(obj, name):
                delattr(obj, name)

        # attrs pattern: call post-init if defined
        if hasattr(obj, "__attrs_post_init__"):
            obj.__attrs_post_init__()

        # Fix PyTorch module set attributes after all loading is complete
        if isinstance(obj, torch.nn.Module):
            cls._fix_torch_module_sets(obj)

        # Also fix any nested PyTorch modules in the object's attributes
        # Use a more defensive approach to avoid triggering property accessors
        for attr_name in dir(obj):
            if not attr_name.startswith("_"):  # Skip private attributes
                try:
                    # Check if it's a property first to avoid triggering accessors
                    if hasattr(type(obj), attr_name):
                        attr_descriptor = getattr(type(obj), attr_name)
                        if hasattr(attr_descriptor, "__get__") and not hasattr(
                            attr_descriptor, "__set__"
                        ):
                            # This is a read-only property, skip it to avoid triggering computation
                            continue

                    attr_value = getattr(obj, attr_name)
                    if isinstance(attr_value, torch.nn.Module):
                        cls._fix_torch_module_sets(attr_value)
                except (AttributeError, RuntimeError, ValueError, KeyError):
                    # Skip attributes that can't be accessed or cause other errors
                    pass

        return obj


def load(
    path: str | Path,
    skip: Union[str, type, Sequence[Union[str, type]]] = (),
) -> Any:
    """
    Load an AutoSerialize object from disk.

    Parameters
    ----------
    path : str or Path
        Directory or .zip file containing a serialized object.
    skip : str, type, or list of (str or type)
        Names/types of attributes to skip when loading.
        Combined with skip info stored in the file, if present.

    Returns
    -------
    obj : Any
        Reconstructed AutoSerialize instance.
    """
    # Normalize skip argument to sets/tuples for merging
    if isinstance(skip, (str, type)):
        skip = [skip]
    user_skip_names = {s for s in skip if isinstance(s, str)}
    user_skip_types = tuple(s for s in skip if isinstance(s, type))

    # Load Zarr store from directory or extracted zip
    if os.path.isdir(path):
        store = LocalStore(path)
    else:
        tempdir = tempfile.TemporaryDirectory()
        with ZipFile(path, "r") as zf:
            zf.extractall(tempdir.name)
        store = LocalStore(tempdir.name)

    root = zarr.group(store=store)
    if "_autoserialize" not in root.attrs:
        raise KeyError("Missing '_autoserialize' metadata in Zarr root attrs.")
    meta = cast(dict[str, Any], root.attrs["_autoserialize"])
    version = int(meta.get("version", 1))
    if version != 1:
        raise ValueError(f"Unsupported AutoSerialize version: {version}")

    # Read skip metadata (names/types) stored with the file, if present
    file_skip_names = set(cast(Sequence[str], root.attrs.get("_autoserialize_skip_names", [])))
    file_skip_types_raw = cast(
        Sequence[str] | None, root.attrs.get("_autoserialize_skip_types", [])
    )
    file_skip_types = (
        tuple(
            # Import each type by fully-qualified name from string
            __import__(t.rpartition(".")[0], fromlist=[t.rpartition(".")[2]]).__dict__[  # type: ignore[index]
                t.rpartition(".")[2]
            ]
            for t in file_skip_types_raw
        )
        if file_skip_types_raw
        else tuple()
    )

    # Merge user-specified and file-stored skip lists/types (avoid duplicates)
    skip_names = user_skip_names | file_skip_names
    skip_types = user_skip_types + tuple(t for t in file_skip_types if t not in user_skip_types)

    # Dynamically import target class, then reconstruct from Zarr
    mod = __import__(cast(str, meta["class_module"]), fromlist=[cast(str, meta["class_name"])])
    cls = getattr(mod, cast(str, meta["class_name"]))
    return cls._recursive_load(root, skip_names=skip_names, skip_types=skip_types)
'''

_ns = dict(vars(ser))
exec(compile(ORIG_SRC, "<original-serialize>", "exec"), _ns)
METHS = ("save", "_recursive_save", "_recursive_load")
ORIG = {k: _ns["_Orig"].__dict__[k] for k in METHS}
ORIG["load"] = _ns["load"]
CUR = {k: AutoSerialize.__dict__[k] for k in METHS}
CUR["load"] = ser.load


@contextlib.contextmanager
def impl(which):
    """Install the original / current methods on AutoSerialize; yields the matching load()."""
    table = ORIG if which == "orig" else CUR
    for k in METHS:
        setattr(AutoSerialize, k, table[k])
    try:
        yield table["load"]
    finally:
        for k in METHS:
            setattr(AutoSerialize, k, CUR[k])


# --------------------------------------------------------------------------------------------
# Object graphs (module level so that load() can re-import the classes from __main__)
# --------------------------------------------------------------------------------------------
class Leaf(AutoSerialize):
    def __init__(self, seed):
        r = np.random.default_rng(seed)
        self.data = r.normal(size=(3, 4))
        self.name = f"leaf{seed}"
        self.count = seed


class Mid(AutoSerialize):
    def __init__(self, seed):
        self.data = np.arange(5, dtype=np.int32) + seed
        self.leaf = Leaf(seed + 1)
        self.name = "mid"
        self.scale = 0.5 * seed
        self.tag = None
        self.weights = torch.arange(6, dtype=torch.float32).reshape(2, 3) * seed
        self.meta = {"a": 1, "b": "x", "data": [1.5, 2.5]}
        self.path = Path("/some/where/file.h5")


class Root(AutoSerialize):
    """Three attribute-nested levels; 'data', 'name', 'leaf', 'count' occur at several depths."""

    def __init__(self):
        self.data = np.zeros((2, 0))
        self.mid = Mid(1)
        self.leaf = Leaf(7)
        self.count = 3
        self.ratio = np.float32(0.25)
        self.z = 1 + 2j
        self.labels = {"x", "y"}
        self.on = True


class Kinds(AutoSerialize):
    """Flat object with the remaining storage kinds (subgroups, containers, 0-d array)."""

    def __init__(self):
        torch.manual_seed(0)
        self.data = np.arange(4, dtype=np.uint8)
        self.rng = np.random.default_rng(0)
        self.log = logging.getLogger("c14demo")
        self.net = torch.nn.Linear(2, 2)
        self.items = (1, "a", 2.0)
        self.flags = [True, False]
        self.scalar0d = np.array(4.5)
        self.count = 2


@attrs.define(slots=False, eq=False)
class Rec(AutoSerialize):
    a: int = 1
    name: str = "rec"
    data: Any = None
    child: Any = None
    leaf: Any = None


def make_rec():
    inner = Rec(a=2, name="inner", data=np.arange(3.0), child=None, leaf=None)
    return Rec(a=1, name="outer", data=np.ones((2, 2), dtype=np.complex64), child=inner, leaf=Leaf(4))


class Tiny(AutoSerialize):
    def __init__(self):
        self.data = np.arange(3)


class Boxed(AutoSerialize):
    """AutoSerialize objects inside containers: used for old == new only (outside the property)."""

    def __init__(self):
        self.data = np.arange(4.0)
        self.children = [Leaf(1)]
        self.lookup = {"first": Leaf(3), "name": "n"}
        self.name = "boxed"


GRAPHS = {"root": Root, "kinds": Kinds, "rec": make_rec, "tiny": Tiny, "boxed": Boxed}
PROPERTY_GRAPHS = ("root", "kinds", "rec", "tiny")


# --------------------------------------------------------------------------------------------
# Deep, bit-exact description of a loaded object
# --------------------------------------------------------------------------------------------
def describe(v):
    if AutoSerialize._is_autoserialize_instance(v):
        return ("obj", type(v).__qualname__, tuple(sorted((k, describe(x)) for k, x in vars(v).items())))
    if isinstance(v, np.ndarray):
        return ("nd", str(v.dtype), v.shape, v.tobytes())
    if isinstance(v, torch.nn.Module):
        return ("module", type(v).__qualname__, tuple((k, describe(t)) for k, t in v.state_dict().items()))
    if isinstance(v, torch.Tensor):
        return ("tensor", str(v.dtype), tuple(v.shape), bool(v.requires_grad), v.detach().numpy().tobytes())
    if isinstance(v, (list, tuple)):
        return (type(v).__name__, tuple(describe(x) for x in v))
    if isinstance(v, dict):
        return ("dict", tuple(sorted((repr(k), describe(x)) for k, x in v.items())))
    if isinstance(v, (set, frozenset)):
        return (type(v).__name__, tuple(sorted(repr(x) for x in v)))
    if isinstance(v, np.random.Generator):
        return ("rng", type(v.bit_generator).__name__)
    if isinstance(v, logging.Logger):
        return ("logger", v.name, v.level)
    if isinstance(v, float):
        return ("float", v.hex())
    return (type(v).__name__, repr(v))


def snapshot(path):
    """All files of the stored zarr tree with their bytes (zip: member contents, no timestamps)."""
    out = {}
    if os.path.isdir(path):
        for dirpath, _, filenames in os.walk(path):
            for fn in filenames:
                full = os.path.join(dirpath, fn)
                out[os.path.relpath(full, path)] = Path(full).read_bytes()
    else:
        with zipfile.ZipFile(path) as zf:
            assert len(zf.namelist()) == len(set(zf.namelist()))
            for n in zf.namelist():
                out[n] = zf.read(n)
    return out


def outcome(fn, tmp):
    """Run fn, capturing stdout; returns ('ok', value, stdout) or ('exc', type, message, stdout)."""
    buf = io.StringIO()
    try:
        with contextlib.redirect_stdout(buf):
            val = fn()
        return ("ok", val, buf.getvalue().replace(tmp, "<TMP>"))
    except Exception as e:  # noqa: BLE001
        return ("exc", type(e).__name__, str(e).replace(tmp, "<TMP>"), buf.getvalue().replace(tmp, "<TMP>"))


def skip_key(skip):
    if isinstance(skip, (str, type)):
        return ("bare", repr(skip))
    return (type(skip).__name__, tuple(repr(s) for s in skip))


class Harness:
    def __init__(self, base):
        self.base = base
        self.saved = {}
        self.loaded = {}
        self.n = 0

    def save(self, which, gname, skip, store, **kw):
        key = (which, gname, skip_key(skip), store, tuple(sorted(kw.items())))
        if key not in self.saved:
            self.n += 1
            tmp = os.path.join(self.base, f"{which}_{self.n}")
            os.makedirs(tmp)
            path = os.path.join(tmp, "obj.zip" if store == "zip" else "obj")
            with impl(which):
                obj = GRAPHS[gname]()
                # gzip.compress (dill fallback in _serialize_value) stamps the current time into
                # its header: freeze the clock so that stored bytes are comparable
                with mock.patch("time.time", return_value=1.7e9):
                    res = outcome(lambda: obj.save(path, store=store, skip=skip, **kw), tmp)
            disk = snapshot(path) if os.path.exists(path) else None
            self.saved[key] = (path, tmp, res, disk)
        return self.saved[key]

    def load(self, which, gname, save_skip, load_skip, store):
        key = (which, gname, skip_key(save_skip), skip_key(load_skip), store)
        if key not in self.loaded:
            path, tmp, sres, disk = self.save(which, gname, save_skip, store)
            assert sres[0] == "ok", sres
            with impl(which) as load:
                res = outcome(lambda: describe(load(path, skip=load_skip)), tmp)
            self.loaded[key] = res
        return self.loaded[key]

    def both_save(self, gname, skip, store, **kw):
        o = self.save("orig", gname, skip, store, **kw)
        c = self.save("cur", gname, skip, store, **kw)
        assert o[2] == c[2], ("save outcome differs", gname, skip, store, kw, o[2], c[2])
        assert o[3] == c[3], ("stored bytes differ", gname, skip, store, kw)
        return c

    def both_load(self, gname, save_skip, load_skip, store):
        self.both_save(gname, save_skip, store)
        o = self.load("orig", gname, save_skip, load_skip, store)
        c = self.load("cur", gname, save_skip, load_skip, store)
        assert o == c, ("load outcome differs", gname, save_skip, load_skip, store, o, c)
        return c


# --------------------------------------------------------------------------------------------
# Property helpers
# --------------------------------------------------------------------------------------------
def expected(orig, d0, names, types):
    """Prune the no-skip description d0 of `orig` by names (every level) and types (isinstance)."""
    assert d0[0] == "obj"
    out = []
    for k, d in d0[2]:
        if k in names:
            continue
        ov = getattr(orig, k)
        if types and isinstance(ov, types):
            continue
        if AutoSerialize._is_autoserialize_instance(ov):
            d = expected(ov, d, names, types)
        out.append((k, d))
    return ("obj", d0[1], tuple(out))


def all_attr_names(d, acc=None):
    acc = set() if acc is None else acc
    if d[0] == "obj":
        for k, sub in d[2]:
            acc.add(k)
            all_attr_names(sub, acc)
    return acc


def split_skip(skip):
    names = {s for s in skip if isinstance(s, str)}
    types = tuple(s for s in skip if isinstance(s, type))
    return names, types


def main():
    import zarr
    from zarr.storage import LocalStore

    rnd = random.Random(14)
    universe = [
        "data", "leaf", "name", "count", "mid", "weights", "tag", "z", "labels", "rng", "log",
        "net", "path", "meta", "flags", "items", "ratio", "scale", "scalar0d", "on", "a", "child",
        "absent_name", "_autoserialize",
    ]
    name_sets = [
        ["data"],
        ["leaf", "absent_name"],
        ["name", "count", "mid"],
        ["weights", "tag", "z", "child", "net", "rng"],
        list(universe),
    ]
    for _ in range(2):
        name_sets.append(rnd.sample(universe, rnd.randint(2, 8)))
    type_sets = [
        [np.ndarray],
        [Leaf, torch.Tensor],
        [int],
        [str, float, Rec],
        [np.ndarray, "name", Mid, "leaf"],
        [object],
    ]
    n_cmp = n_prop = 0

    with tempfile.TemporaryDirectory() as base:
        h = Harness(base)

        # ---- 1a. argument forms and error paths of save/load: old == new -------------------
        for store in ("dir", "zip"):
            for skip in ("data", np.ndarray, ("data", "leaf"), [torch.Tensor, "z", "z"]):
                h.both_load("tiny" if store == "zip" else "rec", skip, (), store)
                h.both_load("tiny" if store == "zip" else "rec", (), skip, store)
                n_cmp += 2
            for kw in ({"compression_level": None}, {"compression_level": 0}, {"compression_level": 10}):
                h.both_save("tiny", ["data"], store, **kw)
                n_cmp += 1
        assert h.both_save("tiny", (), "bogus")[2][:2] == ("exc", "ValueError")
        assert h.both_save("tiny", ["x"], "auto")[2][0] == "ok"
        # class attribute named in a load-time skip list (final delattr loop): same exception
        r = h.both_load("tiny", (), ["save"], "dir")
        assert r[0] == "exc", r
        # existing target without overwrite: same FileExistsError; with overwrite: same bytes
        outs = {}
        for which in ("orig", "cur"):
            path, tmp, _, disk = h.save(which, "tiny", ["data", "overwrite-case"], "dir")
            with impl(which):
                outs[which] = (
                    outcome(lambda: Tiny().save(path, skip=["data"]), tmp),
                    outcome(lambda: Tiny().save(path, mode="o", skip=["zzz", Leaf]), tmp),
                    snapshot(path),
                )
        assert outs["orig"] == outs["cur"], "overwrite handling differs"
        assert outs["cur"][0][1] == "FileExistsError" and outs["cur"][1][0] == "ok"
        n_cmp += 5

        # ---- 1b/2. name subsets: save-time, load-time, split; old == new and the property --
        for gname in GRAPHS:
            for store in ("dir", "zip"):
                reduced = store == "zip" or gname not in PROPERTY_GRAPHS
                base_res = h.both_load(gname, (), (), store)
                assert base_res[0] == "ok", base_res
                d0 = base_res[1]
                wide = gname in ("root", "tiny") and store == "dir"
                for S in name_sets if wide else name_sets[1::3] if reduced else name_sets[::2]:
                    half = len(S) // 2
                    runs = {
                        "save": h.both_load(gname, S, (), store),
                        "load": h.both_load(gname, (), S, store),
                        "split": h.both_load(gname, S[:half], S[half:], store),
                    }
                    if len(S) <= 3:
                        runs["both"] = h.both_load(gname, S, tuple(S), store)
                    n_cmp += len(runs)
                    # the file itself carries the names skipped at save time
                    path = h.save("cur", gname, S, store)[0]
                    if store == "dir":
                        rec = zarr.group(store=LocalStore(path)).attrs["_autoserialize_skip_names"]
                        assert sorted(rec) == sorted(set(S)), (rec, S)
                    if gname not in PROPERTY_GRAPHS:
                        continue
                    want = expected(GRAPHS[gname](), d0, set(S), ())
                    for label, got in runs.items():
                        assert got[0] == "ok", (label, got)
                        assert got[1] == want, ("C14 violated (names)", gname, store, S, label)
                        assert not (all_attr_names(got[1]) & set(S)), ("skipped name present", S, label)
                        n_prop += 1

                # ---- type skipping (save time), mixed with names -----------------------------
                full = gname == "root" and store == "dir"
                for T in type_sets if full else type_sets[::3] if reduced else type_sets[1::2]:
                    got = h.both_load(gname, T, (), store)
                    h.both_load(gname, (), T, store)
                    n_cmp += 2
                    if gname not in PROPERTY_GRAPHS:
                        continue
                    names, types = split_skip(T)
                    want = expected(GRAPHS[gname](), d0, names, types)
                    assert got[0] == "ok", got
                    assert got[1] == want, ("C14 violated (types)", gname, store, T)
                    n_prop += 1

        # ---- recorded skip lists naming attributes that ARE in the file: the merge in load() ----
        d0 = h.load("cur", "root", (), (), "dir")[1]
        user_skips = ((), ["name"], [torch.Tensor, "weights"], "mid", np.ndarray, ("count", "absent_name"))
        outs = {}
        for which in ("orig", "cur"):
            path, tmp, _, _ = h.save(which, "root", ["recorded-case"], "dir")
            g = zarr.group(store=LocalStore(path))
            g.attrs["_autoserialize_skip_names"] = ["count", "leaf"]
            g.attrs["_autoserialize_skip_types"] = ["numpy.ndarray"]
            with impl(which) as load:
                outs[which] = [
                    outcome(lambda: describe(load(path, skip=us)), tmp)  # noqa: B023
                    for us in user_skips
                ]
        assert outs["orig"] == outs["cur"], "merge of recorded and user skip lists differs"
        for us, got in zip(user_skips, outs["cur"]):
            assert got[0] == "ok", got
            unames, utypes = split_skip([us] if isinstance(us, (str, type)) else us)
            gone = {"count", "leaf"} | unames
            assert not (all_attr_names(got[1]) & gone), ("recorded/user skipped name present", us)
            want = expected(Root(), d0, gone, (np.ndarray,) + utypes)
            assert got[1] == want, ("C14 violated (recorded skip lists)", us)
            n_cmp += 1
            n_prop += 1

        # sanity: the spread really exercised nesting and the interesting kinds
        d_root = h.load("cur", "root", (), (), "dir")[1]
        mid = dict(d_root[2])["mid"]
        assert {"data", "leaf", "name"} <= {k for k, _ in mid[2]}
        assert {"data", "name", "count"} == {k for k, _ in dict(mid[2])["leaf"][2]}
        d_np = h.load("cur", "root", [np.ndarray], (), "zip")[1]
        assert "data" not in all_attr_names(d_np) and "weights" in all_attr_names(d_np)
        d_leaf = h.load("cur", "root", [Leaf, torch.Tensor], (), "dir")[1]
        assert not ({"leaf", "weights"} & all_attr_names(d_leaf)) and "mid" in all_attr_names(d_leaf)
        d_k = h.load("cur", "kinds", [np.ndarray], (), "dir")[1]
        assert {"rng", "log", "net", "items", "flags", "count"} == all_attr_names(d_k)

    print(f"C14 demo OK: {n_cmp} old==new comparisons, {n_prop} property assertions")


if __name__ == "__main__":
    main()
