"""Demo for C18 / patch 1: CenterOfMassOriginModel.calculate_origin.

Checks (on whatever tree is on PYTHONPATH):
 * origin_measured == intensity-weighted mean (row, col) vs a float64 oracle,
 * independent of the batch size (1 .. num_patterns, and None),
 * agrees with PtychographyDatasetRaster._set_intensities_com (vectorised + looped),
 * is bit-identical to a verbatim copy of the ORIGINAL calculate_origin.
"""

import itertools

import numpy as np
import torch

from quantem.core.datastructures import Dataset
from quantem.diffractive_imaging.dataset_models import PtychographyDatasetRaster
from quantem.diffractive_imaging.origin_models import CenterOfMassOriginModel
from quantem.diffractive_imaging.ptycho_utils import SimpleBatcher


# --- verbatim copy of the original method (HEAD of the worktree) -------------------------
def original_calculate_origin(
    self,
    max_batch_size: int | None = None,
):
    """ """
    nqx, nqy = self.dataset.shape[-2:]
    tensor_3d = self.tensor.view((-1, nqx, nqy))

    qx = torch.arange(nqx, dtype=torch.float, device=self.device)
    qy = torch.arange(nqy, dtype=torch.float, device=self.device)
    qxa, qya = torch.meshgrid(qx, qy, indexing="ij")

    if max_batch_size is None:
        max_batch_size = self.num_dps

    batcher = SimpleBatcher(self.num_dps, batch_size=max_batch_size, shuffle=False)

    com_measured = torch.empty((self.num_dps, 2), dtype=torch.float, device=self.device)

    for batch_idx in batcher:
        intensities = tensor_3d[batch_idx]
        summed_intensities = torch.sum(intensities, dim=(-2, -1))
        com_measured[batch_idx, 0] = (
            torch.sum(intensities * qxa[None, :, :], dim=(-2, -1)) / summed_intensities
        )
        com_measured[batch_idx, 1] = (
            torch.sum(intensities * qya[None, :, :], dim=(-2, -1)) / summed_intensities
        )

    self.origin_measured = com_measured
    return self


# -----------------------------------------------------------------------------------------


def oracle(a4: np.ndarray) -> np.ndarray:
    a = a4.astype(np.float64).reshape((-1,) + a4.shape[-2:])
    r = np.arange(a.shape[-2], dtype=np.float64)[:, None]
    c = np.arange(a.shape[-1], dtype=np.float64)[None, :]
    s = a.sum((-2, -1))
    return np.stack([(a * r).sum((-2, -1)) / s, (a * c).sum((-2, -1)) / s], -1)


def make_data(rng, shape, kind):
    if kind == "random":
        a = rng.random(shape) + 0.05
    elif kind == "blob":
        # asymmetric gaussian blob whose centre drifts with scan position
        sr, sc, qr, qc = shape
        rr, cc = np.meshgrid(np.arange(qr), np.arange(qc), indexing="ij")
        a = np.empty(shape)
        for i, j in itertools.product(range(sr), range(sc)):
            r0 = 0.3 * qr + 0.11 * i - 0.07 * j
            c0 = 0.6 * qc - 0.05 * i + 0.13 * j
            a[i, j] = np.exp(-((rr - r0) ** 2) / 3.0 - ((cc - c0) ** 2) / 7.0) + 1e-3
    elif kind == "delta":
        # single hot pixel per pattern: CoM is exactly that pixel
        a = np.full(shape, 0.0)
        sr, sc, qr, qc = shape
        for i, j in itertools.product(range(sr), range(sc)):
            a[i, j, (i * 3 + j) % qr, (i + 2 * j) % qc] = 2.5
    else:
        raise ValueError(kind)
    return a.astype(np.float32)


def check_shape(rng, shape, kind):
    a = make_data(rng, shape, kind)
    ref = oracle(a)
    num = shape[0] * shape[1]

    results = {}
    for bs in [None] + list(range(1, num + 1)):
        new = CenterOfMassOriginModel.from_dataset(Dataset.from_array(a.copy()))
        ret = new.calculate_origin(max_batch_size=bs)
        assert ret is new
        old = CenterOfMassOriginModel.from_dataset(Dataset.from_array(a.copy()))
        original_calculate_origin(old, max_batch_size=bs)

        got = new.origin_measured
        assert got.shape == (num, 2) and got.dtype == torch.float32
        assert old.origin_measured.shape == got.shape
        # old == new, bit for bit
        assert torch.equal(got, old.origin_measured), (shape, kind, bs)
        # exactness vs float64 oracle (row first, then column)
        np.testing.assert_allclose(got.numpy().astype(np.float64), ref, rtol=0, atol=2e-4)
        # input untouched
        assert np.array_equal(new.dataset.array, a)
        results[bs] = got.numpy().copy()

    # batch invariance
    base = results[None]
    for bs, val in results.items():
        np.testing.assert_allclose(val, base, rtol=0, atol=1e-5)

    # agreement with the ptychography dataset model, both code paths
    for vectorised in (True, False):
        pd = PtychographyDatasetRaster.from_array(
            a.copy(), units=["A", "A", "A^-1", "A^-1"], verbose=0
        )
        pd._set_intensities_com(
            pd.intensities_4d, fit_function="none", vectorized_calculation=vectorised
        )
        cm = np.asarray(pd.com_measured)  # (2, sr, sc)
        assert cm.shape == (2, shape[0], shape[1])
        np.testing.assert_allclose(
            np.moveaxis(cm, 0, -1).reshape(num, 2).astype(np.float64), ref, rtol=0, atol=2e-4
        )
        np.testing.assert_allclose(
            np.moveaxis(cm, 0, -1).reshape(num, 2), base, rtol=0, atol=2e-4
        )


def check_3d_and_repeat(rng):
    # 3-D stack of patterns (num_dps = leading dim), repeated calls with different batch sizes
    a = (rng.random((7, 6, 9)) + 0.1).astype(np.float32)
    ref = oracle(a[None])
    m = CenterOfMassOriginModel.from_dataset(Dataset.from_array(a.copy()))
    o = CenterOfMassOriginModel.from_dataset(Dataset.from_array(a.copy()))
    for bs in (3, 7, 1, None, 100):
        m.calculate_origin(bs)
        original_calculate_origin(o, bs)
        assert torch.equal(m.origin_measured, o.origin_measured)
        np.testing.assert_allclose(m.origin_measured.numpy(), ref, rtol=0, atol=2e-4)


def check_zero_pattern(rng):
    # an all-zero pattern gives 0/0 = nan in that row only, identically old and new
    a = (rng.random((2, 3, 4, 5)) + 0.1).astype(np.float32)
    a[1, 1] = 0.0
    m = CenterOfMassOriginModel.from_dataset(Dataset.from_array(a.copy())).calculate_origin(4)
    o = CenterOfMassOriginModel.from_dataset(Dataset.from_array(a.copy()))
    original_calculate_origin(o, 4)
    nn, no = m.origin_measured.numpy(), o.origin_measured.numpy()
    assert np.array_equal(np.isnan(nn), np.isnan(no))
    assert np.isnan(nn[4]).all() and np.isnan(nn).sum() == 2
    assert np.array_equal(nn[~np.isnan(nn)], no[~np.isnan(no)])


def check_bad_batch(rng):
    a = (rng.random((2, 2, 3, 4)) + 0.1).astype(np.float32)
    for bad in (0,):
        errs = []
        for fn in (
            lambda m: m.calculate_origin(bad),
            lambda m: original_calculate_origin(m, bad),
        ):
            m = CenterOfMassOriginModel.from_dataset(Dataset.from_array(a.copy()))
            try:
                fn(m)
                errs.append(None)
            except Exception as e:  # noqa: BLE001
                errs.append(type(e))
            assert m.origin_measured is None or errs[-1] is None
        assert errs[0] is errs[1], errs


def main():
    torch.manual_seed(0)
    rng = np.random.default_rng(1234)
    shapes = [(2, 3, 5, 8), (3, 2, 9, 4), (1, 5, 6, 7), (4, 1, 3, 11), (1, 1, 2, 3), (2, 2, 1, 6)]
    for shape in shapes:
        for kind in ("random", "blob", "delta"):
            check_shape(rng, shape, kind)
    # one larger case (multi-threaded reductions)
    check_shape(rng, (3, 4, 96, 130), "random")
    check_3d_and_repeat(rng)
    check_zero_pattern(rng)
    check_bad_batch(rng)
    print("PASS")


if __name__ == "__main__":
    main()
