"""Old-vs-new equivalence demo for property C02 (ptychography forward pipeline).

Embeds verbatim copies of the ORIGINAL implementations of the five edited functions and
asserts that the library's current implementation returns bit-identical results (same
dtype, shape, values, exception type and message) on a spread of inputs relevant to the
forward model: ROI shapes incl. non-square, 1..3 probe modes, batch sizes, fractional
positions, padding, all loss types.  Also checks each against an independent numpy
reference where that is cheap.  CPU only, no files written.
"""

from types import SimpleNamespace
from typing import Literal

import numpy as np
import torch

from quantem.core.utils import array_funcs as af
from quantem.diffractive_imaging import ptycho_utils
from quantem.diffractive_imaging.dataset_models import PtychographyDatasetBase
from quantem.diffractive_imaging.detector_models import DetectorPixelated
from quantem.diffractive_imaging.ptycho_utils import fourier_translation_operator
from quantem.diffractive_imaging.ptychography_base import PtychographyBase

torch.manual_seed(0)
torch.set_num_threads(1)
RNG = np.random.default_rng(1234)


# --------------------------------------------------------------------------------------
# verbatim ORIGINALS
# --------------------------------------------------------------------------------------
def ORIG_detector_forward(self, exit_waves: torch.Tensor) -> torch.Tensor:
    """
    Exit waves to measured intensities
    """
    # exit_waves shape: (nprobes, batch_size, roi_shape[0], roi_shape[1])
    # incoherent sum of all probe components
    exit_fft = torch.fft.fft2(exit_waves, norm="ortho")
    intensities = torch.sum(torch.abs(exit_fft) ** 2, dim=0)
    return torch.fft.fftshift(intensities, dim=(-2, -1))  # detector centering


def ORIG_set_patch_indices(self, obj_padding_px) -> None:
    """Set the _patch_indices based on self.scan_positions_px"""
    obj_shape = self._obj_shape_full_2d(obj_padding_px)
    r0 = torch.round(self.scan_positions_px[:, 0]).type(torch.int32)
    c0 = torch.round(self.scan_positions_px[:, 1]).type(torch.int32)

    x_ind = torch.fft.fftfreq(self.roi_shape[0], d=1 / self.roi_shape[0]).to(self.device)
    y_ind = torch.fft.fftfreq(self.roi_shape[1], d=1 / self.roi_shape[1]).to(self.device)

    # Process positions in chunks to reduce memory usage
    chunk_size = min(1000, len(r0))
    patch_indices_list = []

    for i in range(0, len(r0), chunk_size):
        end_idx = min(i + chunk_size, len(r0))
        r0_chunk = r0[i:end_idx]
        c0_chunk = c0[i:end_idx]

        row_chunk = (r0_chunk[:, None, None] + x_ind[None, :, None]) % obj_shape[-2]
        col_chunk = (c0_chunk[:, None, None] + y_ind[None, None, :]) % obj_shape[-1]

        patch_indices_chunk = (row_chunk * obj_shape[-1] + col_chunk).type(torch.int32)
        patch_indices_list.append(patch_indices_chunk)

    self._patch_indices = torch.cat(patch_indices_list, dim=0)
    self._last_patch_positions_px = self.scan_positions_px.clone()


def ORIG_propagate_array(self, array, propagator_array):
    propagated = torch.fft.ifft2(torch.fft.fft2(array) * propagator_array)
    return propagated


def ORIG_fourier_shift_expand(array, positions, expand_dim: bool = True):
    """Fourier-shift array by flat array of positions."""
    # the ramp must stay complex: casting it to a real array dtype would keep only its cosine part
    phase = fourier_translation_operator(
        positions, array.shape, expand_dim, dtype=array.dtype if af.is_complex(array) else None
    )
    fourier_array = af.fft2(array)
    shifted_fourier_array = fourier_array * phase
    shifted_array = af.ifft2(shifted_fourier_array)
    if af.is_complex(array):
        return shifted_array
    else:
        return shifted_array.real


def ORIG_error_estimate(
    self,
    pred_intensities: torch.Tensor,
    batch_indices: np.ndarray,
    loss_type: Literal[
        "l2_amplitude", "l1_amplitude", "l2_intensity", "l1_intensity", "poisson"
    ] = "l2_amplitude",
):
    targets = self.dset.targets[batch_indices]
    if "amplitude" in loss_type:
        preds = torch.sqrt(pred_intensities + 1e-9)  # add eps to avoid diverging gradients
    else:
        preds = pred_intensities

    diff = preds * self.dset.detector_mask - targets * self.dset.detector_mask
    if "l1" in loss_type:
        error = torch.sum(torch.abs(diff)) / (diff.shape[0] / self.dset.num_gpts)
    elif "l2" in loss_type:
        error = torch.sum(torch.abs(diff) ** 2) / (diff.shape[0] / self.dset.num_gpts)
    elif loss_type == "poisson":
        error = torch.sum(preds - targets * torch.log(preds + 1e-6))
    else:
        raise ValueError(f"Unknown loss type {loss_type}, should be 'l1' or 'l2'")
    loss = error / self.dset.mean_diffraction_intensity
    return loss, targets


# --------------------------------------------------------------------------------------
# helpers
# --------------------------------------------------------------------------------------
def same(a, b, what):
    """bit-for-bit equality of two tensors / arrays (dtype, shape, raw bytes)."""
    assert type(a) is type(b), (what, type(a), type(b))
    if isinstance(a, torch.Tensor):
        assert a.dtype == b.dtype, (what, a.dtype, b.dtype)
        assert a.shape == b.shape, (what, a.shape, b.shape)
        assert a.device == b.device, what
        a, b = a.detach().contiguous().numpy(), b.detach().contiguous().numpy()
    else:
        assert a.dtype == b.dtype, (what, a.dtype, b.dtype)
        assert a.shape == b.shape, (what, a.shape, b.shape)
    assert np.ascontiguousarray(a).tobytes() == np.ascontiguousarray(b).tobytes(), what


def crandn(*shape, dtype=torch.complex64):
    real = torch.float32 if dtype == torch.complex64 else torch.float64
    return torch.complex(torch.randn(*shape, dtype=real), torch.randn(*shape, dtype=real))


ROI_SHAPES = [(8, 8), (12, 16), (16, 12), (7, 9), (32, 32), (5, 24)]
COUNT = {"n": 0}


# --------------------------------------------------------------------------------------
# 1. detector
# --------------------------------------------------------------------------------------
def check_detector():
    det = DetectorPixelated()
    for roi in ROI_SHAPES:
        for nprobes in (1, 2, 3):
            for batch in (1, 3, 17):
                for dtype in (torch.complex64, torch.complex128):
                    ew = crandn(nprobes, batch, *roi, dtype=dtype)
                    new = det.forward(ew)
                    old = ORIG_detector_forward(det, ew)
                    same(old, new, f"detector {roi} {nprobes} {batch} {dtype}")
                    # independent numpy reference
                    ref = np.fft.fftshift(
                        (np.abs(np.fft.fft2(ew.numpy(), norm="ortho")) ** 2).sum(0), axes=(-2, -1)
                    )
                    tol = 1e-4 if dtype == torch.complex64 else 1e-10
                    assert np.allclose(new.numpy(), ref, rtol=tol, atol=tol * ref.max())
                    COUNT["n"] += 1
    # gradient flows identically
    ew = crandn(2, 4, 8, 10).requires_grad_(True)
    (g_new,) = torch.autograd.grad(det.forward(ew).sum(), ew)
    (g_old,) = torch.autograd.grad(ORIG_detector_forward(det, ew).sum(), ew)
    same(g_old, g_new, "detector grad")


# --------------------------------------------------------------------------------------
# 2. patch indices
# --------------------------------------------------------------------------------------
def make_dset_stub(positions, roi, rot_shape):
    stub = SimpleNamespace()
    stub._obj_shape_rot_2d = np.asarray(rot_shape)
    stub._obj_shape_full_2d = lambda pad: PtychographyDatasetBase._obj_shape_full_2d(stub, pad)
    stub.scan_positions_px = positions
    stub.roi_shape = np.asarray(roi)
    stub.device = "cpu"
    return stub


def check_patch_indices():
    for roi in ROI_SHAPES:
        for npos in (1, 5, 37, 1000, 2311):
            for pad in ((0, 0), (3, 5), np.array([8, 2])):
                rot_shape = (roi[0] + int(RNG.integers(0, 40)), roi[1] + int(RNG.integers(0, 40)))
                full = np.asarray(rot_shape) + 2 * np.asarray(pad)
                pos = torch.tensor(
                    RNG.uniform(-4.0, float(full.max()) + 4.0, size=(npos, 2)),
                    dtype=torch.float32,
                )
                # include exact half-integers (round-half-even) and integers
                pos[: min(npos, 3)] = torch.round(pos[: min(npos, 3)]) + 0.5
                s_new = make_dset_stub(pos, roi, rot_shape)
                s_old = make_dset_stub(pos.clone(), roi, rot_shape)
                PtychographyDatasetBase._set_patch_indices(s_new, pad)
                ORIG_set_patch_indices(s_old, pad)
                same(s_old._patch_indices, s_new._patch_indices, f"patch idx {roi} {npos} {pad}")
                same(s_old._last_patch_positions_px, s_new._last_patch_positions_px, "last pos")
                assert s_new._patch_indices.dtype == torch.int32
                assert s_new._patch_indices.shape == (npos, roi[0], roi[1])
                # independent numpy reference (periodic, fftfreq ordered)
                r0 = np.round(pos.numpy()[:, 0]).astype(int)
                c0 = np.round(pos.numpy()[:, 1]).astype(int)
                xi = np.fft.fftfreq(roi[0], d=1 / roi[0]).round().astype(int)
                yi = np.fft.fftfreq(roi[1], d=1 / roi[1]).round().astype(int)
                row = (r0[:, None, None] + xi[None, :, None]) % full[0]
                col = (c0[:, None, None] + yi[None, None, :]) % full[1]
                assert np.array_equal(s_new._patch_indices.numpy(), row * full[1] + col)
                COUNT["n"] += 1


# --------------------------------------------------------------------------------------
# 3. propagation
# --------------------------------------------------------------------------------------
def check_propagate():
    stub = SimpleNamespace()
    for roi in ROI_SHAPES:
        for nprobes in (1, 3):
            for batch in (1, 6):
                for dtype in (torch.complex64, torch.complex128):
                    arr = crandn(nprobes, batch, *roi, dtype=dtype)
                    kx = torch.fft.fftfreq(roi[0], d=0.3)
                    ky = torch.fft.fftfreq(roi[1], d=0.4)
                    k2 = kx[:, None] ** 2 + ky[None, :] ** 2
                    for dz in (0.0, 2.5, 17.0):
                        prop = torch.exp(-1.0j * np.pi * 0.0197 * dz * k2).to(dtype)
                        new = PtychographyBase._propagate_array(stub, arr, prop)
                        old = ORIG_propagate_array(stub, arr, prop)
                        same(old, new, f"propagate {roi} {nprobes} {batch} {dtype} {dz}")
                        if dz == 0.0:
                            tol = 1e-5 if dtype == torch.complex64 else 1e-12
                            assert torch.allclose(new, arr, rtol=tol, atol=tol)
                        COUNT["n"] += 1
    # real input, broadcasting propagator stack
    arr = torch.randn(2, 3, 8, 8)
    prop = crandn(3, 8, 8)
    same(
        ORIG_propagate_array(stub, arr, prop),
        PtychographyBase._propagate_array(stub, arr, prop),
        "propagate real",
    )


# --------------------------------------------------------------------------------------
# 4. Fourier sub-pixel shift
# --------------------------------------------------------------------------------------
def check_fourier_shift():
    new_f = ptycho_utils.fourier_shift_expand
    for roi in ROI_SHAPES:
        for nprobes in (1, 3):
            for npos in (1, 7):
                pos_np = RNG.uniform(-0.5, 0.5, size=(npos, 2)).astype(np.float32)
                pos_np[0] = (1.0, -2.0)  # integer shift -> circular roll
                for expand in (True, False):
                    shape = (nprobes, *roi) if expand else (npos, *roi)
                    re = RNG.standard_normal(shape)
                    im = RNG.standard_normal(shape)
                    cases = {
                        "c64": (re + 1j * im).astype(np.complex64),
                        "c128": (re + 1j * im).astype(np.complex128),
                        "f32": re.astype(np.float32),
                        "f64": re.astype(np.float64),
                    }
                    for name, arr in cases.items():
                        tag = f"shift {roi} {nprobes} {npos} {expand} {name}"
                        # numpy backend
                        new = new_f(arr, pos_np, expand)
                        old = ORIG_fourier_shift_expand(arr, pos_np, expand)
                        same(old, new, "np " + tag)
                        assert np.iscomplexobj(new) == np.iscomplexobj(arr), tag
                        # torch backend
                        t_arr, t_pos = torch.from_numpy(arr), torch.from_numpy(pos_np)
                        new_t = new_f(t_arr, t_pos, expand)
                        old_t = ORIG_fourier_shift_expand(t_arr, t_pos, expand)
                        same(old_t, new_t, "torch " + tag)
                        assert new_t.is_complex() == t_arr.is_complex(), tag
                        # integer shift of the first position is a circular roll
                        src = arr if expand else arr[0]
                        got = new[0]
                        ref = np.roll(src, (1, -2), axis=(-2, -1))
                        tol = 2e-4 if name in ("c64", "f32") else 1e-5
                        assert np.allclose(got, ref, atol=tol), tag
                        COUNT["n"] += 1


# --------------------------------------------------------------------------------------
# 5. loss
# --------------------------------------------------------------------------------------
def check_error_estimate():
    for roi in ROI_SHAPES:
        for num_gpts in (1, 9, 40):
            targets_all = torch.rand(num_gpts, *roi, dtype=torch.float32) * 3.0
            mask = (torch.rand(*roi) > 0.2).to(torch.float32)
            for use_mask in (False, True):
                dset = SimpleNamespace(
                    targets=targets_all,
                    detector_mask=mask if use_mask else torch.ones(*roi),
                    num_gpts=num_gpts,
                    mean_diffraction_intensity=float(RNG.uniform(0.5, 500.0)),
                )
                stub = SimpleNamespace(dset=dset)
                for batch in sorted({1, min(4, num_gpts), num_gpts}):
                    idx = RNG.permutation(num_gpts)[:batch]
                    for idx_kind in (idx, torch.from_numpy(idx)):
                        pred = (torch.rand(batch, *roi) * 9.0).requires_grad_(True)
                        for lt in (
                            "l2_amplitude",
                            "l1_amplitude",
                            "l2_intensity",
                            "l1_intensity",
                            "poisson",
                        ):
                            l_new, t_new = PtychographyBase.error_estimate(stub, pred, idx_kind, lt)
                            l_old, t_old = ORIG_error_estimate(stub, pred, idx_kind, lt)
                            same(l_old, l_new, f"loss {roi} {num_gpts} {batch} {lt}")
                            same(t_old, t_new, "targets")
                            (g_new,) = torch.autograd.grad(l_new, pred)
                            (g_old,) = torch.autograd.grad(l_old, pred)
                            same(g_old, g_new, "loss grad " + lt)
                            COUNT["n"] += 1
                        # default loss type
                        same(
                            ORIG_error_estimate(stub, pred, idx_kind)[0],
                            PtychographyBase.error_estimate(stub, pred, idx_kind)[0],
                            "default loss",
                        )
                        # property: zero loss at the ground truth, larger away from it
                        tb = targets_all[idx_kind] * dset.detector_mask
                        for lt, exact in (("l2_intensity", tb), ("l1_intensity", tb)):
                            l0, _ = PtychographyBase.error_estimate(stub, exact, idx_kind, lt)
                            l1, _ = PtychographyBase.error_estimate(stub, exact + 0.1, idx_kind, lt)
                            assert float(l0) == 0.0 and float(l1) > 0.0, (lt, float(l0))
                        for lt in ("l2_amplitude", "l1_amplitude"):
                            l0, _ = PtychographyBase.error_estimate(stub, tb**2, idx_kind, lt)
                            l1, _ = PtychographyBase.error_estimate(
                                stub, (tb + 0.1) ** 2, idx_kind, lt
                            )
                            assert float(l0) < 1e-3 * float(l1), (lt, float(l0), float(l1))
    # unknown loss type: same exception type and message
    stub = SimpleNamespace(
        dset=SimpleNamespace(
            targets=torch.rand(4, 8, 8),
            detector_mask=torch.ones(8, 8),
            num_gpts=4,
            mean_diffraction_intensity=2.0,
        )
    )
    for bad in ("huber", "", "L2_AMPLITUDE", "amplitude"):
        msgs = []
        for f in (PtychographyBase.error_estimate, ORIG_error_estimate):
            try:
                f(stub, torch.rand(2, 8, 8), np.array([0, 1]), bad)
            except ValueError as e:
                msgs.append(str(e))
            else:
                raise AssertionError(f"no error for loss type {bad!r}")
        assert msgs[0] == msgs[1], msgs


if __name__ == "__main__":
    check_detector()
    check_patch_indices()
    check_propagate()
    check_fourier_shift()
    check_error_estimate()
    print(f"OK: {COUNT['n']} old-vs-new comparisons bit-identical")
