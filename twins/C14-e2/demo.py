"""Demo for C14 patch 2: _recursive_save attribute filter as lazy generator + _attribute_items helper."""
import contextlib
import gzip
import io
import json
import os
import shutil
import sys
import tempfile
from pathlib import Path
from typing import AbstractSet, Any, Literal, Sequence, Union, cast
from zipfile import ZipFile

import dill
import numpy as np
import torch
import zarr
from zarr.storage import LocalStore

import quantem.core.io.serialize as ser
from quantem.core.io.serialize import AutoSerialize, load

# ---------------------------------------------------------------------------
# VERBATIM copies of the ORIGINAL (pre-refactoring) functions, renamed orig_*
# ---------------------------------------------------------------------------

def orig_recursive_save(
    self,
    obj,
    group: zarr.Group,
    skip_names: set[str] = set(),
    skip_types: tuple[type, ...] = (),
    compressors=None,
) -> None:
    # Store class identity and version metadata at group root if not already set
    if "_autoserialize" not in group.attrs:
        group.attrs["_autoserialize"] = {
            "version": 1,
            "class_module": obj.__class__.__module__,
            "class_name": obj.__class__.__qualname__,
        }

    # Support both attrs and plain Python classes
    attrs_fields = getattr(obj.__class__, "__attrs_attrs__", None)
    if attrs_fields is not None:
        items = [(field.name, getattr(obj, field.name)) for field in attrs_fields]
    else:
        items = obj.__dict__.items()

    for attr_name, attr_value in items:
        # Skip any attributes matching names/types in skip lists
        if attr_name in skip_names or isinstance(attr_value, skip_types):
            continue

        # Use unified serialization method
        self._serialize_value(
            attr_value, group, attr_name, skip_names, skip_types, compressors
        )


# ---------------------------------------------------------------------------
# Shared harness: object graph, snapshots, pruning, tree comparison
# ---------------------------------------------------------------------------


class Leaf(AutoSerialize):
    def __init__(self, seed):
        rng = np.random.default_rng(seed)
        self.data = rng.normal(size=(3, 5))  # non-square float64
        self.label = f"leaf{seed}"
        self.count = seed
        self.flag = bool(seed % 2)
        self.weights = torch.arange(7, dtype=torch.float32) * seed
        self.shape_info = (3, 5)
        self.meta = {"a": 1, "b": "x"}


class Mid(AutoSerialize):
    def __init__(self, seed):
        self.leaf = Leaf(seed + 1)
        self.data = np.arange(4, dtype=np.int16).reshape(1, 4)
        self.label = "mid"
        self.ratio = 0.25
        self.empty = np.zeros((0, 3))


class Top(AutoSerialize):
    def __init__(self):
        self.mid = Mid(10)
        self.leaf = Leaf(1)
        self.data = (np.arange(6).reshape(2, 3, 1) * (1 + 2j)).astype(np.complex64)
        self.label = "top"
        self.count = 3
        self.where = Path("some") / "where"
        self.tags = ["a", "b", 3]
        self.none_val = None
        self.tensor = torch.ones(2, 3, dtype=torch.float64)


def snap(v):
    """Canonical, comparable snapshot of a loaded value (recursive)."""
    if AutoSerialize._is_autoserialize_instance(v):
        return ("obj", type(v).__module__, type(v).__qualname__,
                {k: snap(x) for k, x in sorted(vars(v).items())})
    if isinstance(v, torch.Tensor):
        a = v.detach().cpu().numpy()
        return ("tensor", str(v.dtype), tuple(v.shape), bool(v.requires_grad), a.tobytes())
    if isinstance(v, np.ndarray):
        return ("ndarray", str(v.dtype), tuple(v.shape), np.ascontiguousarray(v).tobytes())
    if isinstance(v, np.generic):
        return ("npscalar", str(v.dtype), v.item())
    if isinstance(v, (list, tuple)):
        return (type(v).__name__, [snap(x) for x in v])
    if isinstance(v, set):
        return ("set", sorted(repr(snap(x)) for x in v))
    if isinstance(v, dict):
        return ("dict", {str(k): snap(x) for k, x in sorted(v.items(), key=lambda kv: str(kv[0]))})
    if isinstance(v, Path):
        return ("path", str(v))
    if isinstance(v, (int, float, str, bool, type(None))):
        return (type(v).__name__, v)
    if isinstance(v, torch.optim.Optimizer):
        return ("optim", type(v).__name__, repr(v.state_dict()["param_groups"]),
                [snap(p) for g in v.param_groups for p in g["params"]])
    if hasattr(v, "step") and hasattr(v, "get_last_lr"):
        return ("sched", type(v).__name__, repr(sorted(
            (k, repr(x)) for k, x in v.state_dict().items())))
    if isinstance(v, torch.nn.Module):
        return ("module", type(v).__name__,
                {k: snap(t) for k, t in v.state_dict().items()})
    return ("other", type(v).__name__, repr(v))


def prune(obj, names=(), types=()):
    """Expected snapshot: drop skipped names / instances of skipped types at every object level."""
    assert AutoSerialize._is_autoserialize_instance(obj)
    out = {}
    for k, x in sorted(vars(obj).items()):
        if k in names or (types and isinstance(x, tuple(types))):
            continue
        if AutoSerialize._is_autoserialize_instance(x):
            out[k] = prune(x, names, types)
        else:
            out[k] = snap(x)
    return ("obj", type(obj).__module__, type(obj).__qualname__, out)


def all_names(s, acc=None):
    """All attribute names appearing at any object level of snapshot s."""
    acc = set() if acc is None else acc
    if isinstance(s, tuple) and s and s[0] == "obj":
        for k, x in s[3].items():
            acc.add(k)
            all_names(x, acc)
    return acc


def read_tree(path):
    """Relative file name -> bytes for a saved dir store or a zip archive."""
    path = str(path)
    out = {}
    if os.path.isdir(path):
        for dp, _, fns in os.walk(path):
            for fn in fns:
                full = os.path.join(dp, fn)
                with open(full, "rb") as fh:
                    out[os.path.relpath(full, path)] = fh.read()
    else:
        with ZipFile(path, "r") as zf:
            for n in zf.namelist():
                out[n] = zf.read(n)
    return out


def _canon_file(name, data):
    if os.path.basename(name) == "zarr.json":
        d = json.loads(data)
        att = d.get("attributes", {})
        if "_autoserialize_skip_names" in att:
            att["_autoserialize_skip_names"] = sorted(att["_autoserialize_skip_names"])
        return json.dumps(d, sort_keys=False)
    return data


def assert_same_tree(p1, p2, what=""):
    t1, t2 = read_tree(p1), read_tree(p2)
    assert sorted(t1) == sorted(t2), f"{what}: file sets differ: {sorted(set(t1) ^ set(t2))}"
    for n in t1:
        assert _canon_file(n, t1[n]) == _canon_file(n, t2[n]), f"{what}: content differs in {n}"


def root_attrs(path):
    """Root group attributes of a saved dir store or zip archive."""
    t = read_tree(path)
    return json.loads(t["zarr.json"])["attributes"]


def quiet(fn, *a, **k):
    """Call fn with stdout captured; returns (result, captured_text)."""
    buf = io.StringIO()
    with contextlib.redirect_stdout(buf):
        r = fn(*a, **k)
    return r, buf.getvalue()


# ---------------------------------------------------------------------------
# Demo body (patch 2)
# ---------------------------------------------------------------------------
import attrs

NEW_RECURSIVE_SAVE = AutoSerialize.__dict__["_recursive_save"]


@contextlib.contextmanager
def original_recursive_save():
    """Temporarily install the verbatim ORIGINAL _recursive_save on AutoSerialize."""
    AutoSerialize._recursive_save = orig_recursive_save
    try:
        yield
    finally:
        AutoSerialize._recursive_save = NEW_RECURSIVE_SAVE


def call_rs(which, obj, group, *a, **k):
    """Run the new or the ORIGINAL _recursive_save (also for the nested objects) on obj."""
    if which == "orig":
        with original_recursive_save():
            return orig_recursive_save(obj, obj, group, *a, **k)
    return NEW_RECURSIVE_SAVE(obj, obj, group, *a, **k)


@attrs.define(slots=False, eq=False)
class AttrsNode(AutoSerialize):
    image: np.ndarray
    label: str
    count: int
    leaf: Leaf
    origin: tuple = (0.5, 1.5)
    weights: torch.Tensor = attrs.field(factory=lambda: torch.zeros(2, 1))


class Holder(AutoSerialize):
    def __init__(self):
        self.node = AttrsNode(np.arange(10.0).reshape(5, 2), "node", 4, Leaf(3))
        self.label = "holder"
        self.data = np.ones((1, 7), dtype=np.float32)


class Unpicklable:
    def __reduce__(self):
        raise RuntimeError("cannot pickle me")


class Broken(AutoSerialize):
    def __init__(self):
        self.a = 1
        self.b = np.arange(3)
        self.c = Unpicklable()
        self.d = "after"


LOG = []


class Recording(type):
    """Metaclass whose isinstance() checks are logged (to observe evaluation order)."""

    def __instancecheck__(cls, inst):
        LOG.append(("isinstance", type(inst).__name__))
        return type.__instancecheck__(cls, inst)


class Marker(metaclass=Recording):
    pass


class WithMarker(AutoSerialize):
    def __init__(self):
        self.first = 1
        self.second = np.zeros((2, 2))
        self.third = "skipme"
        self.fourth = [1, 2]
        self.child = Leaf(2)


def group_listing(g, prefix=""):
    """Full recursive listing of a zarr group: attrs, arrays (dtype/shape/bytes), subgroups."""
    out = {prefix + "@attrs": json.dumps(dict(g.attrs), sort_keys=True, default=str)}
    for k in sorted(g.array_keys()):
        a = g[k]
        val = a[()] if a.ndim == 0 else a[:]
        out[prefix + k] = (str(a.dtype), tuple(a.shape), np.asarray(val).tobytes())
    for k in sorted(g.group_keys()):
        out.update(group_listing(g[k], prefix + k + "/"))
    return out


NAME_SUBSETS = [
    "label",
    ["data", "leaf"],
    ["weights", "meta", "nonexistent", "count", "image"],
    ("mid", "where", "tags", "none_val", "node"),
]
TYPE_LISTS = [
    [np.ndarray],
    [torch.Tensor, Leaf],
    [tuple, list, str, "data"],
    AttrsNode,
]
EXTS = (".zip", "")


def as_lists(skip):
    if isinstance(skip, (str, type)):
        skip = [skip]
    skip = list(skip)
    return [s for s in skip if isinstance(s, str)], [s for s in skip if isinstance(s, type)]


def expect_raises(exc, fn, *a, **k):
    try:
        quiet(fn, *a, **k)
    except exc:
        return
    raise AssertionError(f"expected {exc.__name__}")


def main():
    with tempfile.TemporaryDirectory() as td:
        td = Path(td)
        n = 0

        def fresh(ext):
            nonlocal n
            n += 1
            return td / f"f{n}{ext}"

        for gi, graph in enumerate((Top(), Holder())):
            p_full, full = {}, {}
            for ext in EXTS:
                p_full[ext] = fresh(ext)
                graph.save(p_full[ext])
                full[ext] = load(p_full[ext])
                assert snap(full[ext]) == prune(full[ext])
            assert snap(full[".zip"]) == snap(full[""])
            if gi == 1:
                node = full[""].node
                assert isinstance(node, AttrsNode) and node.origin == (0.5, 1.5)
                assert sorted(vars(node)) == ["count", "image", "label", "leaf", "origin", "weights"]
                p_old = fresh("")
                with original_recursive_save():
                    graph.save(p_old)
                assert_same_tree(p_old, p_full[""], "full attrs graph")

            for i, S in enumerate(NAME_SUBSETS + TYPE_LISTS):
                names, types = as_lists(S)
                ext = EXTS[(i + gi) % 2]
                expected = prune(full[ext], names=set(names), types=types)
                p = fresh(ext)
                graph.save(p, skip=S)
                got = snap(load(p))
                assert got == expected, f"save-time skip {S!r} graph {gi} ({ext or 'dir'})"
                assert not (all_names(got) & set(names))
                if not types:
                    # load-time skipping by name gives the same object
                    assert snap(load(p_full[ext], skip=S)) == expected
                # old vs new: identical files
                p_old = fresh(ext)
                with original_recursive_save():
                    graph.save(p_old, skip=S)
                assert_same_tree(p_old, p, f"skip {S!r} graph {gi}")

        # ---- direct calls on in-memory groups: defaults, partial writes on failure ----
        for obj, kwargs in [
            (Leaf(5), {}),
            (Leaf(5), {"skip_names": {"data", "meta"}}),
            (Leaf(5), {"skip_types": (np.ndarray, dict)}),
            (Holder(), {"skip_names": {"label"}, "skip_types": (torch.Tensor,)}),
            (Holder().node, {"skip_names": {"leaf", "origin"}}),
        ]:
            g_new, g_old = zarr.group(), zarr.group()
            call_rs("new", obj, g_new, **kwargs)
            call_rs("orig", obj, g_old, **kwargs)
            assert group_listing(g_new) == group_listing(g_old), f"direct call {kwargs}"
            for nm in kwargs.get("skip_names", ()):
                assert nm not in g_new.attrs and nm not in set(g_new.array_keys()) | set(
                    g_new.group_keys()
                )

        # pre-existing class metadata in the group is kept by both versions
        g_new, g_old = zarr.group(), zarr.group()
        for g in (g_new, g_old):
            g.attrs["_autoserialize"] = {"version": 1, "class_module": "m", "class_name": "K"}
        call_rs("new", Leaf(1), g_new)
        call_rs("orig", Leaf(1), g_old)
        assert group_listing(g_new) == group_listing(g_old)
        assert g_new.attrs["_autoserialize"]["class_name"] == "K"

        b = Broken()
        listings = []
        for which in ("new", "orig"):
            g = zarr.group()
            expect_raises(RuntimeError, call_rs, which, b, g)
            listings.append(group_listing(g))
            # attributes before the failing one were already written, later ones were not
            assert g.attrs["a"] == 1 and "b" in set(g.array_keys()) and "d" not in g.attrs
        assert listings[0] == listings[1]
        for which in ("new", "orig"):
            g = zarr.group()
            call_rs(which, b, g, {"c"})
            assert g.attrs["d"] == "after" and "c" not in set(g.array_keys())
            g = zarr.group()
            call_rs(which, b, g, set(), (Unpicklable,))
            assert g.attrs["d"] == "after" and "c" not in set(g.array_keys())
        for ext in EXTS:
            p = fresh(ext)
            expect_raises(RuntimeError, b.save, p)
            assert not os.path.exists(p)
            b.save(p, skip=Unpicklable)
            assert sorted(vars(load(p))) == ["a", "b", "d"]

        # ---- evaluation order of the filter relative to the writes is unchanged ----
        w = WithMarker()
        traces = []
        real_serialize_value = AutoSerialize._serialize_value

        def traced(self, value, group, name, *a, **k):
            LOG.append(("write", name))
            return real_serialize_value(self, value, group, name, *a, **k)

        AutoSerialize._serialize_value = traced
        try:
            for which in ("new", "orig"):
                LOG.clear()
                g = zarr.group()
                call_rs(which, w, g, {"third"}, (Marker,))
                traces.append(list(LOG))
        finally:
            AutoSerialize._serialize_value = real_serialize_value
        assert traces[0] == traces[1], "filter/write interleaving changed"
        assert ("write", "third") not in traces[0]
        assert traces[0][:4] == [("isinstance", "int"), ("write", "first"),
                                 ("isinstance", "ndarray"), ("write", "second")]
        # a name hit short-circuits the type check
        assert traces[0][4] == ("isinstance", "list")

    print("PASS")


if __name__ == "__main__":
    main()
