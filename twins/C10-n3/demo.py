"""C10 demo: object / probe constraints yield physically admissible models.

Embeds verbatim copies of the ORIGINAL (worktree HEAD) implementations of

  * diffractive_imaging.object_models.ObjectConstraints.apply_hard_constraints
  * diffractive_imaging.probe_models.ProbeConstraints._probe_orthogonalization_constraint
  * diffractive_imaging.probe_models.ProbePixelated._apply_weights

and asserts that the implementation found on PYTHONPATH returns bit-for-bit identical
results (same dtype, shape and bytes, identical exceptions) over a spread of inputs, and
additionally asserts the C10 property itself on the filter-free configurations.

Run as: PYTHONPATH=<root>/src /venv/bin/python demo.py
"""

import itertools
import warnings

import numpy as np
import torch

from quantem.diffractive_imaging.object_models import ObjectPixelated
from quantem.diffractive_imaging.probe_models import ProbePixelated

warnings.filterwarnings("ignore")
torch.manual_seed(0)
torch.set_num_threads(1)


# --------------------------------------------------------------------------------------
# verbatim copies of the ORIGINAL functions (only de-indented)
# --------------------------------------------------------------------------------------
def orig_apply_hard_constraints(
    self, obj: torch.Tensor, mask: torch.Tensor | None = None
) -> torch.Tensor:
    if self.obj_type in ["complex", "pure_phase"]:
        if self.obj_type == "complex":
            amp = torch.clamp(torch.abs(obj), 0.0, 1.0)
        else:
            amp = 1.0
        phase = obj.angle() - obj.angle().mean()
        if mask is not None and self.constraints["apply_fov_mask"]:
            obj2 = amp * mask * torch.exp(1.0j * phase * mask)
        else:
            obj2 = amp * torch.exp(1.0j * phase)
    else:  # potential
        if self.constraints["fix_potential_baseline"]:
            if mask is not None:
                background = mask < 0.5 * mask.max()
                if background.any():
                    offset = obj[background].mean()
                else:
                    offset = obj.min()
            else:
                offset = obj.min()
            offset = offset.detach()
            offset *= self.constraints["fix_potential_baseline_factor"]
        else:
            offset = 0

        if self.constraints.get("positivity", True):
            obj2 = torch.clamp(obj - offset, min=0.0)
        else:
            obj2 = obj - offset

    if self.constraints["apply_fov_mask"] and mask is not None:
        obj2 *= mask

    # want backwards compatibility for gaussian_sigma and q_lowpass/q_highpass, so use get
    if self.constraints.get("gaussian_sigma") is not None:
        obj2 = self.gaussian_blur_2d(obj2, sigma=self.constraints["gaussian_sigma"])

    if any([self.constraints["q_lowpass"], self.constraints["q_highpass"]]):
        obj2 = self.butterworth_constraint(
            obj2,
            sampling=self.sampling,
        )
    if self.num_slices > 1:
        if self.constraints["identical_slices"]:
            with torch.no_grad():
                obj2[:] = torch.mean(obj2, dim=0, keepdim=True)

    return obj2


def orig_probe_orthogonalization_constraint(self, start_probe: torch.Tensor) -> torch.Tensor:
    ### this is not very efficient with Adam, should find a better way
    n_probes = start_probe.shape[0]
    orthogonal_probes = []
    # Equivalent to torch.norm(..., dim=(-2,-1), keepdim=True)
    # original_norms = torch.norm(start_probe, dim=(-2, -1), keepdim=True)
    original_norms = torch.sqrt(
        torch.sum(
            start_probe.real.square() + start_probe.imag.square(), dim=(-2, -1), keepdim=True
        )
    )

    # Apply Gram-Schmidt process
    for i in range(n_probes):
        probe_i = start_probe[i]

        # Subtract projections onto previously computed orthogonal probes
        for j in range(len(orthogonal_probes)):
            projection = (
                torch.sum(orthogonal_probes[j].conj() * probe_i) * orthogonal_probes[j]
            )
            probe_i = probe_i - projection

        # norm = torch.norm(probe_i)
        norm = torch.sqrt(torch.sum(probe_i.real.square() + probe_i.imag.square())).clamp_min(
            1e-12
        )
        orthogonal_probes.append(probe_i / norm)

    orthogonal_probes = torch.stack(orthogonal_probes)
    orthogonal_probes = orthogonal_probes * original_norms.view(-1, 1, 1)

    # Sort probes by real-space intensity
    intensities = torch.sum(torch.abs(orthogonal_probes).square(), dim=(-2, -1))
    intensities_order = torch.argsort(intensities, descending=True)

    # MPS-safe fancy indexing
    real_sorted = orthogonal_probes.real[intensities_order]
    imag_sorted = orthogonal_probes.imag[intensities_order]
    orthogonal_probes_sorted = torch.complex(real_sorted, imag_sorted)

    return orthogonal_probes_sorted


def orig_apply_weights(self, probe_array: torch.Tensor | np.ndarray) -> torch.Tensor:
    probes = self._to_torch(probe_array)
    probe_intensity = torch.sum(torch.abs(torch.fft.fft2(probes, norm="ortho")).square())
    intensity_norm = torch.sqrt(self.mean_diffraction_intensity / probe_intensity)
    probes *= intensity_norm

    current_weights = torch.sum(torch.abs(probes).square(), dim=(1, 2))
    current_weights = current_weights / torch.sum(current_weights)
    weight_scaling = torch.sqrt(self.initial_probe_weights.to(self.device) / current_weights)
    probes = probes * self._to_torch(weight_scaling)[:, None, None]

    # self._initial_probe = self._to_torch(probes)
    # self._probe = self._initial_probe.clone()
    return probes


# --------------------------------------------------------------------------------------
# helpers
# --------------------------------------------------------------------------------------
def same_bits(a, b, what):
    assert type(a) is type(b), (what, type(a), type(b))
    assert isinstance(a, torch.Tensor), what
    assert a.dtype == b.dtype, (what, a.dtype, b.dtype)
    assert a.shape == b.shape, (what, a.shape, b.shape)
    assert a.requires_grad == b.requires_grad, (what, a.requires_grad, b.requires_grad)
    ba = a.detach().contiguous().resolve_conj().numpy().tobytes()
    bb = b.detach().contiguous().resolve_conj().numpy().tobytes()
    assert ba == bb, f"bit mismatch: {what}"


def run_both(f_old, f_new, what):
    """Call both, require same outcome (value bits or exception type + message)."""
    try:
        r_old = f_old()
        e_old = None
    except Exception as e:  # noqa: BLE001
        r_old, e_old = None, e
    try:
        r_new = f_new()
        e_new = None
    except Exception as e:  # noqa: BLE001
        r_new, e_new = None, e
    if e_old is not None or e_new is not None:
        assert type(e_old) is type(e_new), (what, repr(e_old), repr(e_new))
        assert str(e_old) == str(e_new), (what, repr(e_old), repr(e_new))
        return None, None
    same_bits(r_old, r_new, what)
    return r_old, r_new


# --------------------------------------------------------------------------------------
# 1. object hard constraints
# --------------------------------------------------------------------------------------
def raw_objects(obj_type, num_slices, h, w, gen):
    """raw (unconstrained) parameter tensors of assorted magnitudes / phases."""
    out = []
    if obj_type == "potential":
        base = torch.randn(num_slices, h, w, generator=gen)
        out.append(("randn", base))
        out.append(("big", base * 1e6))
        out.append(("tiny", base * 1e-20))
        out.append(("neg", -base.abs() - 1.0))
        out.append(("pos", base.abs() + 0.5))
        out.append(("zeros", torch.zeros(num_slices, h, w)))
    else:
        re = torch.randn(num_slices, h, w, generator=gen)
        im = torch.randn(num_slices, h, w, generator=gen)
        base = torch.complex(re, im)
        out.append(("randn", base))
        out.append(("big", base * 1e6))
        out.append(("tiny", base * 1e-20))
        out.append(("unit", torch.exp(1j * 3.0 * re)))
        out.append(("sub-unit", 0.3 * torch.exp(1j * im)))
        out.append(("zeros", torch.zeros(num_slices, h, w, dtype=torch.complex64)))
        out.append(("neg-real", torch.complex(-re.abs() - 2, torch.zeros_like(re))))
    return out


def fov_masks(h, w, gen):
    yy, xx = torch.meshgrid(torch.arange(h), torch.arange(w), indexing="ij")
    disc = (((yy - h / 2) ** 2 + (xx - w / 2) ** 2) < (min(h, w) / 3) ** 2).float()
    soft = torch.rand(h, w, generator=gen)
    return [
        ("none", None),
        ("ones", torch.ones(h, w)),
        ("disc", disc),
        ("soft", soft),
        ("zeros", torch.zeros(h, w)),
    ]


def check_object_constraints():
    gen = torch.Generator().manual_seed(1234)
    n_cases = 0
    shapes = [(1, 6, 7), (2, 5, 5), (3, 8, 6), (4, 1, 1)]
    constraint_sets = []
    for pos, base, ident, fov in itertools.product([True, False], repeat=4):
        constraint_sets.append(
            {
                "positivity": pos,
                "fix_potential_baseline": base,
                "fix_potential_baseline_factor": 0.75 if base else 1.0,
                "identical_slices": ident,
                "apply_fov_mask": fov,
            }
        )
    filter_sets = [
        {},
        {"gaussian_sigma": 0.8},
        {"q_lowpass": 0.6},
        {"q_highpass": 0.1, "q_lowpass": 0.7, "butterworth_order": 2},
    ]
    for obj_type in ["complex", "pure_phase", "potential"]:
        for num_slices, h, w in shapes:
            model = ObjectPixelated.from_uniform(
                num_slices=num_slices,
                slice_thicknesses=None if num_slices == 1 else 2.0,
                obj_type=obj_type,
                rng=3,
            )
            model._initialize_obj((num_slices, h, w), sampling=(0.5, 0.4))
            assert model.num_slices == num_slices
            raws = raw_objects(obj_type, num_slices, h, w, gen)
            masks = fov_masks(h, w, gen)
            for cset, fset in itertools.product(constraint_sets, filter_sets):
                if fset and (min(h, w) < 5):
                    continue
                if fset and not (cset["positivity"] and not cset["fix_potential_baseline"]):
                    # keep the filter sweep small; filters are outside the amplitude claim
                    continue
                model._constraints = model.DEFAULT_CONSTRAINTS.copy()
                model.constraints = {**cset, **fset}
                for (rname, raw), (mname, m2d) in itertools.product(raws, masks):
                    if m2d is None:
                        mask_variants = [None]
                    else:
                        model.mask = m2d  # goes through the real setter (dtype / expand)
                        mask_variants = [model.mask]
                        if obj_type != "potential":
                            # also a real-valued mask, as a caller could pass directly
                            mask_variants.append(m2d[None].expand(num_slices, -1, -1))
                    for mask in mask_variants:
                        for req_grad in (False, True):
                            what = (
                                f"obj {obj_type} {num_slices}x{h}x{w} {cset} {fset} "
                                f"raw={rname} mask={mname} grad={req_grad}"
                            )
                            p_old = torch.nn.Parameter(raw.clone(), requires_grad=req_grad)
                            p_new = torch.nn.Parameter(raw.clone(), requires_grad=req_grad)
                            m_old = None if mask is None else mask.clone()
                            m_new = None if mask is None else mask.clone()
                            r_old, r_new = run_both(
                                lambda: orig_apply_hard_constraints(model, p_old, m_old),
                                lambda: model.apply_hard_constraints(p_new, mask=m_new),
                                what,
                            )
                            n_cases += 1
                            # inputs must be left identical too
                            same_bits(p_old.data, p_new.data, what + " [raw after]")
                            same_bits(p_old.data, raw, what + " [raw untouched]")
                            if mask is not None:
                                same_bits(m_old, m_new, what + " [mask after]")
                            if r_new is None or fset:
                                continue
                            check_object_property(
                                model, obj_type, cset, r_new.detach(), mask, mname, what
                            )
    return n_cases


def check_object_property(model, obj_type, cset, out, mask, mname, what):
    tol = 1e-5
    finite = torch.isfinite(torch.view_as_real(out) if out.is_complex() else out).all()
    assert finite, what
    masked = cset["apply_fov_mask"] and mask is not None
    if obj_type == "complex":
        assert out.is_complex(), what
        assert (out.abs() <= 1.0 + tol).all(), what
    elif obj_type == "pure_phase":
        assert out.is_complex(), what
        if not masked and not (cset["identical_slices"] and model.num_slices > 1):
            assert torch.allclose(out.abs(), torch.ones_like(out.abs()), atol=tol), what
        else:
            assert (out.abs() <= 1.0 + tol).all(), what
    else:
        assert not out.is_complex(), what
        if cset["positivity"]:
            assert (out >= 0).all(), what
    if cset["identical_slices"] and model.num_slices > 1:
        for s in range(1, model.num_slices):
            assert torch.equal(out[s], out[0]), what
    # idempotence of the amplitude (a soft mask is re-applied, so only binary masks)
    if masked and mname == "soft":
        return
    if obj_type == "pure_phase" and cset["identical_slices"] and model.num_slices > 1:
        return  # slice tying is only claimed to tie slices
    again = model.apply_hard_constraints(out.clone(), mask=mask).detach()
    if obj_type in ("complex", "pure_phase"):
        assert torch.allclose(again.abs(), out.abs(), atol=1e-5, rtol=1e-4), what
    elif not cset["fix_potential_baseline"] and cset["positivity"]:
        assert torch.allclose(again, out, atol=1e-6, rtol=1e-5), what


# --------------------------------------------------------------------------------------
# 2. probe orthogonalisation and 3. probe weights
# --------------------------------------------------------------------------------------
def probe_stacks(gen):
    """(name, stack) with 1..5 linearly independent modes, correlation up to 0.99."""
    out = []
    for n, (h, w) in itertools.product([1, 2, 3, 4, 5], [(8, 8), (12, 10), (16, 16)]):
        for corr in [0.0, 0.5, 0.9, 0.99]:
            for scale in [1.0, 1e-3, 1e3]:
                base = torch.complex(
                    torch.randn(h, w, generator=gen), torch.randn(h, w, generator=gen)
                )
                base = base / base.abs().square().sum().sqrt()
                modes = []
                for k in range(n):
                    noise = torch.complex(
                        torch.randn(h, w, generator=gen), torch.randn(h, w, generator=gen)
                    )
                    noise = noise - torch.sum(base.conj() * noise) * base
                    noise = noise / noise.abs().square().sum().sqrt()
                    m = corr * base + (1 - corr**2) ** 0.5 * noise
                    amp = float(torch.rand(1, generator=gen)) * 2 + 0.1
                    modes.append(m * amp * scale)
                stack = torch.stack(modes).to(torch.complex64)
                out.append((f"n={n} {h}x{w} corr={corr} scale={scale}", stack))
    return out


def make_probe_model(stack, weights):
    return ProbePixelated.from_array(
        stack.clone(), initial_probe_weights=weights, rng=5, dtype=torch.complex64
    )


def check_probe_orthogonalisation(stacks):
    n_cases = 0
    for name, stack in stacks:
        model = make_probe_model(stack, None)
        for req_grad in (False, True):
            what = f"ortho {name} grad={req_grad}"
            a = stack.clone().requires_grad_(req_grad)
            b = stack.clone().requires_grad_(req_grad)
            r_old, r_new = run_both(
                lambda: orig_probe_orthogonalization_constraint(model, a),
                lambda: model._probe_orthogonalization_constraint(b),
                what,
            )
            n_cases += 1
            assert r_new is not None, what
            same_bits(a, b, what + " [input after]")
            same_bits(a.detach(), stack, what + " [input untouched]")
            out = r_new.detach().to(torch.complex128)
            n = out.shape[0]
            flat = out.reshape(n, -1)
            gram = flat.conj() @ flat.T
            norms = gram.diagonal().real.sqrt()
            rel = gram.abs() / (norms[:, None] * norms[None, :])
            off = rel - torch.diag(rel.diagonal())
            assert off.max() < 2e-3 if n > 1 else True, (what, float(off.max()))
            inten_out = gram.diagonal().real
            inten_in = stack.to(torch.complex128).abs().square().sum(dim=(-2, -1))
            assert (inten_out[:-1] >= inten_out[1:]).all(), what
            assert torch.allclose(
                inten_out, torch.sort(inten_in, descending=True).values, rtol=1e-4
            ), what
        # also reached through apply_hard_constraints / .probe
        same_bits(
            model.probe,
            orig_probe_orthogonalization_constraint(model, model._probe),
            f"ortho {name} via .probe",
        )
    # degenerate / error inputs must behave the same
    model = make_probe_model(stacks[0][1], None)
    for bad_name, bad in [
        ("zeros", torch.zeros(3, 4, 4, dtype=torch.complex64)),
        ("duplicate", torch.ones(2, 4, 4, dtype=torch.complex64)),
        ("real", torch.ones(2, 4, 4)),
        ("2d", torch.ones(4, 4, dtype=torch.complex64)),
        ("empty", torch.zeros(0, 4, 4, dtype=torch.complex64)),
        ("complex128", torch.ones(2, 3, 3, dtype=torch.complex128) * (1 + 2j)),
    ]:
        run_both(
            lambda: orig_probe_orthogonalization_constraint(model, bad.clone()),
            lambda: model._probe_orthogonalization_constraint(bad.clone()),
            f"ortho degenerate {bad_name}",
        )
        n_cases += 1
    return n_cases


def check_apply_weights(stacks):
    n_cases = 0
    gen = np.random.default_rng(7)
    for idx, (name, stack) in enumerate(stacks):
        n = stack.shape[0]
        weight_options = [None, list(np.linspace(1.0, 0.2, n)), list(gen.random(n) + 0.05)]
        for weights, mean_int in itertools.product(weight_options, [1.0, 37.5, 2.5e5, 1e-3]):
            model = make_probe_model(stack, weights)
            model.mean_diffraction_intensity = mean_int
            for as_numpy in (False, True):
                what = f"weights {name} w={weights} I={mean_int} numpy={as_numpy}"
                a = stack.clone()
                b = stack.clone()
                if as_numpy:
                    a, b = a.numpy(), b.numpy()
                r_old, r_new = run_both(
                    lambda: orig_apply_weights(model, a),
                    lambda: model._apply_weights(b),
                    what,
                )
                n_cases += 1
                assert r_new is not None, what
                # in-place scaling of a tensor argument is part of the behaviour
                same_bits(torch.as_tensor(a), torch.as_tensor(b), what + " [input after]")
                out = r_new.to(torch.complex128)
                tot = torch.fft.fft2(out, norm="ortho").abs().square().sum()
                assert abs(float(tot) / mean_int - 1) < 1e-4, (what, float(tot))
                per_mode = out.abs().square().sum(dim=(1, 2))
                want = model.initial_probe_weights.to(torch.float64)
                assert torch.allclose(per_mode / per_mode.sum(), want, rtol=1e-4), what
        if idx % 6 == 0:
            # full initialisation path (random phase shifts + weights)
            m_old = make_probe_model(stack, None)
            m_new = make_probe_model(stack, None)
            m_old._apply_weights = lambda p, _m=m_old: orig_apply_weights(_m, p)
            for m in (m_old, m_new):
                m.set_initial_probe(tuple(stack.shape[-2:]), np.array([0.1, 0.1]), 12.0)
            same_bits(m_old.initial_probe, m_new.initial_probe, f"set_initial_probe {name}")
            same_bits(m_old._probe.data, m_new._probe.data, f"set_initial_probe _probe {name}")
            n_cases += 1
    # error behaviour
    model = make_probe_model(stacks[0][1], None)
    model.mean_diffraction_intensity = 3.0
    for bad_name, bad in [
        ("2d", torch.ones(4, 4, dtype=torch.complex64)),
        ("list", [[1.0, 2.0], [3.0, 4.0]]),
        ("string", "nope"),
        ("zero", torch.zeros(1, 4, 4, dtype=torch.complex64)),
    ]:
        run_both(
            lambda: orig_apply_weights(model, bad.clone() if hasattr(bad, "clone") else bad),
            lambda: model._apply_weights(bad.clone() if hasattr(bad, "clone") else bad),
            f"weights degenerate {bad_name}",
        )
        n_cases += 1
    return n_cases


def main():
    n_obj = check_object_constraints()
    stacks = probe_stacks(torch.Generator().manual_seed(99))
    n_ortho = check_probe_orthogonalisation(stacks)
    n_w = check_apply_weights(stacks)
    print(f"C10 demo OK: object cases={n_obj}, ortho cases={n_ortho}, weight cases={n_w}")


if __name__ == "__main__":
    main()
