ORIG_SET_INTENSITIES_COM = r'''
def _set_intensities_com(
    self,
    intensities: np.ndarray,
    dp_mask: np.ndarray | None = None,
    fit_function: Literal["none", "plane", "parabola", "constant", "no_shift"] = "plane",
    vectorized_calculation=True,
) -> None:
    """
    Common preprocessing function to compute and fit diffraction intensities CoM

    Parameters
    ----------
    intensities: (Rr,Rc,Qr,Qc) np.ndarray
        Raw intensities array stored on device, with dtype np.float32
    dp_mask: ndarray
        If not None, apply mask to datacube intensities
    fit_function: str, optional
        2D fitting function for CoM fitting. One of 'plane','parabola','bezier_two'
    vectorized_calculation: bool, optional
        If True (default), the calculation is vectorized

    Returns
    -------
    None
    """
    if dp_mask is not None:
        if dp_mask.shape != intensities.shape[-2:]:
            raise ValueError(
                f"Mask shape should be (Qr,Qc) = {intensities.shape[-2:]} | got {dp_mask.shape}"
            )
        dp_mask = np.asarray(dp_mask, dtype=config.get("dtype_real"))

    # Coordinates
    kr = np.arange(intensities.shape[-2])
    kc = np.arange(intensities.shape[-1])
    krm, kcm = np.meshgrid(kr, kc, indexing="ij")

    if vectorized_calculation:
        if dp_mask is not None:
            intensities_mask = (intensities * dp_mask).astype(config.get("dtype_real"))
        else:
            intensities_mask = (intensities).astype(config.get("dtype_real"))
        com_measured_r = np.sum(intensities_mask * krm[None, None], axis=(-2, -1))
        com_measured_c = np.sum(intensities_mask * kcm[None, None], axis=(-2, -1))

        intensities_sum = np.sum(intensities_mask, axis=(-2, -1))
        com_measured_r /= intensities_sum
        com_measured_c /= intensities_sum

    else:
        shape_r, shape_c = intensities.shape[:2]
        com_measured_r = np.zeros((shape_r, shape_c))
        com_measured_c = np.zeros((shape_r, shape_c))

        # loop of dps
        for Rr, Rc in tqdmnd(
            range(shape_r),
            range(shape_c),
            desc="Calculating center of mass",
            unit="probe position",
            disable=not self._verbose,
        ):
            masked_intensity = intensities[Rr, Rc]
            if dp_mask is not None:
                masked_intensity *= dp_mask
            summed_intensity = masked_intensity.sum()
            com_measured_r[Rr, Rc] = np.sum(masked_intensity * krm) / summed_intensity
            com_measured_c[Rr, Rc] = np.sum(masked_intensity * kcm) / summed_intensity

    if fit_function == "none":
        com_fit_r, com_fit_c = com_measured_r, com_measured_c
    elif fit_function == "no_shift":
        com_fit_r, com_fit_c = np.ones_like(com_measured_r), np.ones_like(com_measured_c)
        com_fit_r = com_fit_r * self.roi_shape[0] / 2
        com_fit_c = com_fit_c * self.roi_shape[1] / 2
    else:
        finite_mask = np.isfinite(com_measured_r)
        com_fit_r, com_fit_c, _com_res_r, _com_res_c = fit_origin(
            data=(com_measured_r, com_measured_c),
            fit_function=fit_function,
            mask=finite_mask,
        )

    self.com_measured = (com_measured_r, com_measured_c)  # raw measured pixels
    self.com_fit = (com_fit_r, com_fit_c)  # fitted for descan, pixels
    return
'''

ORIG_SET_INITIAL_SCAN_POSITIONS_PX = r'''
def _set_initial_scan_positions_px(
    self,
    obj_padding_px: np.ndarray | tuple | None,
    positions_mask: np.ndarray | None = None,
):
    """
    Method to compute the initial guess of scan positions in pixels.

    Parameters
    ----------
    positions: (J,2) np.ndarray or None
        Input probe positions in Å.
        If None, a raster scan using experimental parameters is constructed.
    positions_mask: np.ndarray, optional
        Boolean real space mask to select positions in datacube to skip for reconstruction
    obj_padding_px: Tuple[int,int], optional
        Pixel dimensions to pad object with
        If None, the padding is set to half the probe ROI dimensions
    positions_offset_ang, np.ndarray, optional
        Offset of positions in A
    """

    if obj_padding_px is None:
        obj_padding_px = np.array([0, 0])

    nr, nc = self.gpts
    Sr, Sc = self._scan_sampling
    r = np.arange(nr) * Sr
    c = np.arange(nc) * Sc

    r, c = np.meshgrid(r, c, indexing="ij")

    if positions_mask is not None:
        r = r[positions_mask]
        c = c[positions_mask]

    positions = np.stack((r.ravel(), c.ravel()), axis=-1).astype(config.get("dtype_real"))

    if self.com_rotation_rad != 0:
        tf = AffineTransform(angle=self.com_rotation_rad)
        positions = tf(positions, origin=positions.mean(0))

    sampling = self.obj_sampling
    if self.com_transpose:
        positions = np.flip(positions, axis=1)
        sampling = sampling[::-1]

    # ensure positive
    m: np.ndarray = np.min(positions, axis=0).clip(-np.inf, 0)
    positions -= m

    # finally, switch to pixels
    positions[:, 0] /= sampling[0]
    positions[:, 1] /= sampling[1]

    # top-left padding
    positions[:, 0] += obj_padding_px[0]
    positions[:, 1] += obj_padding_px[1]

    self.scan_positions_px = positions
    self.initial_scan_positions_px = self.scan_positions_px.data.clone()
    return
'''

ORIG_NORMALIZE_DIFFRACTION_INTENSITIES = r'''
def _normalize_diffraction_intensities(
    self,
    positions_mask: np.ndarray | None = None,
    crop_patterns: bool = False,
    bilinear: bool = False,
):
    dtype = config.get("dtype_real")
    diff_intensities = self.intensities_4d.copy().astype(dtype)
    com_fit = self.com_fit

    # Aggressive cropping for when off-centered high scattering angle data was recorded
    if crop_patterns:
        crop_r = int(
            np.minimum(diff_intensities.shape[2] - com_fit[0].max(), com_fit[0].min())
        )
        crop_c = int(
            np.minimum(diff_intensities.shape[3] - com_fit[1].max(), com_fit[1].min())
        )
        crop_m = np.minimum(crop_c, crop_r)

        pattern_crop_mask = np.zeros(self.roi_shape, dtype="bool")
        pattern_crop_mask[:crop_m, :crop_m] = True
        pattern_crop_mask[-crop_m:, :crop_m] = True
        pattern_crop_mask[:crop_m:, -crop_m:] = True
        pattern_crop_mask[-crop_m:, -crop_m:] = True
        pattern_crop_mask_shape = (crop_m * 2, crop_m * 2)

    else:
        pattern_crop_mask = None
        pattern_crop_mask_shape = self.roi_shape

    mean_intensity = 0
    mean_amplitude = 0
    centered_amplitudes = np.zeros(diff_intensities.shape, dtype=dtype)
    amplitudes = np.zeros(diff_intensities.shape, dtype=dtype)
    centered_intensities = np.zeros(diff_intensities.shape, dtype=dtype)
    intensities = np.zeros(diff_intensities.shape, dtype=dtype)
    ## there is some additional memory overhead in this loop due to numpy array assignment
    ## but I don't think it's easy to avoid -- ARCM 251212
    for Rr, Rc in tqdmnd(
        range(diff_intensities.shape[0]),
        range(diff_intensities.shape[1]),
        desc="Normalizing intensities",
        unit="probe position",
        disable=not self._verbose,
    ):
        if positions_mask is not None:
            if not positions_mask[Rr, Rc]:
                continue

        intensity = np.maximum(diff_intensities[Rr, Rc], 0)
        intensities[Rr, Rc] = intensity
        mean_intensity += np.sum(intensity)
        ### shifting amplitude rather than intensity to minimize ringing artifacts
        amplitude = np.maximum(np.sqrt(intensity), 0)
        mean_amplitude += np.sum(amplitude)
        amplitudes[Rr, Rc] = amplitude

        shift_amplitude = shift_array(  # shifting to 0,0 then fftshift
            amplitude,
            -(com_fit[0, Rr, Rc] + 0.0),
            -(com_fit[1, Rr, Rc] + 0.0),
            bilinear=bilinear,
        )
        shift_amplitude = np.maximum(shift_amplitude, 0)
        shift_amplitude = np.fft.fftshift(shift_amplitude)

        centered_amplitudes[Rr, Rc] = shift_amplitude
        centered_intensities[Rr, Rc] = shift_amplitude**2

    if positions_mask is not None:
        amplitudes = amplitudes[positions_mask]
        centered_amplitudes = centered_amplitudes[positions_mask]
        intensities = intensities[positions_mask]
        centered_intensities = centered_intensities[positions_mask]
    else:
        amplitudes = amplitudes.reshape((-1, *self.roi_shape))
        centered_amplitudes = centered_amplitudes.reshape((-1, *self.roi_shape))
        intensities = intensities.reshape((-1, *self.roi_shape))
        centered_intensities = centered_intensities.reshape((-1, *self.roi_shape))

    if crop_patterns:
        amplitudes = amplitudes[:, pattern_crop_mask].reshape((-1, *pattern_crop_mask_shape))
        centered_amplitudes = centered_amplitudes[:, pattern_crop_mask].reshape(
            (-1, *pattern_crop_mask_shape)
        )
        intensities = intensities[:, pattern_crop_mask].reshape((-1, *pattern_crop_mask_shape))
        centered_intensities = centered_intensities[:, pattern_crop_mask].reshape(
            (-1, *pattern_crop_mask_shape)
        )

    mean_intensity /= amplitudes.shape[0]
    mean_amplitude /= amplitudes.shape[0]

    self.centered_amplitudes = centered_amplitudes
    self.amplitudes = amplitudes
    self.centered_intensities = centered_intensities
    self.intensities = intensities
    descan_shifts = -1 * np.stack((com_fit[0].flatten(), com_fit[1].flatten()))
    descan_shifts = -1 * com_fit.reshape((2, -1))  # (2, rr*rc)
    descan_shifts += self.roi_shape[:, None] / 2
    self.descan_shifts = descan_shifts.T
    self.initial_descan_shifts = self.descan_shifts.data.clone()

    self.mean_diffraction_intensity = mean_intensity
    self.mean_diffraction_amplitude = mean_amplitude
    self._pattern_crop_mask = pattern_crop_mask
    self._pattern_crop_mask_shape = pattern_crop_mask_shape
    return
'''

ORIG_GET_OBJ_PATCHES = r'''
def _get_obj_patches(self, obj_array, patch_indices):
    if not obj_array.is_complex():  # potential or pure_phase DIP -> float
        obj_array2 = torch.exp(1.0j * obj_array)
    else:
        obj_array2 = obj_array
    obj_flat = obj_array2.reshape(obj_array.shape[0], -1)

    # patches = obj_flat[:, patch_indices]
    # MPS does not support complex scatter kernel..
    real = obj_flat.real
    imag = obj_flat.imag
    patches = torch.complex(real[:, patch_indices], imag[:, patch_indices])

    return patches
'''

ORIG_ERROR_ESTIMATE = r'''
def error_estimate(
    self,
    pred_intensities: torch.Tensor,
    batch_indices: np.ndarray,
    loss_type: Literal[
        "l2_amplitude", "l1_amplitude", "l2_intensity", "l1_intensity", "poisson"
    ] = "l2_amplitude",
) -> tuple[torch.Tensor, torch.Tensor]:
    targets = self.dset.targets[batch_indices]
    if "amplitude" in loss_type:
        preds = torch.sqrt(pred_intensities + 1e-9)  # add eps to avoid diverging gradients
    else:
        preds = pred_intensities

    diff = preds * self.dset.detector_mask - targets * self.dset.detector_mask
    if "l1" in loss_type:
        error = torch.sum(torch.abs(diff)) / (diff.shape[0] / self.dset.num_gpts)
    elif "l2" in loss_type:
        error = torch.sum(torch.abs(diff) ** 2) / (diff.shape[0] / self.dset.num_gpts)
    elif loss_type == "poisson":
        error = torch.sum(preds - targets * torch.log(preds + 1e-6))
    else:
        raise ValueError(f"Unknown loss type {loss_type}, should be 'l1' or 'l2'")
    loss = error / self.dset.mean_diffraction_intensity
    return loss, targets
'''

# --------------------------------------------------------------------------------------
# Demo for property C02 (ptychography forward pipeline reproduces independently simulated
# data).  Two kinds of checks:
#   (1) old == new, bit for bit: the verbatim ORIGINAL sources above are compiled in the
#       namespace of their home module and compared with the functions of the installed
#       tree on a spread of inputs (results, stored state, dtypes and exceptions);
#   (2) the property itself: data simulated by an independent numpy (complex128) multislice
#       mixed-state reference is predicted by the library pipeline at the ground truth
#       (all losses ~ 0) and the loss is strictly larger at a perturbed object / probe.
# Invoked as  PYTHONPATH=<root>/src /venv/bin/python demo.py ; CPU only, no files written.
# --------------------------------------------------------------------------------------
import contextlib
import io
import os
import sys
import tempfile
import warnings

os.environ.setdefault("MPLBACKEND", "Agg")
for _v in ("OMP_NUM_THREADS", "MKL_NUM_THREADS", "OPENBLAS_NUM_THREADS"):
    os.environ.setdefault(_v, "1")
warnings.filterwarnings("ignore")

import numpy as np  # noqa: E402
import torch  # noqa: E402

from quantem.core.datastructures.dataset4dstem import Dataset4dstem  # noqa: E402
from quantem.core.utils.utils import electron_wavelength_angstrom  # noqa: E402
from quantem.diffractive_imaging import dataset_models as dm  # noqa: E402
from quantem.diffractive_imaging import object_models as omod  # noqa: E402
from quantem.diffractive_imaging import ptychography_base as pbase  # noqa: E402
from quantem.diffractive_imaging.dataset_models import PtychographyDatasetRaster  # noqa: E402
from quantem.diffractive_imaging.detector_models import DetectorPixelated  # noqa: E402
from quantem.diffractive_imaging.object_models import ObjectPixelated  # noqa: E402
from quantem.diffractive_imaging.probe_models import ProbePixelated  # noqa: E402
from quantem.diffractive_imaging.ptychography import Ptychography  # noqa: E402

torch.manual_seed(0)
torch.set_num_threads(1)
ENERGY = 300e3
LOSSES = ["l2_amplitude", "l1_amplitude", "l2_intensity", "l1_intensity"]


def _compile(src, module, name):
    ns = dict(vars(module))
    exec(compile(src, f"<original {name}>", "exec"), ns)
    return ns[name]


orig_set_intensities_com = _compile(ORIG_SET_INTENSITIES_COM, dm, "_set_intensities_com")  # noqa: F821
orig_set_positions = _compile(
    ORIG_SET_INITIAL_SCAN_POSITIONS_PX,  # noqa: F821
    dm,
    "_set_initial_scan_positions_px",
)
orig_normalize = _compile(
    ORIG_NORMALIZE_DIFFRACTION_INTENSITIES,  # noqa: F821
    dm,
    "_normalize_diffraction_intensities",
)
orig_get_obj_patches = _compile(ORIG_GET_OBJ_PATCHES, omod, "_get_obj_patches")  # noqa: F821
orig_error_estimate = _compile(ORIG_ERROR_ESTIMATE, pbase, "error_estimate")  # noqa: F821


@contextlib.contextmanager
def quiet():
    buf = io.StringIO()
    with contextlib.redirect_stdout(buf), contextlib.redirect_stderr(buf):
        yield


# ------------------------------------------------------------------ exact comparison
def same(a, b, path="value"):
    """Bit-for-bit structural equality (type, dtype, shape, values incl. NaN positions)."""
    if isinstance(a, torch.Tensor) or isinstance(b, torch.Tensor):
        assert isinstance(a, torch.Tensor) and isinstance(b, torch.Tensor), path
        assert a.dtype == b.dtype and a.shape == b.shape, (path, a.dtype, b.dtype, a.shape, b.shape)
        assert a.requires_grad == b.requires_grad, path
        x, y = a.detach(), b.detach()
        if x.is_complex():
            x, y = torch.view_as_real(x), torch.view_as_real(y)
        assert torch.equal(torch.nan_to_num(x, nan=12345.0), torch.nan_to_num(y, nan=12345.0)), path
        assert torch.equal(torch.isnan(x), torch.isnan(y)), path
        return
    if isinstance(a, np.ndarray) or isinstance(b, np.ndarray):
        assert isinstance(a, np.ndarray) and isinstance(b, np.ndarray), path
        assert a.dtype == b.dtype and a.shape == b.shape, (path, a.dtype, b.dtype, a.shape, b.shape)
        assert np.array_equal(a, b, equal_nan=a.dtype.kind in "fc"), path
        return
    if isinstance(a, (tuple, list)):
        assert type(a) is type(b) and len(a) == len(b), path
        for i, (p, q) in enumerate(zip(a, b)):
            same(p, q, f"{path}[{i}]")
        return
    if isinstance(a, dict):
        assert type(a) is type(b) and list(a) == list(b), path
        for k in a:
            same(a[k], b[k], f"{path}[{k!r}]")
        return
    if isinstance(a, BaseException):
        assert type(a) is type(b) and str(a) == str(b), (path, repr(a), repr(b))
        return
    assert type(a) is type(b), (path, type(a), type(b))
    if isinstance(a, float) and a != a:
        assert b != b, path
    else:
        assert a == b, (path, a, b)


def outcome(fn, *args, **kwargs):
    try:
        with quiet():
            return ("ok", fn(*args, **kwargs))
    except Exception as e:  # noqa: BLE001
        return ("raised", e)


def snapshot(obj, names):
    out = {}
    for n in names:
        v = getattr(obj, n, "<missing>")
        if isinstance(v, torch.Tensor):
            v = v.detach().clone()
        elif isinstance(v, np.ndarray):
            v = v.copy()
        out[n] = v
    return out


# ------------------------------------------------------------------ independent reference
def make_probes(roi, sampling, num_probes, defocus):
    """Orthogonal incoherent modes (even / odd-in-r / odd-in-c in Fourier space), complex128."""
    kr = np.fft.fftfreq(roi[0], sampling[0])
    kc = np.fft.fftfreq(roi[1], sampling[1])
    k = np.sqrt(kr[:, None] ** 2 + kc[None, :] ** 2)
    kmax = 0.5 / max(sampling)
    kcut = 0.5 * kmax
    dk = min(1 / (roi[0] * sampling[0]), 1 / (roi[1] * sampling[1]))
    aperture = np.sqrt(np.clip((kcut - k) / dk + 0.5, 0, 1))
    chi = np.pi * electron_wavelength_angstrom(ENERGY) * defocus * k**2
    base = aperture * np.exp(-1j * chi)
    mods = [np.ones_like(k), kr[:, None] / kcut + 0 * k, kc[None, :] / kcut + 0 * k]
    weights = [1.0, 0.35, 0.12]
    probes = []
    for m in range(num_probes):
        pf = base * mods[m]
        pf = pf / np.sqrt(np.sum(np.abs(pf) ** 2)) * np.sqrt(weights[m])
        probes.append(np.fft.ifft2(pf) * np.sqrt(roi[0] * roi[1]) * 10.0)
    return np.stack(probes)  # (modes, Nr, Nc)


def reference_patterns(obj, probes, positions_px, sampling, thicknesses):
    """Independent multislice mixed-state forward model; returns centred intensities."""
    nslices, H, W = obj.shape
    nmodes, Nr, Nc = probes.shape
    lam = electron_wavelength_angstrom(ENERGY)
    ir = np.rint(np.fft.fftfreq(Nr) * Nr).astype(int)
    ic = np.rint(np.fft.fftfreq(Nc) * Nc).astype(int)
    fr = np.fft.fftfreq(Nr)
    fc = np.fft.fftfreq(Nc)
    kr = np.fft.fftfreq(Nr, sampling[0])
    kc = np.fft.fftfreq(Nc, sampling[1])
    k2 = kr[:, None] ** 2 + kc[None, :] ** 2
    props = [np.exp(-1j * np.pi * lam * dz * k2) for dz in thicknesses]
    out = np.zeros((len(positions_px), Nr, Nc))
    for j, p in enumerate(positions_px):
        p0 = np.rint(p)
        frac = p - p0
        rows = (int(p0[0]) + ir) % H
        cols = (int(p0[1]) + ic) % W
        ramp = np.exp(-2j * np.pi * (fr[:, None] * frac[0] + fc[None, :] * frac[1]))
        for m in range(nmodes):
            psi = np.fft.ifft2(np.fft.fft2(probes[m]) * ramp)
            for s in range(nslices):
                if s > 0:
                    psi = np.fft.ifft2(np.fft.fft2(psi) * props[s - 1])
                psi = psi * obj[s][np.ix_(rows, cols)]
            out[j] += np.abs(np.fft.fft2(psi, norm="ortho")) ** 2
    return np.fft.fftshift(out, axes=(-2, -1))


def build(cfg, seed):
    rng = np.random.default_rng(seed)
    roi = np.array(cfg["roi"])
    sampling = np.array(cfg["sampling"], dtype=float)  # object pixel size, Angstrom
    gpts = np.array(cfg["gpts"])
    step = float(cfg["step"])
    pad = np.array(cfg["pad"])
    nslices = cfg["nslices"]
    thick = list(cfg["thick"])
    rs = 1.0 / (roi * sampling)

    # independent geometry: positions in pixels and object shape
    gr, gc = np.meshgrid(np.arange(gpts[0]) * step, np.arange(gpts[1]) * step, indexing="ij")
    crop = np.floor(step * (gpts - 1) / sampling + 1e-9)
    crop += crop % 2
    # the library enlarges the padding until the padded object shape is a multiple of 8
    rem = (crop + 2 * pad) % 8
    pad = (pad + np.where(rem != 0, (8 - rem) // 2, 0)).astype(int)
    shape = (crop + 2 * pad).astype(int)
    positions = np.stack((gr.ravel() / sampling[0], gc.ravel() / sampling[1]), axis=-1) + pad

    yy, xx = np.meshgrid(np.arange(shape[0]), np.arange(shape[1]), indexing="ij")
    phases = []
    for s in range(nslices):
        ph = 0.3 * np.sin(2 * np.pi * (yy * (s + 1) / shape[0] + xx / shape[1]) + rng.random())
        ph = ph + 0.25 * rng.random(tuple(shape))
        phases.append(ph + 0.6)  # strictly positive (potential objects are clamped at 0)
    phases = np.stack(phases)
    if cfg["obj_type"] != "potential":
        phases = phases - phases.mean()
    obj = np.exp(1j * phases)

    probes = make_probes(roi, sampling, cfg["modes"], cfg["defocus"])
    patterns = reference_patterns(obj, probes, positions, sampling, thick)

    with quiet():
        d4 = Dataset4dstem.from_array(
            array=patterns.reshape((*gpts, *roi)).astype(np.float32),
            sampling=(step, step, rs[0], rs[1]),
            units=("A", "A", "A^-1", "A^-1"),
        )
        pd = PtychographyDatasetRaster.from_dataset4dstem(d4, verbose=False)
        pd.preprocess(
            com_fit_function=cfg.get("com", "no_shift"),
            plot_rotation=False,
            plot_com=False,
            probe_energy=ENERGY,
            force_com_rotation=0,
            force_com_transpose=False,
            obj_padding_px=tuple(pad),
        )
        om = ObjectPixelated.from_uniform(
            num_slices=nslices,
            obj_type=cfg["obj_type"],
            slice_thicknesses=(thick if len(thick) > 1 else (thick[0] if thick else None)),
        )
        pm = ProbePixelated.from_array(
            probe_array=probes.astype(np.complex64),
            probe_params={"energy": ENERGY},
            rng=3,
        )
        pt = Ptychography.from_models(
            dset=pd, obj_model=om, probe_model=pm, detector_model=DetectorPixelated(), rng=42,
            verbose=False,
        )
        pt.preprocess(obj_padding_px=tuple(pad), plot_rotation=False, plot_com=False)
    assert np.array_equal(np.asarray(pt.obj_padding_px), pad), (pt.obj_padding_px, pad)
    truth = dict(obj=obj, phases=phases, probes=probes, positions=positions, shape=shape)
    return pt, pd, om, pm, truth


def install_truth(pt, om, pm, truth, obj_scale=1.0, probe_defocus_ramp=0.0):
    phases = truth["phases"] * obj_scale
    with torch.no_grad():
        if om.obj_type == "potential":
            om._obj.data.copy_(torch.tensor(phases, dtype=torch.float32))
        else:
            om._obj.data.copy_(torch.tensor(np.exp(1j * phases), dtype=torch.complex64))
    probes = truth["probes"]
    if probe_defocus_ramp:
        n0, n1 = probes.shape[-2:]
        k2 = np.fft.fftfreq(n0)[:, None] ** 2 + np.fft.fftfreq(n1)[None, :] ** 2
        probes = np.fft.ifft2(np.fft.fft2(probes) * np.exp(-1j * probe_defocus_ramp * k2))
    pm.probe = probes.astype(np.complex64)  # public probe setter


def pipeline_losses(pt, pd, batch_indices):
    out = {}
    for lt in LOSSES:
        pd._set_targets(lt)
        patch_indices, _pos, frac, descan = pd.forward(batch_indices, pt.obj_padding_px)
        shifted = pt.probe_model.forward(frac)
        patches = pt.obj_model.forward(patch_indices)
        _pp, overlap = pt.forward_operator(patches, shifted, descan)
        pred = pt.detector_model.forward(overlap)
        loss, _targets = pt.error_estimate(pred, batch_indices, loss_type=lt)
        out[lt] = float(loss.item())
    return out


CONFIGS = [
    dict(roi=(16, 16), sampling=(0.5, 0.5), gpts=(6, 6), step=1.0, pad=(0, 0), nslices=1,
         thick=[], obj_type="complex", modes=1, defocus=60.0),
    dict(roi=(12, 16), sampling=(0.5, 0.5), gpts=(5, 4), step=0.65, pad=(4, 6), nslices=2,
         thick=[7.0], obj_type="potential", modes=2, defocus=40.0),
    dict(roi=(16, 12), sampling=(0.4, 0.5), gpts=(4, 5), step=0.9, pad=(2, 2), nslices=3,
         thick=[4.0, 9.0], obj_type="pure_phase", modes=3, defocus=-50.0),
    dict(roi=(14, 14), sampling=(0.5, 0.5), gpts=(3, 7), step=1.15, pad=(8, 3), nslices=4,
         thick=[3.0, 5.0, 2.5], obj_type="complex", modes=2, defocus=30.0),
]


# ------------------------------------------------------------------ (2) the property
def check_property(pt, pd, om, pm, truth, tag):
    n = pd.num_gpts
    lib_pos = pd.scan_positions_px.detach().cpu().numpy()
    assert lib_pos.shape == truth["positions"].shape, tag
    assert np.allclose(lib_pos, truth["positions"], atol=1e-4), (tag, "scan positions")
    assert tuple(om.obj.shape[-2:]) == tuple(truth["shape"]), (tag, om.obj.shape, truth["shape"])
    batches = [np.arange(n), np.arange(0, n, 3), np.array([n - 1, 0, n // 2])]
    install_truth(pt, om, pm, truth)
    at_truth = [pipeline_losses(pt, pd, b) for b in batches]
    install_truth(pt, om, pm, truth, obj_scale=1.5)
    at_bad_obj = [pipeline_losses(pt, pd, b) for b in batches]
    install_truth(pt, om, pm, truth, probe_defocus_ramp=25.0)
    at_bad_probe = [pipeline_losses(pt, pd, b) for b in batches]
    install_truth(pt, om, pm, truth)
    for lt in LOSSES:
        for g, bo, bp in zip(at_truth, at_bad_obj, at_bad_probe):
            tol = 2e-3 if lt.startswith("l1") else 1e-5
            assert g[lt] >= 0 and g[lt] < tol, (tag, lt, "loss at ground truth", g[lt])
            assert bo[lt] > 50 * g[lt] and bo[lt] > 10 * tol, (tag, lt, "perturbed object", bo[lt])
            assert bp[lt] > 50 * g[lt] and bp[lt] > 10 * tol, (tag, lt, "perturbed probe", bp[lt])
    return at_truth[0]


# ------------------------------------------------------------------ (1) old == new
COM_STATE = ["_com_measured", "_com_fit"]
POS_STATE = ["_scan_positions_px", "_initial_scan_positions_px"]
NORM_STATE = [
    "_centered_amplitudes", "_amplitudes", "_centered_intensities", "_intensities",
    "_descan_shifts", "_initial_descan_shifts", "_mean_diffraction_intensity",
    "mean_diffraction_amplitude", "_pattern_crop_mask", "_pattern_crop_mask_shape",
]


class _MaskedView(PtychographyDatasetRaster):
    """Same object, but num_gpts can report the number of mask-selected positions."""

    _override_n = None

    @property
    def num_gpts(self) -> int:
        if self._override_n is not None:
            return self._override_n
        return int(self.dset.shape[0])


def compare_method(old, new, obj, state_names, make_args, tag):
    """Run old and new from the same starting state, compare outcome and resulting state."""
    start = snapshot(obj, state_names)

    def restore():
        for k, v in start.items():
            if isinstance(v, str) and v == "<missing>":
                continue
            cur = getattr(obj, k)
            if isinstance(cur, torch.nn.Parameter):
                cur.data = v.clone()
            else:
                setattr(obj, k, v.clone() if isinstance(v, torch.Tensor) else v)

    args, kwargs = make_args()
    r_old = outcome(old, obj, *args, **kwargs)
    s_old = snapshot(obj, state_names)
    restore()
    args, kwargs = make_args()
    r_new = outcome(new, obj, *args, **kwargs)
    s_new = snapshot(obj, state_names)
    restore()
    same(r_old, r_new, f"{tag}: outcome")
    same(s_old, s_new, f"{tag}: state")
    return r_old[0]


def check_equivalence(pt, pd, om, pm, truth, tag, seed):
    rng = np.random.default_rng(seed)
    cls = PtychographyDatasetRaster
    n_ok = {k: 0 for k in ('com', 'positions', 'normalize', 'patches', 'error_estimate')}

    # --- _set_intensities_com: grids, masks, fit functions, loop / vectorised
    inten = pd.intensities_4d
    noisy = (inten * (1 + 0.2 * rng.random(inten.shape))).astype(np.float32)
    dp_mask = (rng.random(inten.shape[-2:]) > 0.2).astype(np.float32)
    for arr in (inten, noisy):
        for mask in (None, dp_mask, np.ones((3, 3), dtype=np.float32)):
            for fit in ("none", "no_shift", "constant", "plane", "parabola", "bogus"):
                for vec in (True, False):
                    res = compare_method(
                        orig_set_intensities_com, cls._set_intensities_com, pd, COM_STATE,
                        lambda: ((arr.copy(),), dict(dp_mask=None if mask is None else mask.copy(),
                                                     fit_function=fit, vectorized_calculation=vec)),
                        f"{tag} com fit={fit} vec={vec}",
                    )
                    n_ok["com"] += res == "ok"

    # --- _set_initial_scan_positions_px: padding, masks, rotation, transpose
    gp = tuple(int(g) for g in pd.gpts)
    part = rng.random(gp) > 0.3
    rot0, tr0 = pd.com_rotation_rad, pd.com_transpose
    for pad in (None, (0, 0), (3, 5), np.array([6, 2])):
        for pmask in (None, np.ones(gp, dtype=bool), part):
            for rot in (0.0, 0.3, -1.1):
                for tr in (False, True):
                    pd.com_rotation_rad, pd.com_transpose = rot, tr
                    res = compare_method(
                        orig_set_positions, cls._set_initial_scan_positions_px, pd, POS_STATE,
                        lambda: ((pad,), dict(positions_mask=pmask)),
                        f"{tag} positions pad={pad} rot={rot} tr={tr}",
                    )
                    n_ok["positions"] += res == "ok"
    pd.com_rotation_rad, pd.com_transpose = rot0, tr0

    # --- _normalize_diffraction_intensities: masks, bilinear, cropping
    # (with a partial mask the stored arrays only pass the shape validation of the setters when
    #  num_gpts equals the number of selected positions, so a view class reports that number;
    #  the four amplitude / intensity stacks are then stored and compared)
    com0 = pd.com_fit.copy()
    for com in (com0, (com0 + rng.normal(0, 0.7, com0.shape)).astype(np.float32)):
        pd.com_fit = com
        for pmask in (None, np.ones(gp, dtype=bool), part, np.zeros(gp, dtype=bool)):
            for bil in (False, True):
                for crop in (False, True):
                    for view in (False, True):
                        if view:
                            if pmask is None or not pmask.any():
                                continue
                            pd.__class__ = _MaskedView
                            pd._override_n = int(pmask.sum())
                        try:
                            res = compare_method(
                                orig_normalize, cls._normalize_diffraction_intensities, pd,
                                NORM_STATE,
                                lambda: ((), dict(positions_mask=pmask, crop_patterns=crop,
                                                  bilinear=bil)),
                                f"{tag} normalize bil={bil} crop={crop} view={view}",
                            )
                        finally:
                            pd._override_n = None
                            pd.__class__ = cls
                        n_ok["normalize"] += res == "ok"
    pd.com_fit = com0

    # --- _get_obj_patches: complex / float objects, value and gradient
    H, W = (int(s) for s in om.obj.shape[-2:])
    ns = int(om.obj.shape[0])
    idx_all = pd.patch_indices.detach()
    idx_small = torch.randint(0, H * W, (3, 2, 5), dtype=torch.int64)
    arrays = [
        om.obj.detach().clone(),
        torch.randn(ns, H, W, dtype=torch.complex64),
        torch.rand(ns, H, W, dtype=torch.float32),
        torch.rand(ns, H, W, dtype=torch.float64),
        torch.randn(ns, H, W, dtype=torch.complex128),
    ]
    for a in arrays:
        for idx in (idx_all, idx_all[::2], idx_small):
            a1 = a.clone().requires_grad_(True)
            a2 = a.clone().requires_grad_(True)
            r1 = outcome(orig_get_obj_patches, om, a1, idx)
            r2 = outcome(type(om)._get_obj_patches, om, a2, idx)
            same(r1, r2, f"{tag} patches {a.dtype}")
            if r1[0] == "ok":
                n_ok["patches"] += 1
                w = torch.randn_like(r1[1].detach())
                (r1[1] * w).abs().sum().backward()
                (r2[1] * w).abs().sum().backward()
                same(a1.grad, a2.grad, f"{tag} patches grad {a.dtype}")
    same(
        outcome(orig_get_obj_patches, om, arrays[0], torch.tensor([H * W + 7])),
        outcome(type(om)._get_obj_patches, om, arrays[0], torch.tensor([H * W + 7])),
        f"{tag} patches out of range",
    )

    # --- error_estimate: loss types, batches, gradients
    n = pd.num_gpts
    install_truth(pt, om, pm, truth, obj_scale=1.2)
    for lt in LOSSES + ["poisson", "l3_amplitude", "l2_l1_amplitude", "amplitude", ""]:
        with quiet():
            tgt = outcome(pd._set_targets, lt if lt in LOSSES + ["poisson"] else "l2_amplitude")
        assert tgt[0] == "ok"
        for b in (np.arange(n), np.arange(1, n, 2), np.array([0]), np.array([n + 3])):
            nb = len(b)
            pred = (torch.rand(nb, *[int(s) for s in pd.roi_shape]) * 3.0).requires_grad_(True)
            pred2 = pred.detach().clone().requires_grad_(True)
            r1 = outcome(orig_error_estimate, pt, pred, b, loss_type=lt)
            r2 = outcome(type(pt).error_estimate, pt, pred2, b, loss_type=lt)
            same(r1, r2, f"{tag} error_estimate {lt}")
            if r1[0] == "ok":
                n_ok["error_estimate"] += 1
                r1[1][0].backward()
                r2[1][0].backward()
                same(pred.grad, pred2.grad, f"{tag} error_estimate grad {lt}")
        r1 = outcome(orig_error_estimate, pt, torch.rand(n, 3, 3), np.arange(n))
        r2 = outcome(type(pt).error_estimate, pt, torch.rand(n, 3, 3), np.arange(n))
        assert r1[0] == r2[0] == "raised" and type(r1[1]) is type(r2[1])
    install_truth(pt, om, pm, truth)
    with quiet():
        pd._set_targets("l2_amplitude")
    return n_ok


def main():
    with tempfile.TemporaryDirectory() as tmp:
        os.chdir(tmp)
        total = {}
        for i, cfg in enumerate(CONFIGS):
            tag = f"cfg{i}[{cfg['obj_type']},{cfg['nslices']}sl,{cfg['modes']}m,roi{cfg['roi']}]"
            pt, pd, om, pm, truth = build(cfg, seed=100 + i)
            first = check_property(pt, pd, om, pm, truth, tag)
            for k, v in check_equivalence(pt, pd, om, pm, truth, tag, seed=200 + i).items():
                total[k] = total.get(k, 0) + v
            # the pipeline still satisfies the property after the equivalence sweep
            again = check_property(pt, pd, om, pm, truth, tag + " (after sweep)")
            same(first, again, tag + " repeatability")
            print(tag, "losses at ground truth:", {k: f"{v:.2e}" for k, v in first.items()})
        # "constant" descan: the fitted origin is the mean measured centre of mass
        cfg = dict(CONFIGS[1], com="constant")
        pt, pd, om, pm, truth = build(cfg, seed=300)
        for k, v in check_equivalence(pt, pd, om, pm, truth, "cfg-constant", seed=301).items():
            total[k] = total.get(k, 0) + v
        assert all(v > 20 for v in total.values()), total
        print(f"OK: successful old==new comparisons per function (plus matching exceptions): {total}")


if __name__ == "__main__":
    main()
    sys.exit(0)
