"""C19 demo: the configuration store is a last-writer-wins nested map.

Embeds a VERBATIM copy of the original (pre-edit) implementations of
set/_assign/__exit__, refresh, get, update_defaults, canonical_name, update,
merge and check_key_val from src/quantem/core/config.py, runs 400 random
histories of set / update_defaults / refresh / get / update / merge /
canonical_name / check_key_val on both the copy and the live module (each with
private state) and asserts that results, raised exceptions (type and args),
warnings, the resulting store, the defaults stack and the (possibly mutated)
arguments are identical after every step.  Then asserts the property directly.
"""

ORIGINAL_SRC = r'''
class set:
    """Temporarily set configuration values within a context manager

    Parameters
    ----------
    arg : mapping or None, optional
        A mapping of configuration key-value pairs to set.
    **kwargs :
        Additional key-value pairs to set. If ``arg`` is provided, values set
        in ``arg`` will be applied before those in ``kwargs``.
        Double-underscores (``__``) in keyword arguments will be replaced with
        ``.``, allowing nested values to be easily set.
    """

    def __init__(
        self,
        arg: Union[Mapping, None] = None,
        config: dict = config,
        **kwargs,
    ):
        self.config: dict = config
        self._record: list[tuple[Literal["insert", "replace"], tuple[str, ...], Any]] = []

        if arg is not None:
            if not isinstance(arg, (Mapping)):
                raise TypeError(f"arg must be a dictionary, got {type(arg).__name__}")
            for key, value in arg.items():
                key, value = check_key_val(key, value)
                self._assign(key.split("."), value, config)
        if kwargs:
            for key, value in kwargs.items():
                key = key.replace("__", ".")
                key, value = check_key_val(key, value)
                self._assign(key.split("."), value, config)

    def __enter__(self):
        return self.config

    def __exit__(self, exc_type, exc_value, traceback):
        for op, path, value in reversed(self._record):
            d = self.config
            if op == "replace":
                for key in path[:-1]:
                    d = d.setdefault(key, {})
                d[path[-1]] = value
            else:  # insert
                for key in path[:-1]:
                    try:
                        d = d[key]
                    except KeyError:
                        break
                else:
                    d.pop(path[-1], None)

    def _assign(
        self,
        keys: Sequence[str],
        value: Any,
        d: dict,
        path: tuple[str, ...] = (),
        record: bool = True,
    ) -> None:
        """Assign value into a nested configuration dictionary

        Parameters
        ----------
        keys : Sequence[str]
            The nested path of keys to assign the value.
        value : object
        d : dict
            The part of the nested dictionary into which we want to assign the
            value
        path : tuple[str], optional
            The path history up to this point.
        record : bool, optional
            Whether this operation needs to be recorded to allow for rollback.
        """
        key = canonical_name(keys[0], d)

        path = path + (key,)

        if len(keys) == 1:
            if record:
                if key in d:
                    self._record.append(("replace", path, d[key]))
                else:
                    self._record.append(("insert", path, None))
            d[key] = value
        else:
            if key not in d:
                if record:
                    self._record.append(("insert", path, None))
                d[key] = {}
                # No need to record subsequent operations after an insert
                record = False
            self._assign(keys[1:], value, d[key], path, record=record)


def refresh(config: dict = config, defaults: list[Mapping] = defaults, **kwargs) -> None:
    """
    Update configuration by re-reading yaml files and env variables

    This mutates the global quantem.config.config, or the config parameter if
    passed in.

    This goes through the following stages:

    1.  Clearing out all old configuration
    2.  Updating from the stored defaults from downstream libraries
        (see update_defaults)
    3.  Updating from yaml files and environment variables

    Note that some functionality only checks configuration once at startup and
    may not change behavior, even if configuration changes.  It is recommended
    to restart your python process if convenient to ensure that new
    configuration changes take place.

    See Also
    --------
    quantem.config.collect: for parameters
    quantem.config.update_defaults
    """
    config.clear()

    for d in defaults:
        update(config, d, priority="new")

    update(config, collect(**kwargs))


def get(
    key: str,
    default: Any = no_default,
    config: dict = config,
    override_with: Any = None,
) -> Any:
    """
    Get elements from global config

    If ``override_with`` is not None this value will be passed straight back.

    Use '.' for nested access
    """
    if override_with is not None:
        return override_with
    keys = key.split(".")
    result = config
    for k in keys:
        k = canonical_name(k, result)
        try:
            result = result[k]
        except (TypeError, IndexError, KeyError):
            if default is not no_default:
                return default
            else:
                raise
    return result


def update_defaults(new: dict, config: dict = config, defaults: list[Mapping] = defaults) -> None:
    """Add a new set of defaults to the configuration

    It does two things:

    1.  Add the defaults to a global collection to be used by refresh later
    2.  Updates the global config with the new configuration
        prioritizing older values over newer ones
    """
    for key, value in new.items():
        key, nval = check_key_val(key, value)
        new[key] = nval

    current_defaults = merge(*defaults)
    defaults.append(new)
    update(config, new, priority="new-defaults", defaults=current_defaults)


def canonical_name(k: str, config: dict) -> str:
    """Return the canonical name for a key.

    Handles user choice of '-' or '_' conventions by standardizing on whichever
    version was set first. If a key already exists in either hyphen or
    underscore form, the existing version is the canonical name. If neither
    version exists the original key is used as is.
    """
    try:
        if k in config:
            return k
    except TypeError:
        # config is not a mapping, return the same name as provided
        return k

    altk = k.replace("_", "-") if "_" in k else k.replace("-", "_")

    if altk in config:
        return altk

    return k


def update(
    old: dict,
    new: Mapping,
    priority: Literal["old", "new", "new-defaults"] = "new",
    defaults: Mapping | None = None,
) -> dict:
    """Update a nested dictionary with values from another

    This is like dict.update except that it smoothly merges nested values

    This operates in-place and modifies old

    Parameters
    ----------
    priority: string {'old', 'new', 'new-defaults'}
        If new (default) then the new dictionary has preference.
        Otherwise the old dictionary does.
        If 'new-defaults', a mapping should be given of the current defaults.
        Only if a value in ``old`` matches the current default, it will be
        updated with ``new``.

    Examples
    --------
    >>> a = {'x': 1, 'y': {'a': 2}}
    >>> b = {'x': 2, 'y': {'b': 3}}
    >>> update(a, b)  # doctest: +SKIP
    {'x': 2, 'y': {'a': 2, 'b': 3}}

    >>> a = {'x': 1, 'y': {'a': 2}}
    >>> b = {'x': 2, 'y': {'b': 3}}
    >>> update(a, b, priority='old')  # doctest: +SKIP
    {'x': 1, 'y': {'a': 2, 'b': 3}}

    >>> d = {'x': 0, 'y': {'a': 2}}
    >>> a = {'x': 1, 'y': {'a': 2}}
    >>> b = {'x': 2, 'y': {'a': 3, 'b': 3}}
    >>> update(a, b, priority='new-defaults', defaults=d)  # doctest: +SKIP
    {'x': 1, 'y': {'a': 3, 'b': 3}}

    """
    for k, v in new.items():
        k, v = check_key_val(k, v)
        k = canonical_name(k, old)

        if isinstance(v, Mapping):
            if k not in old or old[k] is None or not isinstance(old[k], dict):
                old[k] = {}
            update(
                old[k],
                v,
                priority=priority,
                defaults=defaults.get(k) if defaults else None,
            )
        else:
            if (
                priority == "new"
                or k not in old
                or (
                    priority == "new-defaults"
                    and defaults
                    and k in defaults
                    and defaults[k] == old[k]
                )
            ):
                old[k] = v

    return old


def merge(*dicts: Mapping) -> dict:
    """Update a sequence of nested dictionaries

    This prefers the values in the latter dictionaries to those in the former

    Examples
    --------
    >>> a = {'x': 1, 'y': {'a': 2}}
    >>> b = {'y': {'b': 3}}
    >>> merge(a, b)  # doctest: +SKIP
    {'x': 1, 'y': {'a': 2, 'b': 3}}
    """
    result: dict = {}
    for d in dicts:
        update(result, d)
    return result


def check_key_val(key: str, val: Any, deprecations: dict = deprecations) -> tuple[str, Any]:
    """Check if the provided value has been renamed or removed

    Parameters
    ----------
    key : str
        The configuration key to check
    deprecations : Dict[str, str]
        The mapping of aliases

    Examples
    --------
    >>> deprecations = {"old_key": "new_key", "invalid": None}
    >>> check_deprecations("old_key", deprecations=deprecations)  # doctest: +SKIP
    UserWarning: Configuration key "old_key" has been deprecated. Please use "new_key"
    instead.

    >>> check_deprecations("invalid", deprecations=deprecations)
    Traceback (most recent call last):
        ...
    ValueError: Configuration value "invalid" has been removed

    >>> check_deprecations("another_key", deprecations=deprecations)
    'another_key'

    Returns
    -------
    new: str
        The proper key, whether the original (if no deprecation) or the aliased
        value
    """
    if key in deprecations:
        new = deprecations[key]
        if new:
            warnings.warn(
                'Configuration key "{}" has been deprecated. Please use "{}" instead'.format(
                    key, new
                )
            )
        else:
            raise ValueError(f'Configuration value "{key}" has been removed')

    new_val = val
    if key in aliases:
        val_aliases = aliases[key]
        if val in val_aliases:
            new_val = val_aliases[val]

    if key == "device":
        if "cpu" in str(new_val):
            new_val = "cpu"
        else:
            new_val, gpu_id = validate_device(new_val)
            if "cuda" in new_val:
                torch.cuda.set_device(gpu_id)
                if config["has_cupy"]:
                    cp.cuda.runtime.setDevice(gpu_id)
    return key, new_val
'''


# --------------------------------------------------------------------------
# Differential harness: the ORIGINAL functions above (exec'd into a private
# namespace with private state) versus the live quantem.core.config module.
# --------------------------------------------------------------------------
import copy
import random
import sys
import tempfile
import warnings
from collections.abc import Iterator, Mapping, Sequence
from pathlib import Path
from typing import Any, Literal, Union

from quantem.core import config as live


def build_original_namespace():
    ns = {
        "__name__": "original_config",
        "Mapping": Mapping,
        "Sequence": Sequence,
        "Iterator": Iterator,
        "Any": Any,
        "Literal": Literal,
        "Union": Union,
        "Path": Path,
        "warnings": warnings,
        # unchanged collaborators are shared with the live module
        "torch": live.torch,
        "validate_device": live.validate_device,
        "collect": live.collect,
        "aliases": live.aliases,
        "deprecations": live.deprecations,
        "no_default": live.no_default,
        "NUM_DEVICES": live.NUM_DEVICES,
        # private state used only for default arguments of the copies
        "config": {},
        "defaults": [],
    }
    exec(compile("from __future__ import annotations\n" + ORIGINAL_SRC, "<original>", "exec"), ns)
    return ns


ORIG = build_original_namespace()


class Side:
    """One implementation (live or original) with its own private state."""

    def __init__(self, impl, tmp):
        self.impl = impl
        self.tmp = tmp
        self.config = {}
        self.defaults = []

    def f(self, name):
        if isinstance(self.impl, dict):
            return self.impl[name]
        return getattr(self.impl, name)

    def run(self, op):
        """Run an operation; return a fully comparable outcome."""
        kind = op[0]
        args = copy.deepcopy(op[1:])
        with warnings.catch_warnings(record=True) as w:
            warnings.simplefilter("always")
            try:
                out = getattr(self, "op_" + kind)(*args)
                res = ("ok", repr(out))
            except Exception as e:  # noqa: BLE001
                res = ("exc", type(e).__name__, repr(e.args))
        warned = [(x.category.__name__, str(x.message)) for x in w]
        return res, warned, repr(self.config), repr(self.defaults), repr(args)

    # -- operations -------------------------------------------------------
    def op_set_map(self, mapping):
        s = self.f("set")(mapping, config=self.config)
        return s._record

    def op_set_kw(self, kwargs):
        s = self.f("set")(config=self.config, **kwargs)
        return s._record

    def op_set_both(self, mapping, kwargs):
        s = self.f("set")(mapping, self.config, **kwargs)
        return s._record

    def op_set_ctx(self, mapping, probes):
        get = self.f("get")
        before = repr(self.config)
        with self.f("set")(mapping, config=self.config) as c:
            assert c is self.config
            inside = [get(p, "<missing>", self.config) for p in probes]
            inside_repr = repr(self.config)
        after = repr(self.config)
        return before, inside, inside_repr, after

    def op_set_ctx_mutate(self, mapping, extra):
        # set inside the context something else, then leave the context
        with self.f("set")(mapping, config=self.config):
            self.f("set")(extra, config=self.config)
        return repr(self.config)

    def op_update_defaults(self, new):
        self.f("update_defaults")(new, self.config, self.defaults)
        return new

    def op_refresh(self):
        self.f("refresh")(self.config, self.defaults, path=self.tmp)
        return None

    def op_get(self, key):
        return self.f("get")(key, config=self.config)

    def op_get_default(self, key, default):
        return self.f("get")(key, default, self.config)

    def op_get_override(self, key, override):
        return self.f("get")(key, config=self.config, override_with=override)

    def op_update(self, new, priority, dflt):
        out = self.f("update")(self.config, new, priority=priority, defaults=dflt)
        assert out is self.config
        return out

    def op_update_pos(self, old, new):
        out = self.f("update")(old, new)
        assert out is old
        return out

    def op_merge(self, dicts):
        return self.f("merge")(*dicts)

    def op_canonical(self, k, cfg):
        return self.f("canonical_name")(k, cfg)

    def op_canonical_live(self, k):
        return self.f("canonical_name")(k, self.config)

    def op_check(self, key, val, depr):
        return self.f("check_key_val")(key, val, depr)

    def op_assign(self, keys, value, record):
        s = self.f("set")(config=self.config)
        s._assign(keys, value, self.config, record=record)
        return s._record


# -- random operation generator -------------------------------------------
LEAF_KEYS = [
    "alpha", "beta", "dtype_real", "dtype-real", "fft-cache-size", "fft_cache_size",
    "a_b-c", "a-b_c", "a_b_c", "a-b-c", "x", "y", "z", "real_space_units",
    "real-space-units", "suppress-all-", "suppress_all_", "verbose", "", "_", "-",
]
GROUP_KEYS = ["viz", "cupy", "mkl", "deep_group", "deep-group", "x", "y", "alpha"]
SCALARS = [0, 1, 2, -1, 1.5, True, False, None, "", "cpu", "float32", "float64", "A", [1, 2], (3,), "0 MB"]
DEVICES = [
    "cpu", "CPU", "cpu:0", "xcpux", "cuda", "cuda:0", "cuda:7", "CUDA:0", "gpu", "GPU", "mps",
    "MPS", "tpu", "cudaX", "cuda:-1", "", 0, 1, -1, 3, 1.5, None, [0], "meta",
]


def rnd_value(rng, depth=0):
    if depth < 2 and rng.random() < 0.3:
        return rnd_mapping(rng, depth + 1)
    return rng.choice(SCALARS)


def rnd_mapping(rng, depth=0):
    n = rng.randint(0, 3)
    out = {}
    for _ in range(n):
        k = rng.choice(LEAF_KEYS + GROUP_KEYS)
        if k == "device":
            continue
        out[k] = rnd_value(rng, depth)
    return out


def rnd_key(rng, sep="."):
    r = rng.random()
    if r < 0.12:
        return "device"
    parts = []
    for _ in range(rng.choice([0, 0, 1, 1, 2])):
        parts.append(rng.choice(GROUP_KEYS))
    parts.append(rng.choice(LEAF_KEYS))
    return sep.join(parts)


def rnd_set_mapping(rng):
    out = {}
    for _ in range(rng.randint(0, 3)):
        k = rnd_key(rng)
        out[k] = rng.choice(DEVICES) if k == "device" else rnd_value(rng)
    return out


def rnd_kwargs(rng):
    out = {}
    for _ in range(rng.randint(0, 2)):
        k = rnd_key(rng, sep="__").replace("-", "_")
        if not k.isidentifier():
            continue
        out[k] = rng.choice(DEVICES) if k == "device" else rnd_value(rng)
    return out


def rnd_defaults(rng):
    out = rnd_mapping(rng)
    if rng.random() < 0.15:
        out["device"] = rng.choice(DEVICES)
    return out


def rnd_op(rng):
    r = rng.random()
    if r < 0.16:
        return ("set_map", rnd_set_mapping(rng))
    if r < 0.24:
        return ("set_kw", rnd_kwargs(rng))
    if r < 0.28:
        return ("set_both", rnd_set_mapping(rng), rnd_kwargs(rng))
    if r < 0.36:
        return ("set_ctx", rnd_set_mapping(rng), [rnd_key(rng) for _ in range(3)])
    if r < 0.40:
        return ("set_ctx_mutate", rnd_set_mapping(rng), rnd_set_mapping(rng))
    if r < 0.52:
        return ("update_defaults", rnd_defaults(rng))
    if r < 0.60:
        return ("refresh",)
    if r < 0.70:
        return ("get", rnd_key(rng))
    if r < 0.76:
        return ("get_default", rnd_key(rng), rng.choice([None, 0, "dflt", live.no_default]))
    if r < 0.78:
        return ("get_override", rnd_key(rng), rng.choice([None, 0, "ov", False]))
    if r < 0.86:
        return (
            "update",
            rnd_defaults(rng),
            rng.choice(["old", "new", "new-defaults", "bogus"]),
            rng.choice([None, {}, rnd_mapping(rng), rnd_mapping(rng), 5]),
        )
    if r < 0.88:
        return ("update_pos", rnd_mapping(rng), rnd_mapping(rng))
    if r < 0.91:
        return ("merge", [rnd_mapping(rng) for _ in range(rng.randint(0, 3))])
    if r < 0.94:
        return ("canonical", rng.choice(LEAF_KEYS), rng.choice([rnd_mapping(rng), 5, None, [1], "abc", {}]))
    if r < 0.96:
        return ("canonical_live", rng.choice(LEAF_KEYS + GROUP_KEYS))
    if r < 0.98:
        keys = [rng.choice(GROUP_KEYS) for _ in range(rng.randint(0, 2))] + [rng.choice(LEAF_KEYS)]
        return ("assign", rng.choice([keys, tuple(keys)]), rnd_value(rng), rng.choice([True, False]))
    return (
        "check",
        rng.choice(["old_key", "invalid", "gone", "device", "alpha", 'q"uote', "{}", "{0}"]),
        rng.choice(DEVICES + SCALARS),
        rng.choice([{}, {"old_key": "new_key", "invalid": None, "gone": "", 'q"uote': None,
                         "{}": None, "{0}": None}]),
    )


def differential(tmp):
    n_ops = 0
    kinds = {}
    excs = 0
    for seed in range(400):
        rng = random.Random(seed)
        a = Side(live, tmp)
        b = Side(ORIG, tmp)
        # half of the histories start from the shipped yaml defaults
        if seed % 2 == 0:
            import yaml

            with open(Path(live.__file__).with_name("quantem.yaml")) as f:
                shipped = yaml.safe_load(f)
            first = ("update_defaults", shipped)
            assert a.run(first) == b.run(first)
        for _ in range(40):
            op = rnd_op(rng)
            ra = a.run(op)
            rb = b.run(op)
            assert ra == rb, f"old != new for seed={seed} op={op!r}\n new: {ra}\n old: {rb}"
            n_ops += 1
            kinds[op[0]] = kinds.get(op[0], 0) + 1
            excs += ra[0][0] == "exc"
    return n_ops, kinds, excs


# -- direct property checks on the live module (reference model) -----------
def property_checks(tmp):
    c = live
    cfg, dfl = {}, []
    c.update_defaults({"device": "cpu", "dtype_real": "float32", "viz": {"cmap": "gray", "real_space_units": "A"},
                       "cupy": {"fft-cache-size": "0 MB"}}, cfg, dfl)
    base = copy.deepcopy(cfg)

    # last writer wins, '-'/'_' are one entry, siblings preserved
    c.set({"viz.cmap": "magma"}, config=cfg)
    c.set(config=cfg, viz__real_space_units="nm")
    c.set({"viz.real-space-units": "pm"}, config=cfg)
    assert c.get("viz.cmap", config=cfg) == "magma"
    assert c.get("viz.real_space_units", config=cfg) == "pm"
    assert c.get("viz.real-space-units", config=cfg) == "pm"
    assert list(cfg["viz"]) == ["cmap", "real_space_units"]
    c.set({"cupy.fft_cache_size": "8 MB"}, config=cfg)
    assert cfg["cupy"] == {"fft-cache-size": "8 MB"}
    c.set({"viz": {"extra": 1}}, config=cfg)  # plain assignment replaces
    assert cfg["viz"] == {"extra": 1}
    c.update(cfg, {"viz": {"cmap": "hot"}})  # merge keeps siblings
    assert cfg["viz"] == {"extra": 1, "cmap": "hot"}

    # refresh restores exactly the accumulated defaults
    c.refresh(cfg, dfl, path=tmp)
    assert cfg == base
    c.update_defaults({"dtype_real": "int32", "viz": {"phase_cmap": "hsluv"}}, cfg, dfl)
    assert c.get("dtype_real", config=cfg) == "int32"
    assert cfg["viz"] == {"cmap": "gray", "real_space_units": "A", "phase_cmap": "hsluv"}
    c.set({"dtype-real": "float64"}, config=cfg)
    c.update_defaults({"dtype_real": "int8"}, cfg, dfl)  # user value is kept
    assert c.get("dtype_real", config=cfg) == "float64"
    c.refresh(cfg, dfl, path=tmp)
    assert c.get("dtype_real", config=cfg) == "int8"
    assert cfg == c.merge(*dfl)

    # devices: rejected requests leave the stored device unchanged
    for bad in ["cuda:0", "gpu", "mps", "tpu", "cudaX", 0, -1, 1.5, [0], ""]:
        if live.torch.cuda.is_available() or live.torch.mps.is_available():
            break
        before = copy.deepcopy(cfg)
        try:
            c.set({"device": bad}, config=cfg)
        except (RuntimeError, ValueError, TypeError):
            pass
        else:
            raise AssertionError(f"device {bad!r} accepted")
        assert cfg == before
    c.set({"device": "CPU:0".lower()}, config=cfg)
    assert c.get("device", config=cfg) == "cpu"

    # context manager restores
    before = copy.deepcopy(cfg)
    with c.set({"viz.cmap": "jet", "new.deep.key": 1, "dtype-real": "f2"}, config=cfg, viz__added=2):
        assert c.get("viz.cmap", config=cfg) == "jet"
        assert c.get("new.deep.key", config=cfg) == 1
        assert c.get("dtype_real", config=cfg) == "f2"
        assert c.get("viz.added", config=cfg) == 2
    assert cfg == before and list(cfg) == list(before)

    # removed keys: message is pinned
    for key in ["gone", 'q"uote', "{}", "{0}"]:
        try:
            c.check_key_val(key, 1, {key: None})
        except ValueError as e:
            assert e.args == ('Configuration value "' + key + '" has been removed',)
        else:
            raise AssertionError("removed key accepted")

    # global state of the real store
    real0 = copy.deepcopy(c.config)
    with c.set({"viz.cmap": "jet"}):
        assert c.get("viz.cmap") == "jet"
    assert c.config == real0


def main():
    with tempfile.TemporaryDirectory() as tmp:
        n_ops, kinds, excs = differential(tmp)
        property_checks(tmp)
    assert n_ops == 400 * 40
    assert excs > 500, excs
    print(f"old == new on {n_ops} operations ({excs} raising) over 400 histories")
    print("operation mix:", dict(sorted(kinds.items())))
    print("property checks passed")
    return 0


if __name__ == "__main__":
    sys.exit(main())
