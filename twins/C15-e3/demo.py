"""Demo for C15 patch 3: bilinear splat + Gaussian KDE (imaging_utils.bilinear_kde).

Checks (on the unmodified tree and with the patch applied):
  * bilinear_kde is bit-identical (values, dtypes, shapes) to a verbatim copy of the ORIGINAL
    implementation for odd / non-square canvases, coordinates outside the canvas (wrapping),
    exact-integer coordinates, float32 / integer inputs, tuple / list / ndarray output_shape,
    all batch sizes, lowpass on/off, with and without the pixel count, and it fails in the
    same way (exception type + message) for malformed input;
  * every input point contributes unit total weight (sum of the count map == number of
    points), also through DriftInterpolator.warp_image for all knot counts / upsampling;
  * a stack of identical images is a fixed point of align_translation.
"""

import itertools
import warnings

import matplotlib

matplotlib.use("Agg")

import numpy as np
from scipy.ndimage import gaussian_filter

from quantem.core.utils.imaging_utils import bilinear_kde
from quantem.core.utils.utils import generate_batches
from quantem.imaging.drift import DriftCorrection

warnings.filterwarnings("ignore")


# ----------------------------------------------------------------------------------------
# verbatim copy of the ORIGINAL function (HEAD of the worktree)
# ----------------------------------------------------------------------------------------
def original_bilinear_kde(
    xa,
    ya,
    values,
    output_shape,
    kde_sigma,
    pad_value=0.0,
    threshold=1e-3,
    lowpass_filter=False,
    max_batch_size=None,
    return_pix_count=False,
):
    rows, cols = output_shape
    xF = np.floor(xa.ravel()).astype(int)
    yF = np.floor(ya.ravel()).astype(int)
    dx = xa.ravel() - xF
    dy = ya.ravel() - yF
    w = values.ravel()

    pix_count = np.zeros(rows * cols, dtype=np.float32)
    pix_output = np.zeros(rows * cols, dtype=np.float32)

    if max_batch_size is None:
        max_batch_size = xF.shape[0]

    for start, end in generate_batches(xF.shape[0], max_batch=max_batch_size):
        for dx_off, dy_off, weights in [
            (0, 0, (1 - dx[start:end]) * (1 - dy[start:end])),
            (1, 0, dx[start:end] * (1 - dy[start:end])),
            (0, 1, (1 - dx[start:end]) * dy[start:end]),
            (1, 1, dx[start:end] * dy[start:end]),
        ]:
            inds = [xF[start:end] + dx_off, yF[start:end] + dy_off]
            inds_1D = np.ravel_multi_index(inds, dims=output_shape, mode="wrap")

            pix_count += np.bincount(inds_1D, weights=weights, minlength=rows * cols)
            pix_output += np.bincount(
                inds_1D, weights=weights * w[start:end], minlength=rows * cols
            )

    # Reshape to 2D and apply Gaussian KDE
    pix_count = pix_count.reshape(output_shape)
    pix_output = pix_output.reshape(output_shape)

    pix_count = gaussian_filter(pix_count, kde_sigma)
    pix_output = gaussian_filter(pix_output, kde_sigma)

    # Final image
    weight = np.minimum(pix_count / threshold, 1.0)
    image = pad_value * (1.0 - weight) + weight * (pix_output / np.maximum(pix_count, 1e-8))

    if lowpass_filter:
        f_img = np.fft.fft2(image)
        fx = np.fft.fftfreq(rows)
        fy = np.fft.fftfreq(cols)
        f_img /= np.sinc(fx)[:, None]
        f_img /= np.sinc(fy)[None, :]
        image = np.real(np.fft.ifft2(f_img))

        if return_pix_count:
            f_img = np.fft.fft2(pix_count)
            f_img /= np.sinc(fx)[:, None]
            f_img /= np.sinc(fy)[None, :]
            pix_count = np.real(np.fft.ifft2(f_img))

    if return_pix_count:
        return image, pix_count
    else:
        return image


# ----------------------------------------------------------------------------------------
def same(a, b):
    return (
        isinstance(a, np.ndarray)
        and isinstance(b, np.ndarray)
        and a.shape == b.shape
        and a.dtype == b.dtype
        and np.array_equal(a, b, equal_nan=True)
    )


def outcome(fn, *args, **kwargs):
    try:
        res = fn(*args, **kwargs)
    except Exception as e:  # noqa: BLE001
        return ("err", type(e), str(e))
    return ("ok", res if isinstance(res, tuple) else (res,))


def assert_same_outcome(o_new, o_old, what):
    assert o_new[0] == o_old[0], (what, o_new, o_old)
    if o_new[0] == "err":
        assert o_new[1:] == o_old[1:], (what, o_new, o_old)
    else:
        assert len(o_new[1]) == len(o_old[1]), what
        for a, b in zip(o_new[1], o_old[1]):
            assert same(a, b), what


rng = np.random.default_rng(1)
n_compared = 0

point_shapes = [(8, 8), (7, 11), (12, 5), (1, 9), (6, 1), (30,), (2, 3, 4)]
canvases = [(10, 10), (9, 14), (15, 6), (5, 7)]

for pshape, canvas in itertools.product(point_shapes, canvases):
    n = int(np.prod(pshape))
    coordinate_sets = {
        "inside": (
            rng.uniform(0, canvas[0] - 1, size=pshape),
            rng.uniform(0, canvas[1] - 1, size=pshape),
        ),
        "wrapping": (  # negative and beyond the far edge
            rng.uniform(-2.5 * canvas[0], 3.5 * canvas[0], size=pshape),
            rng.uniform(-2.5 * canvas[1], 3.5 * canvas[1], size=pshape),
        ),
        "integer-valued": (
            rng.integers(-3, canvas[0] + 3, size=pshape).astype(float),
            rng.integers(-3, canvas[1] + 3, size=pshape).astype(float),
        ),
        "int-dtype": (
            rng.integers(-3, canvas[0] + 3, size=pshape),
            rng.integers(-3, canvas[1] + 3, size=pshape),
        ),
        "float32": (
            rng.uniform(-1, canvas[0], size=pshape).astype(np.float32),
            rng.uniform(-1, canvas[1], size=pshape).astype(np.float32),
        ),
        "non-contiguous": (
            rng.uniform(0, canvas[0], size=pshape[::-1]).T,
            rng.uniform(0, canvas[1], size=pshape[::-1]).T,
        ),
    }
    value_sets = {
        "float": rng.normal(size=pshape),
        "float32": rng.normal(size=pshape).astype(np.float32),
        "int": rng.integers(-5, 50, size=pshape),
        "ones": np.ones(pshape),
    }
    for (cname, (xa, ya)), (vname, values) in itertools.product(
        coordinate_sets.items(), value_sets.items()
    ):
        for k_ind, kwargs in enumerate([
            dict(kde_sigma=0.5, return_pix_count=True),
            dict(kde_sigma=0.5),
            dict(kde_sigma=1.2, pad_value=0.7, max_batch_size=1, return_pix_count=True),
            dict(kde_sigma=0.8, pad_value=-2.0, max_batch_size=5, return_pix_count=True),
            dict(kde_sigma=0.3, max_batch_size=n, threshold=0.5, return_pix_count=True),
            dict(kde_sigma=0.3, max_batch_size=3 * n + 1, return_pix_count=True),
            dict(kde_sigma=0.6, lowpass_filter=True, return_pix_count=True),
            dict(kde_sigma=0.6, lowpass_filter=True, max_batch_size=7),
            dict(kde_sigma=0.0, return_pix_count=True),
        ]):
            # output_shape as tuple always; as list / ndarray (what warp_image passes) for two
            oshapes = (canvas, list(canvas), np.array(canvas)) if k_ind in (0, 3) else (canvas,)
            for oshape in oshapes:
                o_new = outcome(bilinear_kde, xa, ya, values, oshape, **kwargs)
                o_old = outcome(original_bilinear_kde, xa, ya, values, oshape, **kwargs)
                assert_same_outcome(o_new, o_old, (pshape, canvas, cname, vname, kwargs))
                n_compared += 1

        # unit total weight per point (Gaussian filter with reflecting edges conserves mass)
        _, count = bilinear_kde(xa, ya, values, canvas, kde_sigma=0.5, return_pix_count=True)
        assert count.shape == canvas and count.dtype == np.float32
        assert abs(float(count.sum()) - n) <= 2e-3 * n, (pshape, canvas, cname, count.sum(), n)

# ---- inputs are not modified ---------------------------------------------------------------
xa = rng.uniform(-3, 12, size=(6, 7))
ya = rng.uniform(-3, 12, size=(6, 7))
va = rng.normal(size=(6, 7))
copies = xa.copy(), ya.copy(), va.copy()
bilinear_kde(xa, ya, va, (9, 9), kde_sigma=0.5, max_batch_size=4)
assert np.array_equal(xa, copies[0]) and np.array_equal(ya, copies[1])
assert np.array_equal(va, copies[2])

# ---- malformed input fails identically -------------------------------------------------------
good = rng.uniform(0, 5, size=(4, 4))
bad_calls = [
    dict(xa=good, ya=good, values=np.ones((3, 3)), output_shape=(6, 6), kde_sigma=0.5),
    dict(xa=good, ya=good[:2], values=good, output_shape=(6, 6), kde_sigma=0.5),
    dict(xa=good, ya=good, values=good, output_shape=(6, 6, 2), kde_sigma=0.5),
    dict(xa=good, ya=good, values=good, output_shape=(6.0, 6.0), kde_sigma=0.5),
    dict(xa=good, ya=good, values=good, output_shape=(0, 6), kde_sigma=0.5),
    dict(xa=good, ya=good, values=good, output_shape=(6, 6), kde_sigma=0.5, max_batch_size=0),
    dict(xa=good, ya=good, values=good, output_shape=(6, 6), kde_sigma=0.5, max_batch_size=-1),
    dict(xa=good.tolist(), ya=good, values=good, output_shape=(6, 6), kde_sigma=0.5),
    dict(xa=good, ya=good, values=good.tolist(), output_shape=(6, 6), kde_sigma=0.5),
    dict(xa=good * np.nan, ya=good, values=good, output_shape=(6, 6), kde_sigma=0.5),
    dict(xa=good + 1j, ya=good, values=good, output_shape=(6, 6), kde_sigma=0.5),
    dict(xa=good, ya=good, values=good + 1j, output_shape=(6, 6), kde_sigma=0.5),
    dict(xa=good, ya=good, values=np.ones(1), output_shape=(6, 6), kde_sigma=0.5),
    dict(
        xa=good, ya=good, values=np.ones(1), output_shape=(6, 6), kde_sigma=0.5, max_batch_size=3
    ),
    dict(xa=np.zeros((0,)), ya=np.zeros((0,)), values=np.zeros((0,)), output_shape=(4, 5),
         kde_sigma=0.5, return_pix_count=True),
    dict(xa=np.zeros((0, 3)), ya=np.zeros((0, 3)), values=np.zeros((0, 3)), output_shape=(4, 5),
         kde_sigma=0.5, max_batch_size=2),
    dict(xa=np.array(2.5), ya=np.array(1.25), values=np.array(3.0), output_shape=(4, 5),
         kde_sigma=0.5, return_pix_count=True),
]
n_err = 0
for kw in bad_calls:
    o_new = outcome(bilinear_kde, **kw)
    o_old = outcome(original_bilinear_kde, **kw)
    assert_same_outcome(o_new, o_old, ("bad", {k: v for k, v in kw.items() if k != "xa"}))
    n_err += o_new[0] == "err"
assert n_err >= 5, n_err


# ---- through the drift-correction pipeline -----------------------------------------------------
def make_image(shape, seed):
    r = np.random.default_rng(seed)
    im = r.normal(size=shape)
    rr, cc = np.meshgrid(np.arange(shape[0]), np.arange(shape[1]), indexing="ij")
    for _ in range(4):
        r0, c0 = r.uniform(1, shape[0] - 2), r.uniform(1, shape[1] - 2)
        im += 6.0 * np.exp(-((rr - r0) ** 2 + (cc - c0) ** 2) / (2 * 1.3**2))
    return im


for shape, n_img, angle, n_knots, pad, sigma, up in [
    ((16, 16), 2, 0.0, 1, 0.25, 0.5, 8),
    ((15, 22), 3, 90.0, 2, 0.25, 0.5, 8),
    ((21, 14), 4, 37.0, 3, 0.5, 0.8, 4),
    ((18, 25), 2, 200.0, 4, 0.1, 1.0, 16),
    ((13, 9), 3, 301.0, 1, 0.0, 0.5, 2),
]:
    im = make_image(shape, 5)
    dc = DriftCorrection.from_data([im.copy() for _ in range(n_img)], [angle] * n_img)
    dc.preprocess(pad_fraction=pad, number_knots=n_knots, kde_sigma=sigma)
    for ind in range(n_img):
        interp = dc.interpolator[ind]
        assert abs(dc.weights_warped.array[ind].sum() - im.size) <= 2e-3 * im.size
        for upsample in (None, 2, 3):
            im_new, w_new = interp.warp_image(im, dc.knots[ind], upsample_factor=upsample)
            f = 1.0 if upsample is None else upsample
            xa, ya = interp.transform_coordinates(dc.knots[ind])
            im_old, w_old = original_bilinear_kde(
                xa=xa * f,
                ya=ya * f,
                values=im,
                output_shape=np.round(np.array(interp.output_shape) * f).astype("int"),
                kde_sigma=interp.kde_sigma * f,
                pad_value=interp.pad_value,
                return_pix_count=True,
            )
            assert same(im_new, im_old) and same(w_new, w_old)
            assert abs(w_new.sum() - im.size) <= 2e-3 * im.size
    before = [k.copy() for k in dc.knots]
    dc.align_translation(upsample_factor=up, show_merged=False)
    for k0, k1 in zip(before, dc.knots):
        assert np.allclose(k1, k0, atol=1e-6, rtol=0), np.abs(k1 - k0).max()

print(f"PASS ({n_compared} old-vs-new comparisons, {n_err} identical failures)")
