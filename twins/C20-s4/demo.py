"""Demo for property C20 (display normalisation is a monotone map into [0, 1] with invertible stretches).

Embeds verbatim copies of the ORIGINAL interval / linear-stretch code and checks, on a spread of inputs,
that the code in the tree produces bit-for-bit the same results (values, dtypes, shapes, exception types),
and that the property itself holds end to end through CustomNormalization.

Run:  PYTHONPATH=<root>/src /venv/bin/python demo.py
"""

import itertools
import warnings
from abc import ABC, abstractmethod
from dataclasses import dataclass

import numpy as np
from numpy.typing import NDArray

from quantem.core.visualization import custom_normalizations as cn

# --------------------------------------------------------------------------------------
# verbatim copies of the original code (worktree HEAD)
# --------------------------------------------------------------------------------------


class OrigBaseInterval(ABC):
    @abstractmethod
    def get_limits(self, values: NDArray) -> tuple[float, float]:
        raise NotImplementedError("Subclasses must implement get_limits")

    def __call__(self, values: NDArray) -> NDArray:
        vmin, vmax = self.get_limits(values)
        # data-derived limits are NumPy scalars of the data's dtype: vmax - vmin would wrap for narrow integers
        vmin, vmax = float(vmin), float(vmax)

        # integer data is converted first: unsigned subtraction would wrap around below vmin
        values = np.asarray(values)
        if np.issubdtype(values.dtype, np.integer):
            values = values.astype(np.float64)
        # subtract vmin
        values = np.subtract(values, vmin)
        # divide by interval
        if (vmax - vmin) != 0.0:
            np.true_divide(values, vmax - vmin, out=values)

        # clip to [0:1]
        np.clip(values, 0.0, 1.0, out=values)
        return values

    def inverse(self, values: NDArray) -> NDArray:
        vmin, vmax = self.get_limits(values)
        vmin, vmax = float(vmin), float(vmax)

        values = np.multiply(values, vmax - vmin)
        np.add(values, vmin, out=values)
        return values


@dataclass
class OrigManualInterval(OrigBaseInterval):
    vmin: float | None = None
    vmax: float | None = None

    def get_limits(self, values: NDArray) -> tuple[float, float]:
        # Avoid overhead of preparing array if both limits have been specified
        # manually, for performance.

        if self.vmin is not None and self.vmax is not None:
            return self.vmin, self.vmax

        # Make sure values is a Numpy array
        values = np.asarray(values).ravel()

        # Filter out invalid values (inf, nan)
        values = values[np.isfinite(values)]
        vmin = np.min(values) if self.vmin is None else self.vmin
        vmax = np.max(values) if self.vmax is None else self.vmax

        return vmin, vmax


@dataclass
class OrigCenteredInterval(OrigBaseInterval):
    vcenter: float = 0.0
    half_range: float | None = None

    def get_limits(self, values: NDArray) -> tuple[float, float]:
        if self.half_range is not None:
            return self.vcenter - self.half_range, self.vcenter + self.half_range

        values = np.asarray(values).ravel()
        values = values[np.isfinite(values)]
        vmin = np.min(values)
        vmax = np.max(values)

        half_range = np.maximum(np.abs(vmin - self.vcenter), np.abs(vmax - self.vcenter))

        return self.vcenter - half_range, self.vcenter + half_range


@dataclass
class OrigQuantileInterval(OrigBaseInterval):
    lower_quantile: float = 0.02
    upper_quantile: float = 0.98

    def get_limits(self, values: NDArray) -> tuple[float, float]:
        # Make sure values is a Numpy array
        values = np.asarray(values).ravel()

        # Filter out invalid values (inf, nan)
        values = values[np.isfinite(values)]
        vmin, vmax = np.quantile(values, (self.lower_quantile, self.upper_quantile))  # type: ignore

        return vmin, vmax


@dataclass
class OrigLinearStretch:
    slope: float = 1.0
    intercept: float = 0.0

    def __call__(self, values: NDArray, copy: bool = True) -> NDArray:
        if self.slope == 1.0 and self.intercept == 0.0:
            return values

        values = np.array(values, copy=copy)
        np.clip(values, 0.0, 1.0, out=values)
        if self.slope != 1.0:
            np.multiply(values, self.slope, out=values)
        if self.intercept != 0.0:
            np.add(values, self.intercept, out=values)
        return values

    @property
    def inverse(self) -> "OrigLinearStretch":
        return OrigLinearStretch(1 / self.slope, -self.intercept / self.slope)


# --------------------------------------------------------------------------------------
# helpers
# --------------------------------------------------------------------------------------


def fingerprint(x):
    """Bit-exact fingerprint of a scalar / array / tuple result (type, dtype, shape, raw bytes)."""
    if isinstance(x, tuple):
        return ("tuple",) + tuple(fingerprint(v) for v in x)
    if isinstance(x, np.ma.MaskedArray):
        return (
            "ma",
            fingerprint(np.asarray(x.data)),
            fingerprint(np.ma.getmaskarray(x)),
        )
    if isinstance(x, np.ndarray):
        return ("nd", str(x.dtype), x.shape, np.ascontiguousarray(x).tobytes())
    if isinstance(x, np.generic):
        return ("npscalar", type(x).__name__, x.tobytes())
    if isinstance(x, float):
        return ("float", np.float64(x).tobytes())
    return (type(x).__name__, repr(x))


def outcome(fn, *args, **kwargs):
    """Result fingerprint, or the exception type if the call raises. Warnings are recorded too."""
    with warnings.catch_warnings(record=True) as w:
        warnings.simplefilter("always")
        try:
            res = ("ok", fingerprint(fn(*args, **kwargs)))
        except Exception as e:  # noqa: BLE001
            res = ("raise", type(e).__name__)
    return res, sorted({wi.category.__name__ for wi in w})


def make_arrays():
    rng = np.random.default_rng(20)
    arrs = []
    shapes = [(7,), (4, 5), (3, 4, 5), (2, 3, 2, 2), (1, 9), (9, 1), (33,), (16, 16), (1,)]
    for shape in shapes:
        base = rng.normal(size=shape) * 10.0
        for dt in (np.float64, np.float32, np.float16):
            a = base.astype(dt)
            arrs.append(a)
            arrs.append(np.asfortranarray(a))
            if a.ndim >= 2:
                arrs.append(a.T)
                arrs.append(a[..., ::2])
                arrs.append(np.swapaxes(a, 0, -1)[::-1])
            b = a.copy()
            flat = b.reshape(-1)
            if flat.size >= 5:
                flat[0] = np.nan
                flat[2] = np.inf
                flat[-1] = -np.inf
                arrs.append(b)
                arrs.append(np.asfortranarray(b))
                if b.ndim >= 2:
                    arrs.append(b.T)
        for dt in (np.int8, np.uint8, np.int16, np.uint16, np.int32, np.uint32, np.int64, np.uint64):
            info = np.iinfo(dt)
            lo, hi = max(info.min, -(2**40)), min(info.max, 2**40)
            a = rng.integers(lo, hi, size=shape, endpoint=True).astype(dt)
            arrs.append(a)
            if a.ndim >= 2:
                arrs.append(a.T)
                arrs.append(np.asfortranarray(a))
        arrs.append(rng.integers(0, 2, size=shape).astype(bool))
    # signed zeros, constants, extreme magnitudes, degenerate inputs
    for n in (1, 2, 3, 4, 5, 7, 8, 9, 15, 16, 17, 31, 32, 33, 64, 65):
        for pattern in itertools.product((0.0, -0.0), repeat=2):
            z = np.resize(np.array(pattern), n)
            arrs.append(z.astype(np.float64))
            arrs.append(z.astype(np.float32))
            arrs.append(z[::-1].astype(np.float64).reshape(n, 1))
    arrs.append(np.full((3, 4), 2.5))
    arrs.append(np.full((3, 4), 7, dtype=np.uint8))
    arrs.append(np.array([[-1e308, 1e308], [0.0, 5e-324]]))
    arrs.append(np.array([[np.nan, np.nan], [np.inf, -np.inf]]))  # no finite value
    arrs.append(np.zeros((0,), dtype=np.float64))
    arrs.append(np.zeros((0, 3), dtype=np.int16))
    arrs.append(np.array([[np.nan, 1.0], [np.nan, np.nan]]))  # single finite value
    arrs.append(np.arange(12).reshape(3, 4) * (1.0 + 0.0j))  # complex
    return arrs


def check_old_vs_new():
    arrs = make_arrays()
    n_checks = 0

    interval_pairs = []
    for lo, hi in ((0.02, 0.98), (0.0, 1.0), (0.25, 0.5), (0.5, 0.5), (0.1, 0.9), (1 / 3, 2 / 3)):
        interval_pairs.append((OrigQuantileInterval(lo, hi), cn.QuantileInterval(lo, hi)))
    for vc, hr in (
        (0.0, None),
        (-0.0, None),
        (1.5, None),
        (-3, None),
        (1e300, None),
        (np.float32(0.25), None),
        (0.0, 2.0),
        (1.0, 0.0),
        (np.nan, None),
        (np.inf, None),
    ):
        interval_pairs.append((OrigCenteredInterval(vc, hr), cn.CenteredInterval(vc, hr)))
    for vmin, vmax in ((None, None), (0, None), (None, 5), (1, 3), (3.0, 3.0), (-0.0, None), (None, 0.0)):
        interval_pairs.append((OrigManualInterval(vmin, vmax), cn.ManualInterval(vmin, vmax)))

    for a in arrs:
        for old, new in interval_pairs:
            a_before = a.copy()
            r_old = outcome(old.get_limits, a)
            r_new = outcome(new.get_limits, a)
            assert r_old == r_new, ("get_limits", old, a.dtype, a.shape, r_old, r_new)
            r_old = outcome(old, a)
            r_new = outcome(new, a)
            assert r_old == r_new, ("__call__", old, a.dtype, a.shape, r_old[0][0], r_new[0][0])
            # the caller's data is never modified and the result never aliases it
            assert fingerprint(a) == fingerprint(a_before)
            try:
                res = new(a)
            except Exception:  # noqa: BLE001
                res = None
            if res is not None:
                assert not np.shares_memory(res, a)
            y = np.linspace(0.0, 1.0, 7)
            assert outcome(old.inverse, y) == outcome(new.inverse, y)
            n_checks += 1

    # linear stretch: every slope/intercept combination, array kinds, copy flag
    slopes = (1.0, 1, 2.0, 0.5, -1.0, np.float32(3.0), np.float64(1.0), 1e-3, np.inf)
    intercepts = (0.0, -0.0, 0, 0.25, -0.5, np.float64(0.0), np.float32(0.0), np.float32(0.5), np.nan, 1, False, True)
    ys = [
        np.linspace(-0.5, 1.5, 11),
        np.linspace(0.0, 1.0, 8).astype(np.float32).reshape(2, 4),
        np.array([np.nan, 0.0, -0.0, 1.0, np.inf, -np.inf]),
        [0.0, 0.5, 1.0],
        np.arange(3),
    ]
    for s, b, y, copy in itertools.product(slopes, intercepts, ys, (True, False)):
        y1 = y.copy() if isinstance(y, np.ndarray) else list(y)
        y2 = y.copy() if isinstance(y, np.ndarray) else list(y)
        r_old = outcome(OrigLinearStretch(s, b), y1, copy=copy)
        r_new = outcome(cn.LinearStretch(s, b), y2, copy=copy)
        assert r_old == r_new, ("LinearStretch", s, b, copy, r_old, r_new)
        # same in-place side effects on the argument
        assert fingerprint(y1) == fingerprint(y2) if isinstance(y, np.ndarray) else y1 == y2
        # identity / aliasing of the return value
        o, n = OrigLinearStretch(s, b), cn.LinearStretch(s, b)
        if isinstance(y, np.ndarray) and y.dtype.kind == "f":
            assert (o(y1, copy=copy) is y1) == (n(y2, copy=copy) is y2)
        if s not in (0, np.inf):
            oi, ni = o.inverse, n.inverse
            assert fingerprint((oi.slope, oi.intercept)) == fingerprint((ni.slope, ni.intercept))
        n_checks += 1
    return n_checks


# --------------------------------------------------------------------------------------
# the property itself, end to end
# --------------------------------------------------------------------------------------


def orig_normalize(data, value, **cfg):
    """CustomNormalization(**cfg, data=data)(value) computed with the ORIGINAL interval / linear-stretch code."""
    n = cn.CustomNormalization(**cfg)  # builds the stretch; limits handled below
    it = n.interval
    if isinstance(it, cn.QuantileInterval):
        it = OrigQuantileInterval(it.lower_quantile, it.upper_quantile)
    elif isinstance(it, cn.ManualInterval):
        it = OrigManualInterval(it.vmin, it.vmax)
    else:
        it = OrigCenteredInterval(it.vcenter, it.half_range)
    if data.dtype == np.bool_:
        n.vmin, n.vmax = 0.0, 1.0
    else:
        n.vmin, n.vmax = it.get_limits(data)
    it = OrigManualInterval(n.vmin, n.vmax)
    stretch = n.stretch
    if isinstance(stretch, cn.LinearStretch):
        stretch = OrigLinearStretch(stretch.slope, stretch.intercept)
    values = it(value)
    stretch(values, copy=False)
    return (n.vmin, n.vmax), np.ma.masked_invalid(values)


def check_property():
    rng = np.random.default_rng(7)
    datas = []
    for shape in ((50,), (8, 9), (3, 5, 4)):
        f = rng.normal(size=shape) * 5 + 1
        datas.append(f)
        datas.append(f.astype(np.float32))
        g = f.copy()
        g.reshape(-1)[[1, 4, 6]] = [np.nan, np.inf, -np.inf]
        datas.append(g)
        datas.append(np.asfortranarray(g))
        if g.ndim == 2:
            datas.append(g.T)
        datas.append(rng.integers(0, 255, size=shape, endpoint=True).astype(np.uint8))
        datas.append(rng.integers(-128, 127, size=shape, endpoint=True).astype(np.int8))
        datas.append(rng.integers(0, 60000, size=shape).astype(np.uint16))
        datas.append(rng.integers(-(2**40), 2**40, size=shape))
    datas.append(np.array([[0.0, -0.0], [1.0, -1.0]]))

    configs = []
    for stretch in (
        dict(stretch_type="linear"),
        dict(stretch_type="power", power=2.0),
        dict(stretch_type="power", power=0.5),
        dict(stretch_type="linear", power=3.3),
        dict(stretch_type="logarithmic"),
        dict(stretch_type="logarithmic", logarithmic_index=0.5),
        dict(stretch_type="logarithmic", logarithmic_index=1e5),
        dict(stretch_type="asinh"),
        dict(stretch_type="asinh", asinh_linear_range=2.0),
        dict(stretch_type="asinh", asinh_linear_range=0.01),
    ):
        for interval in (
            dict(interval_type="quantile"),
            dict(interval_type="quantile", lower_quantile=0.0, upper_quantile=1.0),
            dict(interval_type="quantile", lower_quantile=0.3, upper_quantile=0.6),
            dict(interval_type="manual"),
            dict(interval_type="manual", vmin=-1.0),
            dict(interval_type="manual", vmin=-2.0, vmax=40.0),
            dict(interval_type="centered"),
            dict(interval_type="centered", vcenter=2.0),
            dict(interval_type="centered", vcenter=1.0, half_range=3.0),
        ):
            configs.append({**interval, **stretch})
    for name in cn.NORMALIZATION_PRESETS:
        c = cn._resolve_normalization(name)
        configs.append({k: getattr(c, k) for k in c.__dataclass_fields__})

    n_checks = 0
    for data, cfg in itertools.product(datas, configs):
        norm = cn.CustomNormalization(**cfg, data=data)
        out = norm(data)
        (ovmin, ovmax), oout = orig_normalize(data, data, **cfg)
        assert fingerprint((norm.vmin, norm.vmax)) == fingerprint((ovmin, ovmax)), (cfg, data.dtype)
        assert fingerprint(out) == fingerprint(oout), (cfg, data.dtype)

        vmin, vmax = norm.vmin, norm.vmax
        assert type(vmin) in (float, int) and type(vmax) in (float, int)
        assert vmin < vmax, (cfg, vmin, vmax)
        assert isinstance(out, np.ma.MaskedArray) and out.shape == data.shape
        mask = np.ma.getmaskarray(out)
        fdata = np.asarray(data, dtype=np.float64)
        # NaNs come back masked, nothing else is masked
        assert np.array_equal(mask, np.isnan(fdata)), cfg
        vals = np.asarray(out.data)[~mask]
        assert np.all((vals >= 0.0) & (vals <= 1.0)), cfg
        # monotone non-decreasing in the data value
        order = np.argsort(fdata[~mask], kind="stable")
        assert np.all(np.diff(vals[order]) >= 0.0), cfg
        # limits go to 0 and 1
        ends = np.asarray(norm(np.array([vmin, vmax], dtype=np.float64)))
        assert np.allclose(ends, [0.0, 1.0], rtol=0, atol=1e-12), (cfg, ends)
        # colourbar inverse of the end points
        back = norm.inverse(np.array([0.0, 1.0]))
        assert np.allclose(back, [vmin, vmax], rtol=1e-9, atol=1e-9 * max(1.0, abs(vmax - vmin))), (cfg, back)
        # the caller's array is untouched
        n_checks += 1

    # bool data: fixed limits
    b = rng.integers(0, 2, size=(6, 6)).astype(bool)
    nb = cn.CustomNormalization(data=b)
    assert (nb.vmin, nb.vmax) == (0.0, 1.0)

    # each stretch composed with its declared inverse is the identity on [0, 1]
    y = np.linspace(0.0, 1.0, 257)
    stretches = [cn.LinearStretch(), cn.LinearStretch(0.5, 0.25), cn.LinearStretch(1.0, 0.0), cn.LinearStretch(0.25, 0.0)]
    stretches += [cn.PowerLawStretch(p) for p in (0.2, 0.5, 1.0, 2.0, 3.7)]
    stretches += [cn.LogarithmicStretch(a) for a in (0.1, 1.0, 1000.0, 1e5)]
    stretches += [cn.InverseLogarithmicStretch(a) for a in (0.1, 1.0, 1000.0)]
    stretches += [cn.InverseHyperbolicSineStretch(a) for a in (0.05, 0.1, 1.0, 5.0)]
    stretches += [cn.HyperbolicSineStretch(a) for a in (0.2, 1 / 3, 1.0, 5.0)]
    for s in stretches:
        fwd = s(y.copy())
        assert np.all(np.diff(fwd) >= 0.0), s
        assert np.all((fwd >= -1e-12) & (fwd <= 1.0 + 1e-12)), s
        rt = s.inverse(s(y.copy()))
        assert np.allclose(rt, y, rtol=0, atol=1e-7), (s, np.abs(rt - y).max())
        if not isinstance(s, cn.LinearStretch):  # a linear stretch with slope < 1 does not cover [0, 1]
            rt2 = s(s.inverse(y.copy()))
            assert np.allclose(rt2, y, rtol=0, atol=1e-7), (s, np.abs(rt2 - y).max())
        n_checks += 1
    return n_checks


if __name__ == "__main__":
    warnings.simplefilter("ignore")  # overflow / invalid-value RuntimeWarnings of the extreme inputs (compared in outcome())
    a = check_old_vs_new()
    b = check_property()
    print(f"C20 demo OK: {a} old-vs-new comparisons, {b} property checks")
