"""C09 / patch 2: PtychographyBase.error_estimate (l1/l2 branches merged, batch fraction and
detector mask pulled into locals).

Builds a small (4 x 6 scan, 16 x 16 detector) ptychography problem on the CPU and checks
  * error_estimate gives bit-identical loss / targets / gradients to a verbatim copy of the
    ORIGINAL method for every loss type (incl. odd and unknown strings), for batches of many
    sizes, with a non-binary detector mask;
  * batch invariance: when the batch size divides the number of patterns, the mean of the
    per-batch losses and object/probe gradients equals the full-batch loss and gradient;
  * the batcher visits every training pattern exactly once per epoch and len() matches;
  * two reconstructions from the same seed (and the same run after a reset) produce
    identical loss histories, for dividing and non-dividing batch sizes and a validation split.
"""

import io
import warnings
from contextlib import redirect_stderr, redirect_stdout
from typing import Literal

import numpy as np
import torch

warnings.filterwarnings("ignore")
torch.set_num_threads(2)

from quantem.core.datastructures.dataset4dstem import Dataset4dstem  # noqa: E402
from quantem.core.utils.utils import electron_wavelength_angstrom  # noqa: E402
from quantem.diffractive_imaging.dataset_models import PtychographyDatasetRaster  # noqa: E402
from quantem.diffractive_imaging.detector_models import DetectorPixelated  # noqa: E402
from quantem.diffractive_imaging.object_models import ObjectPixelated  # noqa: E402
from quantem.diffractive_imaging.probe_models import ProbePixelated  # noqa: E402
from quantem.diffractive_imaging.ptycho_utils import SimpleBatcher  # noqa: E402
from quantem.diffractive_imaging.ptychography import Ptychography  # noqa: E402

N = 16
SX, SY = 4, 6
NUM = SX * SY
Q_MAX = 0.5
Q_PROBE = Q_MAX / 2
E = 300e3
C10 = 50
OPT = {"object": {"type": "sgd", "lr": 0.5}, "probe": {"type": "sgd", "lr": 0.5}}
CONSTRAINTS = {"probe": {"orthogonalize_probe": False}}
LOSS_TYPES = ["l2_amplitude", "l1_amplitude", "l2_intensity", "l1_intensity", "poisson"]


def original_error_estimate(
    self,
    pred_intensities: torch.Tensor,
    batch_indices: np.ndarray,
    loss_type: Literal[
        "l2_amplitude", "l1_amplitude", "l2_intensity", "l1_intensity", "poisson"
    ] = "l2_amplitude",
) -> tuple[torch.Tensor, torch.Tensor]:
    """Verbatim copy of the original PtychographyBase.error_estimate."""
    targets = self.dset.targets[batch_indices]
    if "amplitude" in loss_type:
        preds = torch.sqrt(pred_intensities + 1e-9)  # add eps to avoid diverging gradients
    else:
        preds = pred_intensities

    diff = preds * self.dset.detector_mask - targets * self.dset.detector_mask
    if "l1" in loss_type:
        error = torch.sum(torch.abs(diff)) / (diff.shape[0] / self.dset.num_gpts)
    elif "l2" in loss_type:
        error = torch.sum(torch.abs(diff) ** 2) / (diff.shape[0] / self.dset.num_gpts)
    elif loss_type == "poisson":
        error = torch.sum(preds - targets * torch.log(preds + 1e-6))
    else:
        raise ValueError(f"Unknown loss type {loss_type}, should be 'l1' or 'l2'")
    loss = error / self.dset.mean_diffraction_intensity
    return loss, targets


def build(seed=42):
    rng = np.random.default_rng(7)
    arr = rng.random((N, N))
    arr -= arr.mean()
    obj = np.exp(1j * arr.astype(np.float32))
    sampling = 1 / Q_MAX / 2
    rs = 2 * Q_MAX / N
    qx = np.fft.fftfreq(N, sampling)
    q = np.sqrt(qx[:, None] ** 2 + qx[None, :] ** 2)
    ap = np.sqrt(np.clip((Q_PROBE - q) / rs + 0.5, 0, 1))
    chi = q**2 * electron_wavelength_angstrom(E) * np.pi * C10
    pf = ap * np.exp(-1j * chi)
    pf /= np.sqrt(np.sum(np.abs(pf) ** 2))
    probe = np.fft.ifft2(pf) * N
    x = np.arange(0.0, SX * 2, 2)
    y = np.arange(0.0, SY * 2, 2)
    xx, yy = np.meshgrid(x, y, indexing="ij")
    pos = np.stack((xx.ravel(), yy.ravel()), -1)
    x0 = np.round(pos[:, 0]).astype(int)
    y0 = np.round(pos[:, 1]).astype(int)
    xi = np.fft.fftfreq(N, 1 / N).astype(int)
    row = (x0[:, None, None] + xi[None, :, None]) % N
    col = (y0[:, None, None] + xi[None, None, :]) % N
    inten = np.abs(np.fft.fft2(obj[row, col] * probe)) ** 2
    d = Dataset4dstem.from_array(
        array=np.fft.fftshift(inten * 100, axes=(-2, -1)).reshape((SX, SY, N, N)),
        sampling=(2, 2, rs, rs),
        units=("A", "A", "A^-1", "A^-1"),
    )
    with redirect_stdout(io.StringIO()), redirect_stderr(io.StringIO()):
        pd = PtychographyDatasetRaster.from_dataset4dstem(d)
        pd.preprocess(
            com_fit_function="constant",
            plot_rotation=False,
            plot_com=False,
            probe_energy=E,
            force_com_rotation=0,
            force_com_transpose=False,
        )
        om = ObjectPixelated.from_uniform(num_slices=1, obj_type="complex", slice_thicknesses=1)
        pm = ProbePixelated.from_array(
            num_probes=1,
            probe_params={
                "energy": E,
                "C10": C10,
                "semiangle_cutoff": electron_wavelength_angstrom(E) * 1e3,
            },
            probe_array=probe,
        )
        pt = Ptychography.from_models(
            dset=pd,
            obj_model=om,
            probe_model=pm,
            detector_model=DetectorPixelated(),
            rng=seed,
            verbose=False,
        )
        pt.preprocess(obj_padding_px=(0, 0))
    return pt


def predict(pt, batch_indices):
    patch_indices, _pos, pos_frac, descan = pt.dset.forward(batch_indices, pt.obj_padding_px)
    shifted_probes = pt.probe_model.forward(pos_frac)
    obj_patches = pt.obj_model.forward(patch_indices)
    _prop, overlap = pt.forward_operator(obj_patches, shifted_probes, descan)
    return pt.detector_model.forward(overlap)


def grads(pt):
    out = []
    for p in list(pt.obj_model.params) + list(pt.probe_model.params):
        out.append(None if p.grad is None else p.grad.detach().clone())
    return out


pt = build()
assert pt.dset.num_gpts == NUM

# a smooth, non-binary detector mask so that the mask really matters
yy, xx = np.mgrid[:N, :N]
mask = 0.25 + 0.75 * np.exp(-((yy - N / 2) ** 2 + (xx - N / 2 + 1) ** 2) / (2 * 5.0**2))
mask[0, :] = 0.0
pt.dset.detector_mask = torch.tensor(mask, dtype=torch.float32)

# ------------------------------------------------------------------ old == new, bit for bit
rng = np.random.default_rng(0)
index_sets = [
    np.arange(NUM),
    np.array([0]),
    np.array([NUM - 1]),
    np.arange(0, NUM, 2),
    np.arange(5),
    np.arange(7, 24),
    rng.permutation(NUM)[:11],
    rng.permutation(NUM),
    np.array([3, 3, 3, 4]),  # repeated pattern in a batch
]
n_cmp = 0
# one zero-iteration call sets up optimizers / constraints exactly as a real run does
pt.reconstruct(
    num_iters=0, reset=True, optimizer_params=OPT, constraints=CONSTRAINTS, batch_size=NUM
)
for loss_type in LOSS_TYPES + ["l1", "l2", "l1_l2_amplitude", "poisson_l2", "l1_poisson"]:
    pt.dset._set_targets(loss_type if loss_type in LOSS_TYPES else "l2_amplitude")
    for idx in index_sets:
        pred = predict(pt, idx).detach()
        p_new = pred.clone().requires_grad_(True)
        p_old = pred.clone().requires_grad_(True)
        l_new, t_new = pt.error_estimate(p_new, idx, loss_type=loss_type)
        l_old, t_old = original_error_estimate(pt, p_old, idx, loss_type=loss_type)
        assert l_new.dtype == l_old.dtype and l_new.shape == l_old.shape == ()
        assert torch.equal(l_new, l_old), (loss_type, idx, l_new.item(), l_old.item())
        assert torch.equal(t_new, t_old) and t_new.dtype == t_old.dtype
        l_new.backward()
        l_old.backward()
        assert torch.equal(p_new.grad, p_old.grad), (loss_type, idx)
        assert torch.isfinite(l_new)
        n_cmp += 1

# default loss type and unknown loss types behave the same
pred = predict(pt, np.arange(6)).detach()
assert torch.equal(
    pt.error_estimate(pred, np.arange(6))[0], original_error_estimate(pt, pred, np.arange(6))[0]
)
for bad in ("huber", "", "L1_amplitude", "amplitude"):
    msgs = []
    for fn in (pt.error_estimate, lambda *a, **k: original_error_estimate(pt, *a, **k)):
        try:
            fn(pred, np.arange(6), loss_type=bad)
        except ValueError as err:
            msgs.append(str(err))
        else:
            raise AssertionError(f"expected ValueError for {bad!r}")
    assert msgs[0] == msgs[1] and "Unknown loss type" in msgs[0]

# ------------------------------------------------------------------ batch invariance
for loss_type in ["l2_amplitude", "l1_amplitude", "l2_intensity", "l1_intensity"]:
    pt.dset._set_targets(loss_type)
    pt.zero_grad_all()
    full_loss, _ = pt.error_estimate(predict(pt, np.arange(NUM)), np.arange(NUM), loss_type)
    full_loss.backward()
    full_grads = grads(pt)
    assert any(g is not None and torch.any(g != 0) for g in full_grads)

    for bs in (1, 2, 3, 4, 6, 8, 12, 24):  # all divisors of 24
        for shuffle in (False, True):
            batcher = SimpleBatcher(NUM, bs, shuffle=shuffle, rng=11)
            assert len(batcher) == NUM // bs
            losses, acc, seen = [], None, []
            for b_idx in batcher:
                pt.zero_grad_all()
                loss, _ = pt.error_estimate(predict(pt, b_idx), b_idx, loss_type)
                loss.backward()
                g = grads(pt)
                acc = g if acc is None else [
                    None if a is None else a + b for a, b in zip(acc, g)
                ]
                losses.append(loss.item())
                seen.append(b_idx)
            assert len(losses) == len(batcher)
            assert np.array_equal(np.sort(np.concatenate(seen)), np.arange(NUM))
            mean_loss = float(np.mean(losses))
            assert np.isclose(mean_loss, full_loss.item(), rtol=2e-4), (
                loss_type,
                bs,
                mean_loss,
                full_loss.item(),
            )
            for a, f in zip(acc, full_grads):
                if f is None:
                    assert a is None
                    continue
                a = a / len(batcher)
                scale = f.abs().max().item()
                assert torch.allclose(a, f, rtol=1e-3, atol=2e-4 * scale), (
                    loss_type,
                    bs,
                    (a - f).abs().max().item(),
                    scale,
                )
pt.zero_grad_all()

# ------------------------------------------------------------------ seeded determinism
histories = {}
for bs, loss_types in [
    (24, ("l2_amplitude", "l1_intensity")),
    (8, ("l2_amplitude",)),
    (5, ("l2_amplitude",)),
    (7, ("l1_intensity",)),
    (1, ("l2_amplitude",)),
    (100, ("l2_amplitude",)),
    (None, ("l2_amplitude",)),
]:
    for loss_type in loss_types:
        runs = []
        a = build(seed=123)
        b = build(seed=123)
        for model in (a, b, a):  # third entry: same object again, after a reset
            model.reconstruct(
                num_iters=3,
                reset=True,
                optimizer_params=OPT,
                constraints=CONSTRAINTS,
                batch_size=bs,
                loss_type=loss_type,
            )
            assert model.num_iters == 3
            runs.append(list(model._iter_losses))
        assert runs[0] == runs[1] == runs[2], (bs, loss_type, runs)
        assert all(np.isfinite(runs[0]))
        histories[(bs, loss_type)] = runs[0]
# batches larger than the set behave like one full batch
assert histories[(100, "l2_amplitude")] == histories[(None, "l2_amplitude")]
assert histories[(24, "l2_amplitude")] == histories[(None, "l2_amplitude")]
# mini-batches do change the trajectory (sanity: the batch size is really used)
assert histories[(8, "l2_amplitude")] != histories[(24, "l2_amplitude")]

# with a validation split (grid and random), incl. val losses
for val_mode in ("grid", "random"):
    runs = []
    for _ in range(2):
        m = build(seed=5)
        m.val_ratio, m.val_mode = 0.25, val_mode
        m.reconstruct(
            num_iters=2,
            reset=True,
            optimizer_params=OPT,
            constraints=CONSTRAINTS,
            batch_size=5,
        )
        runs.append((list(m._iter_losses), list(m._iter_val_losses)))
        assert len(m._iter_val_losses) == 2
    assert runs[0] == runs[1], (val_mode, runs)

print(f"PASS ({n_cmp} old/new comparisons)")
