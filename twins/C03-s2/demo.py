"""C03 behaviour-preservation demo (shared by the four patches).

Embeds verbatim copies of the ORIGINAL Dataset.copy / bin / fourier_resample /
__getitem__ (taken from the worktree HEAD) and checks, on a spread of
dimensionalities, dtypes, shapes, arguments and random operation histories, that
the methods of the installed tree give bit-for-bit the same results (array bytes,
dtype, shape, origin/sampling bytes+dtype, units, names, class, aliasing flags,
warnings, exception type+message) as the originals.  It also asserts the C03
property itself on every result.

Run:  PYTHONPATH=<root>/src /venv/bin/python demo.py
"""

from __future__ import annotations

import contextlib
import numbers
import random
import warnings
from typing import Any, Optional, Self, Union  # noqa: F401

import numpy as np

from quantem.core.datastructures import (
    Dataset,
    Dataset2d,
    Dataset3d,
    Dataset4d,
    Dataset4dstem,
)

# --------------------------------------------------------------------------------------
# Verbatim ORIGINAL methods (worktree HEAD), dedented to module level
# --------------------------------------------------------------------------------------
def _orig_copy(self, copy_custom_attributes: bool = True) -> Self:
    """
    Copies Dataset.

    Parameters
    ----------
    copy_custom_attributes: bool, optional
        If True, copies non-standard attributes. Standard attributes (array, metadata)
        are always deep-copied. Default is True.
    """
    # Metadata arrays (origin, sampling) are numpy, use copy()
    # Units list is copied by slicing
    new_dataset = type(self).from_array(
        array=self.array.copy(),
        name=self.name,
        origin=self.origin.copy(),
        sampling=self.sampling.copy(),
        units=self.units[:],
        signal_units=self.signal_units,
    )

    # Copy custom attributes if requested
    if copy_custom_attributes:
        self._copy_custom_attributes(new_dataset)

    return new_dataset


def _orig_bin(
    self,
    bin_factors,
    axes=None,
    modify_in_place: bool = False,
    reducer: str = "sum",
) -> Self | None:
    """
    Bin the Dataset by integer factors along selected axes using block reduction.

    Parameters
    ----------
    bin_factors : int | tuple[int, ...]
        Bin factors per specified axis (positive integers).
    axes : int | tuple[int, ...] | None
        Axes to bin. If None, all axes are binned.
    modify_in_place : bool
        If True, modifies this dataset; otherwise returns a new Dataset.
    reducer : {"sum","mean"}
        Reduction applied within each block. "sum" (default) preserves counts;
        "mean" averages over each block (block volume = product of factors).

    Notes
    -----
    - Any remainder (shape % factor) is dropped on each binned axis.
    - Sampling is multiplied by the factor on each binned axis.
    - Origin is shifted to the center of the first block:
        origin_new = origin_old + 0.5 * (factor - 1) * sampling_old
    """
    reducer_norm = str(reducer).lower()
    if reducer_norm not in ("sum", "mean"):
        raise ValueError("reducer must be 'sum' or 'mean'")

    if axes is None:
        axes = tuple(range(self.ndim))
    elif isinstance(axes, int | float):
        axes = (int(axes),)
    else:
        axes = tuple(int(ax) for ax in axes)

    if isinstance(bin_factors, numbers.Integral):
        bin_factors = (int(bin_factors),) * len(axes)
    elif isinstance(bin_factors, (list, tuple)):
        if len(bin_factors) != len(axes):
            raise ValueError("bin_factors and axes must have the same length.")
        for fac in bin_factors:
            if not isinstance(fac, numbers.Integral):
                raise TypeError(f"Each bin factor must be an integer, got {fac!r}")
        bin_factors = tuple(int(fac) for fac in bin_factors)
    else:
        raise TypeError("bin_factors must be an int or tuple of ints.")

    if any(fac <= 0 for fac in bin_factors):
        raise ValueError("All bin factors must be positive integers.")

    axis_to_factor = dict(zip(axes, bin_factors))

    slices = []
    effective_lengths = []
    for a0 in range(self.ndim):
        if a0 in axis_to_factor:
            fac = axis_to_factor[a0]
            length_eff = (self.shape[a0] // fac) * fac
            slices.append(slice(0, length_eff))
            effective_lengths.append(length_eff)
        else:
            slices.append(slice(None))
            effective_lengths.append(self.shape[a0])

    reshape_dims = []
    reduce_axes = []
    running_axis = 0
    for a1 in range(self.ndim):
        if a1 in axis_to_factor:
            fac = axis_to_factor[a1]
            nblocks = effective_lengths[a1] // fac
            reshape_dims.extend([nblocks, fac])
            reduce_axes.append(running_axis + 1)
            running_axis += 2
        else:
            reshape_dims.append(effective_lengths[a1])
            running_axis += 1

    array_view = self.array[tuple(slices)].reshape(tuple(reshape_dims))
    array_binned = np.sum(array_view, axis=tuple(reduce_axes))
    if reducer_norm == "mean":
        block_volume = 1
        for fac_b in axis_to_factor.values():
            block_volume *= fac_b
        array_binned = array_binned / block_volume

    new_sampling = self.sampling.astype(float).copy()
    new_origin = self.origin.astype(float).copy()
    for ax_binned, fac_binned in axis_to_factor.items():
        old_sampling = new_sampling[ax_binned]
        new_sampling[ax_binned] = old_sampling * fac_binned
        new_origin[ax_binned] = new_origin[ax_binned] + 0.5 * (fac_binned - 1) * old_sampling

    if modify_in_place:
        self._array = array_binned
        self._sampling = new_sampling
        self._origin = new_origin
        return None

    dataset = self.copy()
    dataset.array = array_binned
    dataset.sampling = new_sampling
    dataset.origin = new_origin

    factors_str = " ".join(
        f"{axis_to_factor[a2]:.3g}" if a2 in axis_to_factor else "1" for a2 in range(self.ndim)
    )
    suffix = f"(binned factors {factors_str}" + (", mean)" if reducer_norm == "mean" else ")")
    dataset.name = f"{self.name} {suffix}"
    return dataset


def _orig_fourier_resample(
    self,
    out_shape: Optional[tuple[int, ...]] = None,
    factors: Optional[Union[float, tuple[float, ...]]] = None,
    axes: Optional[tuple[int, ...]] = None,
    modify_in_place: bool = False,
) -> Optional["Dataset"]:
    """
    Fourier resample the dataset by centered cropping (downsample) or zero padding (upsample).
    The operation is performed in the Fourier domain using fftshift alignment and default FFT
    normalization. The physical center is preserved and the mean intensity is kept constant.

    Parameters
    ----------
    out_shape : tuple of int, optional
        Output lengths for the selected axes. Must have the same length as `axes`.
        Use this when specifying the exact output shape.
    factors : float or tuple of float, optional
        Multiplicative resampling factors for each axis. A scalar factor is applied
        to all axes. Use this when specifying scaling rather than absolute size.
        Exactly one of `out_shape` or `factors` must be provided.
    axes : tuple of int, optional
        Axes to resample. Defaults to all axes. A scalar is interpreted as a single axis.
    modify_in_place : bool
        If True, update the dataset in place and return None.
        If False, return a new Dataset with the resampled array and updated metadata.

    Returns
    -------
    Dataset or None
        A new resampled dataset if `modify_in_place` is False, otherwise None.
    """
    if axes is None:
        axes = tuple(range(self.ndim))
    elif isinstance(axes, int | float):
        axes = (int(axes),)
    else:
        axes = tuple(int(a0) for a0 in axes)

    if (out_shape is None) == (factors is None):
        raise ValueError("Specify exactly one of out_shape or factors.")

    # Resolve out_shape & factors
    if factors is not None:
        if isinstance(factors, int | float):
            factors = (float(factors),) * len(axes)
        else:
            factors = tuple(float(f) for f in factors)
            if len(factors) != len(axes):
                raise ValueError("factors length must match number of axes.")
        out_shape = tuple(
            max(1, int(round(self.shape[a1] * f))) for a1, f in zip(axes, factors)
        )
    else:
        assert out_shape is not None  # Guaranteed by check above
        if len(out_shape) != len(axes):
            raise ValueError("out_shape length must match number of axes.")
        out_shape = tuple(int(nl) for nl in out_shape)
        factors = tuple(out_len / self.shape[a2] for a2, out_len in zip(axes, out_shape))

    if any(nl < 1 for nl in out_shape):
        raise ValueError("All output lengths must be >= 1.")

    def _shift_center_index(n: int) -> int:
        # index of DC after fftshift: n//2 for even, (n-1)//2 for odd
        return n // 2 if (n % 2 == 0) else (n - 1) // 2

    # Forward FFT (default normalization: forward unscaled, inverse 1/N)
    F = np.fft.fftn(self.array, axes=axes)
    F = np.fft.fftshift(F, axes=axes)

    # Center-aligned crop/pad per axis (so DC stays centered)
    axis_to_outlen = dict(zip(axes, out_shape))
    slices: list[slice] = []
    pad_specs: list[tuple[int, int]] = []
    for a3 in range(self.ndim):
        if a3 in axis_to_outlen:
            old_len = self.shape[a3]
            new_len = axis_to_outlen[a3]
            oc = _shift_center_index(old_len)
            nc = _shift_center_index(new_len)

            if new_len < old_len:
                start = oc - nc
                end = start + new_len
                slices.append(slice(start, end))
                pad_specs.append((0, 0))
            elif new_len > old_len:
                slices.append(slice(None))
                before = nc - oc
                after = new_len - old_len - before
                pad_specs.append((before, after))
            else:
                slices.append(slice(None))
                pad_specs.append((0, 0))
        else:
            slices.append(slice(None))
            pad_specs.append((0, 0))

    F_rs = F[tuple(slices)]
    if any(pw != (0, 0) for pw in pad_specs):
        F_rs = np.pad(F_rs, pad_specs, mode="constant")

    # Inverse FFT
    F_rs = np.fft.ifftshift(F_rs, axes=axes)
    array_resampled = np.fft.ifftn(F_rs, axes=axes)

    if np.isrealobj(self.array):
        array_resampled = array_resampled.real

    # Mean preservation with default FFTs:
    # ones -> F(0)=N_in, IFFT size N_out -> constant N_in/N_out; multiply by N_out/N_in.
    N_in = int(np.prod([self.shape[a4] for a4 in axes]))
    N_out = int(np.prod([axis_to_outlen[a5] for a5 in axes]))
    if N_in > 0 and N_out > 0:
        array_resampled *= N_out / N_in

    # Metadata (ensure float arrays to avoid truncation)
    new_sampling = self.sampling.astype(float).copy()
    for a6, out_len in zip(axes, out_shape):
        fac_actual = out_len / self.shape[a6]
        new_sampling[a6] = new_sampling[a6] / fac_actual

    new_origin = self.origin.astype(float).copy()
    for a7, out_len in zip(axes, out_shape):
        old_len = self.shape[a7]
        old_center_idx = (old_len - 1) / 2.0
        new_center_idx = (out_len - 1) / 2.0
        old_sampling = self.sampling[a7]
        new_origin[a7] = (
            self.origin[a7] + old_center_idx * old_sampling - new_center_idx * new_sampling[a7]
        )

    if modify_in_place:
        self._array = array_resampled
        self._sampling = new_sampling
        self._origin = new_origin
        return None

    ds = self.copy()
    ds.array = array_resampled
    ds.sampling = new_sampling
    ds.origin = new_origin
    return ds


def _orig___getitem__(self, index) -> Self:
    """
    General indexing method for Dataset objects.

    Returns a new Dataset (or subclass) corresponding to the indexed data.
    Metadata (origin, sampling, units) is sliced or reduced accordingly.
    Handles step slicing (e.g., [::2]) by multiplying sampling accordingly.

    Parameters
    ----------
    index : int | slice | tuple | Ellipsis
        Indexing expression applied to the underlying array.

    Returns
    -------
    Dataset
        A new Dataset instance with appropriately adjusted metadata.
    """
    array_view = self.array[index]

    # Normalize index into tuple form
    if not isinstance(index, tuple):
        index = (index,)

    # Expand Ellipsis
    if Ellipsis in index:
        ellipsis_pos = index.index(Ellipsis)
        num_missing = self.ndim - (len(index) - 1)
        index = index[:ellipsis_pos] + (slice(None),) * num_missing + index[ellipsis_pos + 1 :]

    # Pad with slices if index shorter than ndim
    if len(index) < self.ndim:
        index = index + (slice(None),) * (self.ndim - len(index))

    # Compute which dimensions are kept
    kept_axes = [i for i, idx in enumerate(index) if not isinstance(idx, (int, np.integer))]

    # Slice/reduce metadata accordingly
    new_origin = (
        np.asarray(self.origin)[kept_axes] if np.ndim(self.origin) > 0 else self.origin
    )
    new_sampling = (
        np.asarray(self.sampling)[kept_axes] if np.ndim(self.sampling) > 0 else self.sampling
    )
    new_units = [self.units[i] for i in kept_axes] if len(self.units) > 0 else self.units

    # Adjust sampling for slice steps (e.g. [::2] doubles spacing)
    for i, idx in enumerate(index):
        if isinstance(idx, slice) and idx.step not in (None, 1):
            if i in kept_axes:
                j = kept_axes.index(i)
                new_sampling[j] *= idx.step

    out_ndim = array_view.ndim

    if out_ndim == self.ndim:
        cls = type(self)
    else:
        try:
            cls = self._registry[out_ndim]
        except KeyError:
            cls = Dataset

    # Construct new dataset
    return cls.from_array(  # type: ignore ## would be nice to properly type slicing, but hard
        array=array_view,
        name=f"{self.name}{index}",
        origin=new_origin,
        sampling=new_sampling,
        units=new_units,
        signal_units=self.signal_units,
    )


_ORIG = {
    "copy": _orig_copy,
    "bin": _orig_bin,
    "fourier_resample": _orig_fourier_resample,
    "__getitem__": _orig___getitem__,
}


@contextlib.contextmanager
def original_methods():
    saved = {k: Dataset.__dict__[k] for k in _ORIG}
    try:
        for k, f in _ORIG.items():
            setattr(Dataset, k, f)
        yield
    finally:
        for k, f in saved.items():
            setattr(Dataset, k, f)


# --------------------------------------------------------------------------------------
# helpers
# --------------------------------------------------------------------------------------
SHAPES = {
    1: [(7,), (1,), (12,)],
    2: [(6, 5), (1, 1), (8, 9)],
    3: [(4, 1, 6), (5, 6, 7)],
    4: [(3, 4, 5, 6), (2, 2, 7, 8)],
    5: [(2, 3, 1, 4, 5)],
}
DTYPES = [np.float64, np.float32, np.int16, np.complex64, np.uint8]
CLASS_FOR_DIM = {2: [Dataset2d], 3: [Dataset3d], 4: [Dataset4d, Dataset4dstem]}
UNIT_NAMES = ["A", "nm", "mrad", "s", "eV"]


def make_factory(cls, shape, dtype, seed):
    def factory():
        rng = np.random.default_rng(seed)
        n = int(np.prod(shape))
        if np.issubdtype(dtype, np.complexfloating):
            arr = (rng.normal(size=n) + 1j * rng.normal(size=n)).astype(dtype)
        elif np.issubdtype(dtype, np.floating):
            arr = rng.normal(size=n).astype(dtype)
        else:
            arr = rng.integers(0, 100, size=n).astype(dtype)
        arr = arr.reshape(shape)
        nd = len(shape)
        origin = rng.uniform(-5, 5, size=nd)
        sampling = rng.uniform(0.1, 3.0, size=nd)
        if seed % 3 == 0:  # integer calibration too (bin / resample cast it to float)
            origin = rng.integers(-3, 4, size=nd)
            sampling = rng.integers(1, 4, size=nd)
        units = UNIT_NAMES[:nd]
        return cls.from_array(
            arr, name=f"d{nd}", origin=origin, sampling=sampling, units=units, signal_units="e"
        )

    return factory


def snap(ds):
    if ds is None:
        return None
    if not isinstance(ds, Dataset):
        return ("non-dataset", repr(ds))
    a = ds.array
    return (
        type(ds).__name__,
        a.dtype.str,
        a.shape,
        a.tobytes(),
        ds.origin.dtype.str,
        ds.origin.shape,
        ds.origin.tobytes(),
        ds.sampling.dtype.str,
        ds.sampling.shape,
        ds.sampling.tobytes(),
        type(ds.units).__name__,
        tuple(ds.units),
        ds.signal_units,
        ds.name,
        tuple(sorted(k for k in ds.__dict__)),
    )


def alias_flags(res, src):
    if not isinstance(res, Dataset):
        return None
    return (
        bool(np.shares_memory(res.array, src.array)),
        bool(np.shares_memory(res.origin, src.origin)),
        bool(np.shares_memory(res.sampling, src.sampling)),
        res.units is src.units,
        res.origin is src.origin,
        res.sampling is src.sampling,
    )


def check_coherent(ds):
    """The per-object part of property C03."""
    nd = ds.array.ndim
    assert isinstance(ds.origin, np.ndarray) and ds.origin.shape == (nd,), (ds.origin, nd)
    assert isinstance(ds.sampling, np.ndarray) and ds.sampling.shape == (nd,), (ds.sampling, nd)
    assert isinstance(ds.units, list) and len(ds.units) == nd, (ds.units, nd)
    assert ds.ndim == nd and ds.shape == ds.array.shape
    if type(ds) is not Dataset:
        want = {Dataset2d: 2, Dataset3d: 3, Dataset4d: 4, Dataset4dstem: 4}[type(ds)]
        assert want == nd, (type(ds), nd)


def run(factory, op, use_original):
    """Run op(ds) on a fresh dataset; return a fully comparable record."""
    src = factory()
    before = snap(src)
    ctx = original_methods() if use_original else contextlib.nullcontext()
    with warnings.catch_warnings(record=True) as wlist:
        warnings.simplefilter("always")
        try:
            with ctx:
                res = op(src)
        except Exception as e:  # noqa: BLE001 - the demo compares type and message
            return ("err", type(e).__name__, str(e)), None, src, before
    wrec = tuple((w.category.__name__, str(w.message)) for w in wlist)
    return ("ok", snap(res), snap(src), alias_flags(res, src), wrec), res, src, before


N_CASES = 0


def compare(factory, op, label, returns_new=True):
    """old == new bit for bit, plus the C03 property on the new result."""
    global N_CASES
    N_CASES += 1
    rec_old, _, _, _ = run(factory, op, True)
    rec_new, res, src, before = run(factory, op, False)
    assert rec_old == rec_new, f"old != new for {label}: {rec_old[:1]} vs {rec_new[:1]}"
    if rec_new[0] == "ok":
        check_coherent(src)
        if isinstance(res, Dataset):
            check_coherent(res)
            if returns_new:
                # a new dataset leaves the source bit-identical and shares no calibration
                assert snap(src) == before, f"source modified by {label}"
                assert not np.shares_memory(res.origin, src.origin), label
                assert not np.shares_memory(res.sampling, src.sampling), label
                assert res.units is not src.units, label
    return rec_new, res


def compare_inplace_vs_copy(factory, name, args, kwargs, label):
    """The in-place variant gives the same array and calibration as the copying one."""
    rec_c, res_c = compare(factory, lambda d: getattr(d, name)(*args, **kwargs), label + " copy")
    rec_i, _ = compare(
        factory,
        lambda d: getattr(d, name)(*args, modify_in_place=True, **kwargs),
        label + " inplace",
        returns_new=False,
    )
    assert rec_c[0] == rec_i[0], (label, rec_c[:2], rec_i[:2])
    if rec_c[0] == "ok":
        assert rec_i[1] is None  # returns None
        s_c, s_i = rec_c[1], rec_i[2]  # result of copy variant vs. source after in-place
        assert s_c[:10] == s_i[:10] and s_c[11] == s_i[11], f"in-place != copy for {label}"


def all_factories():
    seed = 0
    for nd, shapes in SHAPES.items():
        for shape in shapes:
            for dtype in DTYPES:
                for cls in [Dataset] + CLASS_FOR_DIM.get(nd, []):
                    seed += 1
                    yield nd, shape, dtype, cls, make_factory(cls, shape, dtype, seed)


# --------------------------------------------------------------------------------------
# 1. copy
# --------------------------------------------------------------------------------------
def test_copy():
    for nd, shape, dtype, cls, fac in all_factories():
        for cca in (True, False):
            lab = f"copy {cls.__name__}{shape}{np.dtype(dtype)} cca={cca}"
            rec, res = compare(fac, lambda d: d.copy(copy_custom_attributes=cca), lab)
            assert rec[0] == "ok" and type(res) is cls
            # the copy is fully independent of the source: mutate it, source unaffected
            src = fac()
            ref = snap(src)
            cp = src.copy(cca)
            cp.origin[...] = 99.0
            cp.sampling[...] = 77.0
            cp.units[0] = "changed"
            cp.array[...] = 0
            assert snap(src) == ref, lab


# --------------------------------------------------------------------------------------
# 2. bin
# --------------------------------------------------------------------------------------
def bin_args(nd, shape):
    yield (1,), {}
    yield (2,), {}
    yield (3,), {"reducer": "mean"}
    yield (2,), {"reducer": "MEAN"}
    yield (np.int64(2),), {"axes": 0}
    yield (True,), {"axes": 0}
    yield (2,), {"axes": nd - 1}
    yield (2,), {"axes": float(nd - 1)}
    yield (2,), {"axes": -1}  # negative axis: not binned, but calibration is touched
    yield ((2,) * nd,), {}
    yield (tuple(1 + (i % 3) for i in range(nd)),), {"reducer": "mean"}
    yield ([2] * nd,), {"axes": tuple(range(nd))}
    yield (100,), {}  # factor larger than every axis -> empty result
    if nd >= 2:
        yield ((2, 3),), {"axes": (0, nd - 1)}
        yield ((3, 2),), {"axes": (nd - 1, 0), "reducer": "mean"}
        yield ((2, 3),), {"axes": (0, 0)}  # duplicate axis: last factor wins
        yield ((2, 2),), {"axes": (nd - 1, -1)}  # aliasing negative axis
        yield ((2, np.int32(2)),), {"axes": [0, 1]}
    if nd >= 3:
        yield ((2, 1, 2),), {"axes": (0, 1, 2)}
    # rejected inputs: same exception type and message
    yield (0,), {}
    yield (-2,), {}
    yield (2.0,), {}
    yield ((2, 2.5),), {"axes": (0, 0)}
    yield ((2,) * (nd + 1),), {}
    yield ("2",), {}
    yield (2,), {"reducer": "median"}
    yield (2,), {"axes": (nd,)}


def test_bin():
    for nd, shape, dtype, cls, fac in all_factories():
        if dtype not in (np.float64, np.int16, np.complex64):
            continue
        for args, kw in bin_args(nd, shape):
            lab = f"bin {cls.__name__}{shape}{np.dtype(dtype)} {args} {kw}"
            compare_inplace_vs_copy(fac, "bin", args, kw, lab)
    # semantic spot check: sum-binning by 2 on axis 0 of a 2-D array
    d = Dataset.from_array(np.arange(30.0).reshape(6, 5), origin=[1, 2], sampling=[0.5, 2])
    b = d.bin(2, axes=0)
    assert np.array_equal(b.array, d.array.reshape(3, 2, 5).sum(1))
    assert np.array_equal(b.sampling, [1.0, 2.0]) and np.array_equal(b.origin, [1.25, 2.0])


# --------------------------------------------------------------------------------------
# 3. fourier_resample
# --------------------------------------------------------------------------------------
def resample_args(nd, shape):
    yield {"factors": 2}
    yield {"factors": 0.5}
    yield {"factors": 1.5}
    yield {"factors": 1.0}
    yield {"factors": 0.3}
    yield {"factors": 0.01}  # clamps to length 1
    yield {"factors": 2.5, "axes": nd - 1}
    yield {"factors": (0.5,), "axes": (0,)}
    yield {"out_shape": tuple(s + 1 for s in shape)}
    yield {"out_shape": tuple(s + 2 for s in shape)}
    yield {"out_shape": tuple(s + 3 for s in shape)}
    yield {"out_shape": tuple(max(1, s - 1) for s in shape)}
    yield {"out_shape": tuple(max(1, s - 2) for s in shape)}
    yield {"out_shape": tuple(max(1, s - 3) for s in shape)}
    yield {"out_shape": tuple(shape)}
    yield {"out_shape": (1,) * nd}
    yield {"out_shape": (2 * shape[0] + 1,), "axes": 0}
    yield {"out_shape": (np.int64(shape[-1] + 4),), "axes": (nd - 1,)}
    yield {"out_shape": (float(shape[-1] + 5),), "axes": -1}
    if nd >= 2:
        yield {"out_shape": (shape[0] + 3, max(1, shape[-1] - 2)), "axes": (0, nd - 1)}
        yield {"out_shape": (max(1, shape[-1] - 1), shape[0] + 2), "axes": (nd - 1, 0)}
        yield {"factors": (0.5, 2.0), "axes": (0, 1)}
    # rejected inputs
    yield {}
    yield {"out_shape": shape, "factors": 1.0}
    yield {"out_shape": (0,) * nd}
    yield {"out_shape": (3,) * (nd + 1)}
    yield {"factors": (1.0,) * (nd + 1)}
    yield {"out_shape": (4,), "axes": (nd,)}
    yield {"factors": float("nan")}


def test_fourier_resample():
    for nd, shape, dtype, cls, fac in all_factories():
        if dtype not in (np.float64, np.float32, np.complex64, np.int16):
            continue
        if nd == 5 and dtype is not np.float64:
            continue
        for kw in resample_args(nd, shape):
            lab = f"fourier_resample {cls.__name__}{shape}{np.dtype(dtype)} {kw}"
            compare_inplace_vs_copy(fac, "fourier_resample", (), kw, lab)
    # the helper itself, old spelling vs. every candidate spelling, on the whole int domain used
    for n in range(0, 5000):
        old = n // 2 if (n % 2 == 0) else (n - 1) // 2
        assert old == -(-(n - 1) // 2) == n // 2, n
    # semantic spot check: constant image keeps its mean, centre is preserved
    d = Dataset.from_array(np.full((6, 8), 3.0), origin=[0, 0], sampling=[1, 2])
    r = d.fourier_resample(out_shape=(9, 4))
    assert np.allclose(r.array, 3.0)
    c_old = d.origin + (np.array(d.shape) - 1) / 2 * d.sampling
    c_new = r.origin + (np.array(r.shape) - 1) / 2 * r.sampling
    assert np.allclose(c_old, c_new)


# --------------------------------------------------------------------------------------
# 4. __getitem__
# --------------------------------------------------------------------------------------
def index_exprs(nd, shape):
    yield 0
    yield -1
    yield np.int64(0)
    yield slice(None)
    yield slice(None, None, 2)
    yield slice(1, None, 3)
    yield slice(None, None, -1)
    yield Ellipsis
    yield [0]
    yield [0, 0]
    yield (Ellipsis, slice(None, None, 2))
    yield (slice(None, None, 2), Ellipsis)
    yield (Ellipsis, 0)
    yield (0, Ellipsis)
    yield (slice(0, 1),)
    yield (slice(None),) * nd
    yield (slice(None, None, 2),) * nd
    yield tuple(slice(None, None, 1 + (i % 3)) for i in range(nd))
    if nd >= 2:
        yield (0, slice(None))
        yield (slice(None), 0)
        yield (slice(None, None, 2), 0)
        yield (0, slice(None, None, 3))
        yield ([0, 0], slice(None, None, 2))
        yield (slice(None), [0])
        yield (0,) * (nd - 1)
        yield (np.int32(0),) * (nd - 1) + (slice(None, None, 2),)
        yield (0, Ellipsis, slice(None, None, 2))
        yield (slice(None, None, 2), Ellipsis, 0)
    if nd >= 3:
        yield (0, slice(None, None, 2), 0)
        yield (slice(None), 0, Ellipsis)
        yield (0, 0)
        yield (Ellipsis, 0, 0)
        yield (0, Ellipsis, 0)
    if nd >= 4:
        yield (0, 0, slice(None), slice(None))
        yield (slice(None), slice(None), 0, 0)
        yield (0, slice(None, None, 2), 0, slice(1, None, 2))
        yield (0, 0, 0)
    if nd >= 5:
        yield (0, Ellipsis, 0, 0)
        yield (0, 0, 0, 0)
    # rejected inputs
    yield (0,) * nd  # scalar result -> not a dataset
    yield (0,) * (nd + 1)
    yield shape[0]
    yield "a"


def expected_calibration(src, index):
    """Reference bookkeeping for int / slice / list / Ellipsis indices."""
    if not isinstance(index, tuple):
        index = (index,)
    if any(i is Ellipsis for i in index):
        p = [i is Ellipsis for i in index].index(True)
        index = index[:p] + (slice(None),) * (src.ndim - (len(index) - 1)) + index[p + 1 :]
    index = index + (slice(None),) * (src.ndim - len(index))
    kept, steps = [], []
    for ax, idx in enumerate(index):
        if isinstance(idx, (int, np.integer)):
            continue
        kept.append(ax)
        steps.append(idx.step if isinstance(idx, slice) and idx.step is not None else 1)
    return kept, steps


def test_getitem():
    registry = {2: Dataset2d, 3: Dataset3d, 4: Dataset4d}
    for nd, shape, dtype, cls, fac in all_factories():
        if dtype not in (np.float64, np.int16, np.complex64):
            continue
        for index in index_exprs(nd, shape):
            lab = f"getitem {cls.__name__}{shape}{np.dtype(dtype)} [{index!r}]"
            rec, res = compare(fac, lambda d: d[index], lab)
            if rec[0] != "ok":
                continue
            src = fac()
            want = src.array[index]
            assert res.array.dtype == want.dtype and res.array.shape == want.shape, lab
            assert res.array.tobytes() == want.tobytes(), lab
            kept, steps = expected_calibration(src, index)
            assert np.array_equal(res.origin, np.asarray(src.origin)[kept]), lab
            assert np.array_equal(
                res.sampling, np.asarray(src.sampling)[kept] * np.asarray(steps)
            ), lab
            assert res.units == [src.units[i] for i in kept], lab
            if res.ndim == nd:
                assert type(res) is cls, lab
            else:
                assert type(res) is registry.get(res.ndim, Dataset), (lab, type(res))
    # the registry is a plain dict keyed by python ints: a miss can only raise KeyError
    assert type(Dataset._registry) is dict
    assert all(type(k) is int for k in Dataset._registry)


# --------------------------------------------------------------------------------------
# 5. pad / crop (they go through copy) and random histories, old vs new in lock-step
# --------------------------------------------------------------------------------------
def test_pad_crop():
    for nd, shape, dtype, cls, fac in all_factories():
        if dtype not in (np.float64, np.uint8):
            continue
        compare_inplace_vs_copy(fac, "pad", (1,), {}, f"pad1 {cls.__name__}{shape}")
        compare_inplace_vs_copy(
            fac, "pad", (), {"output_shape": tuple(s + 3 for s in shape)}, f"padO {shape}"
        )
        compare_inplace_vs_copy(
            fac, "crop", (((0, 0),) * nd,), {}, f"crop0 {cls.__name__}{shape}"
        )
        compare_inplace_vs_copy(
            fac, "crop", (((1, -1),),), {"axes": (nd - 1,)}, f"crop1 {cls.__name__}{shape}"
        )


def random_op(rng, nd, shape):
    kind = rng.choice(["copy", "bin", "resample", "index", "pad", "crop", "set"])
    if kind == "copy":
        return "copy", lambda d: d.copy()
    if kind == "bin":
        ax = rng.randrange(nd)
        f = rng.choice([1, 2, 3])
        red = rng.choice(["sum", "mean"])
        inpl = rng.random() < 0.5
        return f"bin({f},{ax},{red},{inpl})", (
            lambda d: (d.bin(f, axes=ax, reducer=red, modify_in_place=True), d)[1]
            if inpl
            else d.bin(f, axes=ax, reducer=red)
        )
    if kind == "resample":
        ax = rng.randrange(nd)
        n = rng.randrange(1, 12)
        inpl = rng.random() < 0.5
        return f"resample({n},{ax},{inpl})", (
            lambda d: (d.fourier_resample(out_shape=(n,), axes=(ax,), modify_in_place=True), d)[1]
            if inpl
            else d.fourier_resample(out_shape=(n,), axes=(ax,))
        )
    if kind == "index":
        parts = []
        for _ in range(nd):
            r = rng.random()
            if r < 0.2 and nd - sum(isinstance(p, int) for p in parts) > 1:
                parts.append(0)
            elif r < 0.6:
                parts.append(slice(None, None, rng.choice([1, 2, 3, -1])))
            else:
                parts.append(slice(None))
        if rng.random() < 0.3:
            parts = parts[: rng.randrange(nd)] + [Ellipsis]
        idx = tuple(parts)
        return f"index{idx}", lambda d: d[idx]
    if kind == "pad":
        inpl = rng.random() < 0.5
        return f"pad({inpl})", (
            lambda d: (d.pad(1, modify_in_place=True), d)[1] if inpl else d.pad(1)
        )
    if kind == "crop":
        inpl = rng.random() < 0.5
        cw = ((0, 0),) * nd
        return f"crop({inpl})", (
            lambda d: (d.crop(cw, modify_in_place=True), d)[1] if inpl else d.crop(cw)
        )
    vals = [rng.uniform(0.5, 2.0) for _ in range(nd)]

    def setter(d):
        d.sampling = vals
        d.origin = tuple(vals[::-1])
        d.units = ["u%d" % i for i in range(d.ndim)]
        return d

    return "set", setter


def test_histories():
    rng = random.Random(20240203)
    starts = [
        (Dataset, (9,), np.float64),
        (Dataset2d, (8, 9), np.float32),
        (Dataset3d, (4, 6, 7), np.float64),
        (Dataset4dstem, (3, 4, 6, 5), np.float32),
        (Dataset4d, (2, 3, 4, 5), np.int16),
        (Dataset, (2, 3, 2, 4, 5), np.float64),
    ]
    for rep in range(60):
        cls, shape, dtype = starts[rep % len(starts)]
        fac = make_factory(cls, shape, dtype, 1000 + rep)
        d_old, d_new = fac(), fac()
        hist = []
        for _depth in range(12):
            label, op = random_op(rng, d_new.ndim, d_new.shape)
            hist.append(label)
            with warnings.catch_warnings():
                warnings.simplefilter("ignore")
                try:
                    with original_methods():
                        n_old = op(d_old)
                    e_old = None
                except Exception as e:  # noqa: BLE001
                    e_old = (type(e).__name__, str(e))
                try:
                    n_new = op(d_new)
                    e_new = None
                except Exception as e:  # noqa: BLE001
                    e_new = (type(e).__name__, str(e))
            assert e_old == e_new, (hist, e_old, e_new)
            assert snap(d_old) == snap(d_new), hist
            if e_new is not None:
                continue
            assert snap(n_old) == snap(n_new), hist
            assert alias_flags(n_old, d_old) == alias_flags(n_new, d_new), hist
            check_coherent(n_new)
            check_coherent(d_new)
            d_old, d_new = n_old, n_new
            if d_new.array.size == 0 or d_new.array.size > 200000:
                break


if __name__ == "__main__":
    np.seterr(all="ignore")
    test_copy()
    test_bin()
    test_fourier_resample()
    test_getitem()
    test_pad_crop()
    test_histories()
    print(f"C03 demo OK: {N_CASES} old-vs-new comparisons bit-identical")
