"""Demo for C02 / patch 2: PtychographyDatasetBase._set_patch_indices (separable wrapped
row / column coordinates hoisted out of the chunk loop).

1. Property check: data simulated by an independent numpy multislice / mixed-state reference
   are reproduced by the library forward pipeline at the ground truth (every data-fidelity loss
   ~ 0, incl. a scan with more than 1000 positions, i.e. several index chunks), and the loss is
   strictly larger at a perturbed object / probe.
2. Mechanism check: the library patch indices equal an independent integer numpy computation
   of the fftfreq-ordered, periodically wrapped flat indices.
3. Old-vs-new check: a verbatim copy of the ORIGINAL _set_patch_indices is run next to the
   library one on the same dataset for many position sets (negative / far outside the object,
   rounding ties, 1, 999, 1000, 1001, 2000, 2173 positions, various paddings, multi-step
   updates through dset.forward, empty position list) and must agree bit for bit.

Run:  PYTHONPATH=<root>/src /venv/bin/python demo.py
"""

import types
import warnings

warnings.filterwarnings("ignore")
import matplotlib

matplotlib.use("Agg")
import numpy as np
import torch

from quantem.core.datastructures.dataset4dstem import Dataset4dstem
from quantem.core.utils.utils import electron_wavelength_angstrom
from quantem.diffractive_imaging.dataset_models import PtychographyDatasetRaster
from quantem.diffractive_imaging.detector_models import DetectorPixelated
from quantem.diffractive_imaging.object_models import ObjectPixelated
from quantem.diffractive_imaging.probe_models import ProbePixelated
from quantem.diffractive_imaging.ptychography import Ptychography

ENERGY = 300e3
ALL_LOSSES = ("l2_amplitude", "l1_amplitude", "l2_intensity", "l1_intensity")


# --------------------------------------------------------------------------------------
# independent reference implementation (numpy only)
# --------------------------------------------------------------------------------------
def ref_probe(roi, dk, n_modes, c10=40.0, qprobe_frac=0.5):
    """corner-centred mixed-state probe (aperture + defocus), modes made distinct by low-order
    polynomials in q"""
    R, C = roi
    sampling = 1.0 / (np.array(roi) * np.array(dk))
    qr = np.fft.fftfreq(R, sampling[0])
    qc = np.fft.fftfreq(C, sampling[1])
    q2 = qr[:, None] ** 2 + qc[None, :] ** 2
    q = np.sqrt(q2)
    qprobe = min(np.abs(qr).max(), np.abs(qc).max()) * qprobe_frac
    ap = np.sqrt(np.clip((qprobe - q) / min(dk) + 0.5, 0, 1))
    lam = electron_wavelength_angstrom(ENERGY)
    base = ap * np.exp(-1j * np.pi * lam * q2 * c10)
    modes = []
    for m in range(n_modes):
        if m == 0:
            f = base
        elif m == 1:
            f = base * (qr[:, None] / qprobe) * 0.6
        else:
            f = base * (qc[None, :] / qprobe) * 0.4 * np.exp(1j * 0.3)
        modes.append(np.fft.ifft2(f))
    return np.stack(modes, 0)


def ref_simulate(trans, probes, positions_px, dz, sampling):
    """multislice mixed-state forward model.
    trans: (S,H,W) complex transmission, probes: (M,R,C) corner centred, positions_px: (J,2)
    returns detector-centred (fftshifted) intensities (J,R,C)"""
    S, H, W = trans.shape
    M, R, C = probes.shape
    lam = electron_wavelength_angstrom(ENERGY)
    kr = np.fft.fftfreq(R, sampling[0])
    kc = np.fft.fftfreq(C, sampling[1])
    k2 = kr[:, None] ** 2 + kc[None, :] ** 2
    fr = np.fft.fftfreq(R)
    fc = np.fft.fftfreq(C)
    ir = np.round(np.fft.fftfreq(R, 1.0 / R)).astype(int)
    ic = np.round(np.fft.fftfreq(C, 1.0 / C)).astype(int)
    out = np.zeros((positions_px.shape[0], R, C))
    for j, (pr, pc) in enumerate(positions_px):
        r0 = int(np.round(pr))
        c0 = int(np.round(pc))
        ramp = np.exp(-2j * np.pi * (fr[:, None] * (pr - r0) + fc[None, :] * (pc - c0)))
        rows = (r0 + ir) % H
        cols = (c0 + ic) % W
        tot = np.zeros((R, C))
        for m in range(M):
            psi = np.fft.ifft2(np.fft.fft2(probes[m]) * ramp)
            for s in range(S):
                if s > 0:
                    psi = np.fft.ifft2(
                        np.fft.fft2(psi) * np.exp(-1j * np.pi * lam * dz[s - 1] * k2)
                    )
                psi = psi * trans[s][np.ix_(rows, cols)]
            tot += np.abs(np.fft.fft2(psi, norm="ortho")) ** 2
        out[j] = np.fft.fftshift(tot)
    return out


# --------------------------------------------------------------------------------------
# library pipeline at the ground truth
# --------------------------------------------------------------------------------------
def build_ground_truth_case(
    gpts=(5, 4),
    roi=(12, 16),
    step=(1.7, 2.3),
    dk=(0.05, 0.04),
    n_slices=1,
    n_modes=1,
    obj_type="complex",
    pad=(0, 0),
    seed=0,
    thick=None,
):
    rng = np.random.default_rng(seed)
    roi = np.array(roi)
    dk = np.array(dk, dtype=float)
    sampling = 1.0 / (roi * dk)
    if thick is None:
        thick = [3.0 + 1.5 * i for i in range(n_slices - 1)]
    probes = ref_probe(roi, dk, n_modes)

    def make(arr4):
        d4 = Dataset4dstem.from_array(
            array=arr4,
            sampling=(step[0], step[1], dk[0], dk[1]),
            units=("A", "A", "A^-1", "A^-1"),
        )
        pd = PtychographyDatasetRaster.from_dataset4dstem(d4, verbose=0)
        pd.preprocess(
            com_fit_function="no_shift",
            plot_rotation=False,
            plot_com=False,
            probe_energy=ENERGY,
            force_com_rotation=0,
            force_com_transpose=False,
        )
        om = ObjectPixelated.from_uniform(
            num_slices=n_slices,
            obj_type=obj_type,
            slice_thicknesses=thick if n_slices > 1 else None,
        )
        pm = ProbePixelated.from_array(
            probe_array=probes.astype(np.complex64),
            num_probes=n_modes,
            probe_params={"energy": ENERGY},
            rng=1,
        )
        pt = Ptychography.from_models(
            dset=pd,
            obj_model=om,
            probe_model=pm,
            detector_model=DetectorPixelated(),
            rng=3,
            verbose=0,
        )
        pt.preprocess(obj_padding_px=pad, plot_rotation=False, plot_com=False)
        pt.constraints = {"probe": {"orthogonalize_probe": False}}
        return pt

    # geometry pass with dummy data (object shape / effective padding chosen by the library)
    pt0 = make(np.ones((*gpts, *roi), dtype=np.float32))
    S, H, W = [int(x) for x in pt0.obj_shape_full]
    padf = np.array(pt0.obj_padding_px, dtype=float)
    rr, cc = np.meshgrid(np.arange(gpts[0]) * step[0], np.arange(gpts[1]) * step[1], indexing="ij")
    pos = np.stack([rr.ravel() / sampling[0] + padf[0], cc.ravel() / sampling[1] + padf[1]], -1)
    assert np.allclose(pos, pt0.dset.scan_positions_px.detach().numpy(), atol=1e-4)
    pos = np.clip(pos, 0, [H - 1, W - 1])  # library default constraint: clip_scan_positions
    assert np.abs(np.abs(pos - np.round(pos)) - 0.5).min() > 1e-3, "avoid rounding ties"

    ph = rng.uniform(0.0, 0.8, size=(S, H, W))
    obj_param = ph if obj_type == "potential" else np.exp(1j * ph)
    intens = ref_simulate(np.exp(1j * ph), probes, pos, thick, sampling) * 50.0
    pt = make(intens.reshape(*gpts, *roi).astype(np.float32))
    assert tuple(int(x) for x in pt.obj_shape_full) == (S, H, W)

    with torch.no_grad():
        pt.obj_model._obj.data = torch.tensor(obj_param, dtype=pt.obj_model._obj.dtype)
    scale = np.sqrt(
        pt.dset.mean_diffraction_intensity
        / np.sum(np.abs(np.fft.fft2(probes, norm="ortho")) ** 2)
    )
    pt.probe_model.probe = (probes * scale).astype(np.complex64)  # public probe setter
    return pt


def predict(pt, b):
    pi, _p, pf, ds = pt.dset.forward(b, pt.obj_padding_px)
    sp = pt.probe_model.forward(pf)
    op = pt.obj_model.forward(pi)
    _pp, ov = pt.forward_operator(op, sp, ds)
    return pt.detector_model.forward(ov)


def losses(pt, batch=None, loss_types=ALL_LOSSES):
    n = pt.dset.num_gpts
    bs = n if batch is None else batch
    out = {}
    for lt in loss_types:
        pt.dset._set_targets(lt)
        tot, nb = 0.0, 0
        with torch.no_grad():
            for i in range(0, n, bs):
                b = np.arange(n)[i : i + bs]
                loss, _t = pt.error_estimate(predict(pt, b), b, loss_type=lt)
                tot += float(loss)
                nb += 1
        out[lt] = tot / nb
    return out


def check_property(pt, batches=(None, 7, 1)):
    """zero loss at the ground truth for all losses / batch sizes, larger when perturbed"""
    gt = {}
    for bs in batches:
        res = losses(pt, batch=bs)
        for lt, v in res.items():
            # losses are sums over all patterns (float32 pipeline): tolerance per pattern
            tol = (1e-10 if "l2" in lt else 1e-4) * pt.dset.num_gpts
            assert 0 <= v < tol, (lt, bs, v)
        gt[bs] = res
    obj0 = pt.obj_model._obj.data.clone()
    prb0 = pt.probe_model._probe.data.clone()
    # perturbed object: flatten it
    with torch.no_grad():
        pt.obj_model._obj.data = torch.full_like(obj0, 0.3)
    per_obj = losses(pt)
    with torch.no_grad():
        pt.obj_model._obj.data = obj0.clone()
    # perturbed probe: tilt (phase ramp in real space) + 10% amplitude
    R, C = prb0.shape[-2:]
    ramp = torch.exp(2j * torch.pi * torch.fft.fftfreq(R)[:, None] * 1.3) * torch.ones(1, C)
    pt.probe_model.probe = prb0 * ramp * 1.1
    per_prb = losses(pt)
    pt.probe_model.probe = prb0.clone()
    for lt in ALL_LOSSES:
        assert per_obj[lt] > 1e-3 and per_obj[lt] > 1e3 * gt[None][lt], (lt, per_obj[lt])
        assert per_prb[lt] > 1e-3 and per_prb[lt] > 1e3 * gt[None][lt], (lt, per_prb[lt])
    back = losses(pt)
    for lt in ALL_LOSSES:
        assert back[lt] == gt[None][lt], "restoring the ground truth must restore the loss"
    return gt[None]


# --------------------------------------------------------------------------------------
# verbatim copy of the ORIGINAL PtychographyDatasetBase._set_patch_indices
# --------------------------------------------------------------------------------------
def orig_set_patch_indices(self, obj_padding_px) -> None:
    """Set the _patch_indices based on self.scan_positions_px"""
    obj_shape = self._obj_shape_full_2d(obj_padding_px)
    r0 = torch.round(self.scan_positions_px[:, 0]).type(torch.int32)
    c0 = torch.round(self.scan_positions_px[:, 1]).type(torch.int32)

    x_ind = torch.fft.fftfreq(self.roi_shape[0], d=1 / self.roi_shape[0]).to(self.device)
    y_ind = torch.fft.fftfreq(self.roi_shape[1], d=1 / self.roi_shape[1]).to(self.device)

    # Process positions in chunks to reduce memory usage
    chunk_size = min(1000, len(r0))
    patch_indices_list = []

    for i in range(0, len(r0), chunk_size):
        end_idx = min(i + chunk_size, len(r0))
        r0_chunk = r0[i:end_idx]
        c0_chunk = c0[i:end_idx]

        row_chunk = (r0_chunk[:, None, None] + x_ind[None, :, None]) % obj_shape[-2]
        col_chunk = (c0_chunk[:, None, None] + y_ind[None, None, :]) % obj_shape[-1]

        patch_indices_chunk = (row_chunk * obj_shape[-1] + col_chunk).type(torch.int32)
        patch_indices_list.append(patch_indices_chunk)

    self._patch_indices = torch.cat(patch_indices_list, dim=0)
    self._last_patch_positions_px = self.scan_positions_px.clone()


def numpy_patch_indices(positions, roi, obj_shape):
    """independent integer computation (np.round and torch.round both round half to even)"""
    R, C = roi
    H, W = obj_shape
    ir = np.round(np.fft.fftfreq(R, 1.0 / R)).astype(np.int64)
    ic = np.round(np.fft.fftfreq(C, 1.0 / C)).astype(np.int64)
    r0 = np.round(positions[:, 0]).astype(np.int64)
    c0 = np.round(positions[:, 1]).astype(np.int64)
    rows = (r0[:, None] + ir[None, :]) % H
    cols = (c0[:, None] + ic[None, :]) % W
    return rows[:, :, None] * W + cols[:, None, :]


def run_both(dset, pad):
    """(new result, original result) of _set_patch_indices on the same dataset state"""
    res = []
    for fn in (dset._set_patch_indices, lambda p: orig_set_patch_indices(dset, p)):
        dset._patch_indices = torch.zeros(1, dtype=torch.int32)
        dset._last_patch_positions_px = torch.zeros(1)
        fn(pad)
        res.append((dset._patch_indices.clone(), dset._last_patch_positions_px.clone()))
    return res


def make_dataset(gpts, roi, step=(1.3, 0.8), dk=(0.06, 0.05)):
    d4 = Dataset4dstem.from_array(
        array=np.ones((*gpts, *roi), dtype=np.float32),
        sampling=(step[0], step[1], dk[0], dk[1]),
        units=("A", "A", "A^-1", "A^-1"),
    )
    return PtychographyDatasetRaster.from_dataset4dstem(d4, verbose=0)


def check_old_vs_new_indices(seed=0):
    rng = np.random.default_rng(seed)
    n_cmp = 0
    configs = [
        ((1, 1), (6, 8)),
        ((3, 4), (12, 16)),
        ((27, 37), (6, 4)),  # 999
        ((25, 40), (4, 6)),  # 1000 -> exactly one full chunk
        ((7, 143), (6, 6)),  # 1001 -> 1000 + 1
        ((40, 50), (4, 4)),  # 2000 -> two full chunks
        ((41, 53), (6, 8)),  # 2173 -> three chunks
        ((2, 3), (7, 9)),  # odd roi
    ]
    for gpts, roi in configs:
        dset = make_dataset(gpts, roi)
        n = dset.num_gpts
        for pad in [(0, 0), (3, 5), np.array([16, 2])]:
            H, W = [int(x) for x in dset._obj_shape_full_2d(pad)]
            pos_sets = [
                np.zeros((n, 2)),
                rng.uniform(0, [H, W], size=(n, 2)),
                rng.uniform(-3 * H, 3 * H, size=(n, 2)),  # negative / far outside -> wrap
                np.round(rng.uniform(-W, 2 * W, size=(n, 2))) + 0.5,  # rounding ties
                rng.integers(-5, 5, size=(n, 2)).astype(float) - 0.5,
                np.stack([np.linspace(-0.49, H + 0.49, n), np.linspace(W - 0.51, -7.2, n)], -1),
            ]
            for pos in pos_sets:
                dset.scan_positions_px = pos.astype(np.float32)
                (pi_new, last_new), (pi_old, last_old) = run_both(dset, pad)
                assert pi_new.dtype == pi_old.dtype == torch.int32
                assert pi_new.shape == pi_old.shape == (n, *roi)
                assert torch.equal(pi_new, pi_old)
                assert torch.equal(last_new, last_old)
                assert torch.equal(last_new, dset.scan_positions_px.detach())
                assert pi_new.is_contiguous() == pi_old.is_contiguous()
                if H > 0 and W > 0:  # (a 1x1 scan without padding has a degenerate 0x0 object)
                    ref = numpy_patch_indices(pos.astype(np.float32), roi, (H, W))
                    assert np.array_equal(pi_new.numpy().astype(np.int64), ref)
                    assert 0 <= int(pi_new.min()) and int(pi_new.max()) < H * W
                n_cmp += 1
    # empty position list: both versions refuse in the same way
    stub_errs = []
    for fn in (PtychographyDatasetRaster._set_patch_indices, orig_set_patch_indices):
        stub = types.SimpleNamespace(
            scan_positions_px=torch.zeros((0, 2)),
            roi_shape=np.array([6, 8]),
            device=torch.device("cpu"),
            _obj_shape_full_2d=lambda p: np.array([10, 12]),
            _patch_indices="untouched",
        )
        try:
            fn(stub, (0, 0))
            stub_errs.append(None)
        except Exception as e:  # noqa: BLE001
            stub_errs.append((type(e), str(e), stub._patch_indices))
    assert stub_errs[0] == stub_errs[1] and stub_errs[0] is not None, stub_errs
    return n_cmp


def check_multistep(pt, seed):
    """positions move between forward calls: indices are refreshed exactly like the original"""
    g = torch.Generator().manual_seed(seed)
    dset = pt.dset
    n = dset.num_gpts
    pad = pt.obj_padding_px
    start = dset.scan_positions_px.detach().clone()
    for step in range(6):
        delta = (torch.rand(n, 2, generator=g) - 0.5) * (0.2 if step % 2 else 2.4)
        dset.scan_positions_px = dset.scan_positions_px.detach() + delta
        b = torch.randperm(n, generator=g)[: max(1, n // 2)].numpy()
        pi, pos, frac, _ds = dset.forward(b, pad)
        got = dset.patch_indices.clone()
        assert not dset.patch_indices_need_update()
        orig_set_patch_indices(dset, pad)
        assert torch.equal(got, dset.patch_indices)
        assert torch.equal(pi, dset.patch_indices[b])
        assert torch.equal(frac, pos - torch.round(pos))
        H, W = [int(x) for x in dset._obj_shape_full_2d(pad)]
        ref = numpy_patch_indices(dset.scan_positions_px.detach().numpy(), dset.roi_shape, (H, W))
        assert np.array_equal(got.numpy().astype(np.int64), ref)
    dset.scan_positions_px = start
    dset._set_patch_indices(pad)


CASES = [
    dict(),
    dict(n_slices=3, n_modes=2, obj_type="potential", pad=(4, 6)),
    dict(n_slices=2, n_modes=3, obj_type="pure_phase", pad=(3, 3), roi=(16, 12), gpts=(3, 6)),
    dict(
        n_slices=4,
        n_modes=3,
        obj_type="potential",
        gpts=(2, 7),
        roi=(10, 20),
        pad=(5, 9),
        step=(2.9, 1.1),
        thick=[2.0, 7.5, 0.5],
    ),
    dict(n_modes=2, obj_type="pure_phase", gpts=(6, 3), roi=(8, 8), pad=(8, 8), step=(0.9, 3.3)),
    # > 1000 probe positions: the indices are assembled from two chunks
    dict(n_slices=2, gpts=(34, 31), roi=(8, 10), pad=(4, 4), step=(0.7, 0.85), dk=(0.07, 0.06)),
]

if __name__ == "__main__":
    torch.set_num_threads(1)
    torch.manual_seed(0)
    for k, kw in enumerate(CASES):
        pt = build_ground_truth_case(**kw)
        big = pt.dset.num_gpts > 1000
        gt = check_property(pt, batches=(None, 333) if big else (None, 7, 1))
        # library indices at the ground truth == independent numpy indices
        H, W = [int(x) for x in pt.obj_shape_full[-2:]]
        ref = numpy_patch_indices(pt.dset.scan_positions_px.detach().numpy(), pt.roi_shape, (H, W))
        assert np.array_equal(pt.dset.patch_indices.numpy().astype(np.int64), ref)
        check_multistep(pt, seed=k)
        after = losses(pt, loss_types=("l2_amplitude",))
        assert after["l2_amplitude"] == gt["l2_amplitude"], "ground truth restored after the walk"
        print(f"case {k}: {kw} obj={tuple(int(x) for x in pt.obj_shape_full)} "
              f"gt-loss={max(gt.values()):.2e} ok")
    total = check_old_vs_new_indices()
    print(f"PASS ({total} old-vs-new index comparisons identical)")
