"""Demo for C12 patch 2: the (n, m) enumeration shared by polar_to_cartesian_aberrations and
cartesian_to_polar_aberrations was extracted into one generator that walks m directly
(m = (n+1) % 2, ..., n+1 in steps of 2) instead of filtering s in 0..n+1 by m = 2s-n-1 >= 0.

Checks (a) bit-for-bit agreement with verbatim copies of the original functions (values, dtypes,
key order, exceptions, gradients) and (b) the property: the polar surface, the Cartesian-basis
expansion and the conversions describe the same function, and conversions round-trip."""

import math
import random
from collections import defaultdict

import torch

from quantem.diffractive_imaging import complex_probe as cp
from quantem.diffractive_imaging.complex_probe import (
    POLAR_SYMBOLS,
    aberration_surface,
    aberration_surface_cartesian_basis,
    cartesian_to_polar_aberrations,
    merge_aberration_coefficients,
    polar_to_cartesian_aberrations,
)


# ----------------------------------------------------------------------------- verbatim originals
def polar_to_cartesian_aberrations_ORIG(polar, max_order=5, device=None, dtype=None):
    polar = defaultdict(lambda: torch.tensor(0.0, device=device, dtype=dtype), polar)
    cart = {}

    for n in range(1, max_order + 1):
        for s in range(0, n + 2):
            m = 2 * s - n - 1
            if m < 0:
                continue
            name = f"C{n}{m}"
            if m == 0:
                cart[name] = polar[name]
            else:
                phi = polar[f"phi{n}{m}"]
                C = polar[name]
                cart[f"{name}_a"] = C * torch.cos(m * phi)
                cart[f"{name}_b"] = C * torch.sin(m * phi)

    return cart


def cartesian_to_polar_aberrations_ORIG(cart, max_order=5):
    cart = defaultdict(lambda: torch.tensor(0.0), cart)
    polar = {}

    for n in range(1, max_order + 1):
        for s in range(0, n + 2):
            m = 2 * s - n - 1
            if m < 0:
                continue
            name = f"C{n}{m}"
            if m == 0:
                polar[name] = cart[name]
            else:
                Ca = cart[f"{name}_a"]
                Cb = cart[f"{name}_b"]
                polar[name] = torch.sqrt(Ca**2 + Cb**2)
                polar[f"phi{n}{m}"] = torch.atan2(Cb, Ca) / m

    return polar


def merge_aberration_coefficients_ORIG(init_coefs_polar, delta_coefs_cartesian):
    updated_coefs_cartesian = polar_to_cartesian_aberrations_ORIG(init_coefs_polar)
    for k, v in delta_coefs_cartesian.items():
        if k in updated_coefs_cartesian:
            updated_coefs_cartesian[k] = updated_coefs_cartesian[k] + v
        else:
            updated_coefs_cartesian[k] = v
    return cartesian_to_polar_aberrations_ORIG(updated_coefs_cartesian)


# ----------------------------------------------------------------------------- helpers
def same_tensor(a, b):
    if not (isinstance(a, torch.Tensor) and isinstance(b, torch.Tensor)):
        return type(a) is type(b) and (a == b or (a != a and b != b))
    return (
        a.dtype == b.dtype
        and a.shape == b.shape
        and a.device == b.device
        and a.requires_grad == b.requires_grad
        and torch.allclose(a, b, rtol=0.0, atol=0.0, equal_nan=True)
        and torch.equal(torch.signbit(a), torch.signbit(b))
    )


def same_dict(a, b):
    assert type(a) is dict and type(b) is dict
    assert list(a.keys()) == list(b.keys()), (list(a.keys()), list(b.keys()))
    for k in a:
        assert same_tensor(a[k], b[k]), (k, a[k], b[k])


def run(fn, *args, **kw):
    try:
        return ("ok", fn(*args, **kw))
    except BaseException as e:  # noqa: BLE001
        return ("err", type(e), str(e))


def compare(new_fn, old_fn, *args, **kw):
    rn, ro = run(new_fn, *args, **kw), run(old_fn, *args, **kw)
    assert rn[0] == ro[0], (rn, ro)
    if rn[0] == "ok":
        same_dict(rn[1], ro[1])
    else:
        assert rn[1:] == ro[1:], (rn, ro)
    return rn


CART_LABELS = []
for n in range(1, 6):
    for m in range(0, n + 2):
        if (n + 1 - m) % 2 == 0:
            CART_LABELS += [f"C{n}{m}"] if m == 0 else [f"C{n}{m}_a", f"C{n}{m}_b"]
assert len(CART_LABELS) == 25 and len(POLAR_SYMBOLS) == 25

rng = random.Random(7)
torch.manual_seed(7)
cases = 0


def rand_polar(dtype=torch.float32, frac=1.0, shape=()):
    d = {}
    for s in POLAR_SYMBOLS:
        if rng.random() > frac:
            continue
        if s.startswith("phi"):
            d[s] = (torch.rand(shape, dtype=dtype) * 2 - 1) * math.pi
        else:
            d[s] = torch.randn(shape, dtype=dtype) * 10 ** rng.uniform(-1, 4)
    items = list(d.items())
    rng.shuffle(items)
    return dict(items)


def rand_cart(dtype=torch.float32, frac=1.0, shape=()):
    d = {k: torch.randn(shape, dtype=dtype) * 10 ** rng.uniform(-1, 4) for k in CART_LABELS if rng.random() <= frac}
    items = list(d.items())
    rng.shuffle(items)
    return dict(items)


# 1. enumeration itself: every max_order gives the same ordered key lists as the original
for mo in [-3, -1, 0, 1, 2, 3, 4, 5, 6, 7, 8, True, False]:
    r = compare(polar_to_cartesian_aberrations, polar_to_cartesian_aberrations_ORIG, {}, max_order=mo)
    compare(cartesian_to_polar_aberrations, cartesian_to_polar_aberrations_ORIG, {}, max_order=mo)
    cases += 2
    if mo == 5:
        assert list(r[1].keys()) == CART_LABELS
r = run(cartesian_to_polar_aberrations, {})
assert sorted(r[1].keys()) == sorted(POLAR_SYMBOLS)
import numpy as np  # noqa: E402

compare(polar_to_cartesian_aberrations, polar_to_cartesian_aberrations_ORIG, {}, max_order=np.int64(4))

# 2. numeric agreement old vs new: full / partial / empty dicts, dtypes, shapes, max_order
for dtype in (torch.float32, torch.float64):
    for frac in (1.0, 0.6, 0.2, 0.0):
        for shape in ((), (1,), (3,), (2, 3)):
            for mo in (1, 2, 3, 5, 6):
                p = rand_polar(dtype, frac, shape)
                c = rand_cart(dtype, frac, shape)
                compare(polar_to_cartesian_aberrations, polar_to_cartesian_aberrations_ORIG, p, max_order=mo)
                compare(polar_to_cartesian_aberrations, polar_to_cartesian_aberrations_ORIG, p, mo, None, dtype)
                compare(cartesian_to_polar_aberrations, cartesian_to_polar_aberrations_ORIG, c, max_order=mo)
                compare(merge_aberration_coefficients, merge_aberration_coefficients_ORIG, p, c)
                cases += 4

# 3. edge values: zeros, negative magnitudes, signed zeros, inf / nan, angles at the branch cut
edge_vals = [0.0, -0.0, 1.0, -1.0, math.pi, -math.pi, math.pi / 2, 1e-30, 1e30, float("inf"), float("nan")]
for v in edge_vals:
    for w in edge_vals:
        p = {}
        for s in POLAR_SYMBOLS:
            p[s] = torch.tensor(w if s.startswith("phi") else v)
        compare(polar_to_cartesian_aberrations, polar_to_cartesian_aberrations_ORIG, p)
        c = {k: torch.tensor(v if k.endswith("_a") or "_" not in k else w) for k in CART_LABELS}
        compare(cartesian_to_polar_aberrations, cartesian_to_polar_aberrations_ORIG, c)
        cases += 2

# 4. inputs are not mutated, missing keys are not added to the caller's dict
p = {"C10": torch.tensor(5.0), "C12": torch.tensor(2.0)}
snap = dict(p)
polar_to_cartesian_aberrations(p)
assert list(p.keys()) == list(snap.keys()) and all(p[k] is snap[k] for k in p)
c = {"C10": torch.tensor(5.0), "C12_b": torch.tensor(2.0)}
snap = dict(c)
cartesian_to_polar_aberrations(c)
assert list(c.keys()) == list(snap.keys()) and all(c[k] is snap[k] for k in c)
# m == 0 entries are passed through as the very same object
t = torch.tensor(3.0)
assert polar_to_cartesian_aberrations({"C30": t})["C30"] is t
assert cartesian_to_polar_aberrations({"C50": t})["C50"] is t

# 5. failure cases give the same exception
bad = [
    (({"C12": 1.0, "phi12": 0.3},), {}),  # python floats are not accepted by torch.cos
    (({"C12": torch.tensor(1.0), "phi12": "x"},), {}),
    ((None,), {}),
    ((5,), {}),
    (({},), {"max_order": 2.5}),
    (({},), {"max_order": "3"}),
    (({},), {"max_order": None}),
    (({},), {"max_order": 3, "device": "nonexistent_device"}),
    (({},), {"max_order": 3, "dtype": "float"}),
]
for args, kw in bad:
    r = compare(polar_to_cartesian_aberrations, polar_to_cartesian_aberrations_ORIG, *args, **kw)
    assert r[0] == "err", r
    cases += 1
bad_c = [
    (({"C12_a": 1.0, "C12_b": 2.0},), {}),
    (({"C12_a": "x"},), {}),
    ((None,), {}),
    (({},), {"max_order": 2.5}),
    (({},), {"max_order": "3"}),
]
for args, kw in bad_c:
    r = compare(cartesian_to_polar_aberrations, cartesian_to_polar_aberrations_ORIG, *args, **kw)
    assert r[0] == "err", r
    cases += 1

# 6. gradients flow identically
for _ in range(20):
    base = rand_polar(torch.float64, 0.7)
    pn = {k: v.clone().requires_grad_(True) for k, v in base.items()}
    po = {k: v.clone().requires_grad_(True) for k, v in base.items()}
    w = torch.randn(25, dtype=torch.float64)
    ln = sum(wi * v for wi, v in zip(w, polar_to_cartesian_aberrations(pn, dtype=torch.float64).values()))
    lo = sum(wi * v for wi, v in zip(w, polar_to_cartesian_aberrations_ORIG(po, dtype=torch.float64).values()))
    if pn:
        ln.backward()
        lo.backward()
    for k in pn:
        assert (pn[k].grad is None) == (po[k].grad is None)
        if pn[k].grad is not None:
            assert torch.equal(pn[k].grad, po[k].grad)
    cases += 1

# 7. the property: polar surface == Cartesian-basis expansion of the converted coefficients,
#    on a non-square polar grid, for random coefficient sets (float64), and round trips
alpha = torch.linspace(0.0, 0.03, 7, dtype=torch.float64)[:, None].expand(7, 11)
phi = torch.linspace(-math.pi, math.pi, 11, dtype=torch.float64)[None, :].expand(7, 11)
for wavelength in (0.0197, 0.0251, 0.0370):
    for _ in range(25):
        p = rand_polar(torch.float64, rng.choice([1.0, 0.5]))
        # keep magnitudes so that chi is O(1..1e3)
        chi_polar = aberration_surface(alpha, phi, wavelength, p)
        cart = polar_to_cartesian_aberrations(p, dtype=torch.float64)
        assert list(cart.keys()) == CART_LABELS
        basis = aberration_surface_cartesian_basis(alpha, phi, wavelength, CART_LABELS)
        assert basis.shape == (7, 11, 25)
        chi_cart = basis @ torch.stack([cart[k] for k in CART_LABELS])
        scale = chi_polar.abs().max().clamp(min=1.0)
        assert torch.allclose(chi_cart, chi_polar, rtol=0, atol=1e-10 * scale.item()), (
            (chi_cart - chi_polar).abs().max(), scale)
        # round trip cartesian -> polar -> cartesian
        back = polar_to_cartesian_aberrations(cartesian_to_polar_aberrations(cart), dtype=torch.float64)
        for k in CART_LABELS:
            assert torch.allclose(back[k], cart[k], rtol=1e-10, atol=1e-10 * (1 + cart[k].abs().item())), k
        # polar -> cartesian -> polar describes the same surface (angles may be folded)
        p2 = cartesian_to_polar_aberrations(cart)
        chi2 = aberration_surface(alpha, phi, wavelength, p2)
        assert torch.allclose(chi2, chi_polar, rtol=0, atol=1e-9 * scale.item())
        cases += 1

# 8. merge: adding cartesian deltas is linear in the surface
for _ in range(20):
    p = rand_polar(torch.float64, 0.6)
    d = rand_cart(torch.float64, 0.5)
    merged = merge_aberration_coefficients(p, d)
    chi_m = aberration_surface(alpha, phi, 0.0197, merged)
    basis = aberration_surface_cartesian_basis(alpha, phi, 0.0197, CART_LABELS)
    dvec = torch.stack([d.get(k, torch.tensor(0.0, dtype=torch.float64)) for k in CART_LABELS])
    chi_expect = aberration_surface(alpha, phi, 0.0197, p) + basis @ dvec
    scale = chi_expect.abs().max().clamp(min=1.0).item()
    assert torch.allclose(chi_m, chi_expect, rtol=0, atol=1e-9 * scale)
    cases += 1

# the new helper, when present, must enumerate exactly the original (n, m) sequence
if hasattr(cp, "_aberration_orders"):
    for mo in range(-2, 12):
        ref = [(n, 2 * s - n - 1) for n in range(1, mo + 1) for s in range(0, n + 2) if 2 * s - n - 1 >= 0]
        assert list(cp._aberration_orders(mo)) == ref

print(f"PASS ({cases} cases)")
