"""Shared demo for the five behaviour-preserving edits of property C16.

Embeds verbatim copies of the ORIGINAL functions (fourier_translation_operator,
fourier_shift_expand, sum_patches_base, sum_patches, DetectorPixelated.forward,
PtychographyBase._propagate_array) and asserts that the functions currently in the
tree give bit-for-bit identical results (same type, dtype, shape, bytes) on a spread
of inputs.  It additionally asserts the C16 identities themselves (energy
preservation, integer shift == circular roll, additive composition, adjointness of
the patch scatter, Parseval for the detector, propagate(+z) then propagate(-z) == id).

Run as:  PYTHONPATH=<root>/src /venv/bin/python demo.py
"""

import itertools

import numpy as np
import torch

from quantem.core.utils import array_funcs as af
from quantem.diffractive_imaging import ptycho_utils as pu
from quantem.diffractive_imaging.detector_models import DetectorPixelated
from quantem.diffractive_imaging.ptychography_base import PtychographyBase

torch.manual_seed(0)
RNG = np.random.default_rng(1234)


# --------------------------------------------------------------------------------------
# verbatim copies of the ORIGINAL code (worktree HEAD)
# --------------------------------------------------------------------------------------
def orig_fourier_shift_expand(array, positions, expand_dim=True):
    """Fourier-shift array by flat array of positions."""
    # the ramp must stay complex: casting it to a real array dtype would keep only its cosine part
    phase = orig_fourier_translation_operator(
        positions, array.shape, expand_dim, dtype=array.dtype if af.is_complex(array) else None
    )
    fourier_array = af.fft2(array)
    shifted_fourier_array = fourier_array * phase
    shifted_array = af.ifft2(shifted_fourier_array)
    if af.is_complex(array):
        return shifted_array
    else:
        return shifted_array.real


def orig_fourier_translation_operator(positions, shape, expand_dim=True, dtype=None):
    """Returns phase ramp for fourier-shifting array of shape `shape`."""
    nr, nc = shape[-2:]
    r = positions[..., 0][:, None, None]
    c = positions[..., 1][:, None, None]
    kr = af.match_device(np.fft.fftfreq(nr, d=1.0).astype(np.float32), positions)
    kc = af.match_device(np.fft.fftfreq(nc, d=1.0).astype(np.float32), positions)
    ramp_r = af.exp(-2.0j * np.pi * kr[None, :, None] * r)
    ramp_c = af.exp(-2.0j * np.pi * kc[None, None, :] * c)
    ramp = ramp_r * ramp_c
    if expand_dim:
        for _ in range(len(shape) - 2):
            ramp = ramp[:, None, ...]
    if dtype is not None:
        ramp = af.as_type(ramp, dtype)
    return ramp


def orig_sum_patches_base(patches, indices, obj_shape):
    flat_weights = patches.reshape(-1)
    flat_indices = indices.reshape(-1)
    out = af.match_device(
        torch.zeros(
            int(torch.prod(torch.tensor(obj_shape))), dtype=patches.dtype, device=patches.device
        ),
        patches,
    )
    out.index_add_(0, flat_indices, flat_weights)
    return out.reshape(obj_shape)


def orig_sum_patches(patches, indices, obj_shape):
    if torch.is_complex(patches):
        real = orig_sum_patches_base(patches.real, indices, obj_shape)
        imag = orig_sum_patches_base(patches.imag, indices, obj_shape)
        return real + 1.0j * imag
    else:
        return orig_sum_patches_base(patches, indices, obj_shape)


def orig_detector_forward(self, exit_waves):
    exit_fft = torch.fft.fft2(exit_waves, norm="ortho")
    intensities = torch.sum(torch.abs(exit_fft) ** 2, dim=0)
    return torch.fft.fftshift(intensities, dim=(-2, -1))  # detector centering


def orig_propagate_array(self, array, propagator_array):
    propagated = torch.fft.ifft2(torch.fft.fft2(array) * propagator_array)
    return propagated


# --------------------------------------------------------------------------------------
# helpers
# --------------------------------------------------------------------------------------
def _np(x):
    if isinstance(x, torch.Tensor):
        x = x.detach().cpu().resolve_conj().resolve_neg().numpy()
    return x


def assert_bit_identical(old, new, what):
    assert type(old) is type(new), f"{what}: type {type(old)} != {type(new)}"
    if isinstance(old, torch.Tensor):
        assert old.dtype == new.dtype, f"{what}: torch dtype {old.dtype} != {new.dtype}"
        assert old.device == new.device, what
    o, n = _np(old), _np(new)
    assert o.dtype == n.dtype, f"{what}: dtype {o.dtype} != {n.dtype}"
    assert o.shape == n.shape, f"{what}: shape {o.shape} != {n.shape}"
    assert np.ascontiguousarray(o).tobytes() == np.ascontiguousarray(n).tobytes(), (
        f"{what}: values differ (max abs diff {np.nanmax(np.abs(o - n)) if o.size else 0})"
    )


def rand(shape, dtype, lib):
    """Random array of numpy dtype `dtype` as numpy array or torch tensor."""
    dtype = np.dtype(dtype)
    if dtype.kind == "c":
        a = RNG.normal(size=shape) + 1j * RNG.normal(size=shape)
    else:
        a = RNG.normal(size=shape)
    a = a.astype(dtype)
    return a if lib == "np" else torch.from_numpy(a)


def positions_for(n, dtype, lib, kind):
    if kind == "int":
        p = RNG.integers(-9, 10, size=(n, 2)).astype(dtype)
    elif kind == "frac":
        p = RNG.uniform(-7.5, 7.5, size=(n, 2)).astype(dtype)
    else:  # mixed incl. zero, large
        p = RNG.uniform(-40, 40, size=(n, 2)).astype(dtype)
        p[0] = 0
        if n > 1:
            p[1] = (3, -2.5)
    return p if lib == "np" else torch.from_numpy(p)


SHAPES = [(8, 8), (7, 9), (6, 5), (1, 4), (3, 8, 6), (2, 7, 7), (2, 3, 5, 4)]
ncheck = 0

# --------------------------------------------------------------------------------------
# 1. fourier_translation_operator: old == new
# --------------------------------------------------------------------------------------
for lib, pdt, shape, n, kind, expand in itertools.product(
    ("np", "torch"), ("float32", "float64"), SHAPES, (1, 3, 5), ("int", "frac", "mixed"),
    (True, False),
):
    pos = positions_for(n, pdt, lib, kind)
    dtypes = [None]
    if lib == "np":
        dtypes += ["complex64", "complex128", np.complex64, np.dtype("complex128")]
    else:
        dtypes += [torch.complex64, torch.complex128, "complex64"]
    for dt in dtypes:
        old = orig_fourier_translation_operator(pos, shape, expand, dtype=dt)
        new = pu.fourier_translation_operator(pos, shape, expand, dtype=dt)
        assert_bit_identical(old, new, f"translation_operator {lib} {pdt} {shape} {n} {kind} {expand} {dt}")
        # unit modulus
        assert np.allclose(np.abs(_np(new)), 1.0, atol=1e-5)
        exp_rank = 3 + (len(shape) - 2 if expand else 0)
        assert new.ndim == exp_rank
        ncheck += 1

# --------------------------------------------------------------------------------------
# 2. fourier_shift_expand: old == new, plus identities
# --------------------------------------------------------------------------------------
for lib, adt, pdt, shape, n, kind in itertools.product(
    ("np", "torch"), ("float32", "float64", "complex64", "complex128"), ("float32", "float64"),
    SHAPES, (1, 4), ("int", "frac", "mixed"),
):
    arr = rand(shape, adt, lib)
    pos = positions_for(n, pdt, lib, kind)
    old = orig_fourier_shift_expand(arr, pos)
    new = pu.fourier_shift_expand(arr, pos)
    assert_bit_identical(old, new, f"shift_expand {lib} {adt} {pdt} {shape} {n} {kind}")
    is_c = np.dtype(adt).kind == "c"
    assert af.is_complex(new) == is_c  # real in -> real out, complex in -> complex out
    assert tuple(new.shape) == (n,) + tuple(shape)
    ncheck += 1
    if len(shape) == 2:
        # expand_dim=False on a 2D array is the same thing
        old2 = orig_fourier_shift_expand(arr, pos, False)
        new2 = pu.fourier_shift_expand(arr, pos, False)
        assert_bit_identical(old2, new2, "shift_expand expand_dim=False")
        assert_bit_identical(new, new2, "shift_expand expand_dim irrelevant for 2D")
    a, s, p = _np(arr), _np(new), _np(pos)
    tol = 2e-4 if "32" in adt or adt == "complex64" or pdt == "float32" else 1e-5
    scale = max(1.0, float(np.abs(a).max()))
    if kind == "int":
        # integer translations are circular rolls
        for i in range(n):
            ref = np.roll(a, (int(p[i, 0]), int(p[i, 1])), axis=(-2, -1))
            assert np.allclose(s[i], ref, atol=tol * scale * 10), (lib, adt, pdt, shape, i)
    if is_c:
        # total intensity is preserved
        e0 = float(np.sum(np.abs(a.astype(np.complex128)) ** 2))
        for i in range(n):
            e1 = float(np.sum(np.abs(s[i].astype(np.complex128)) ** 2))
            etol = 1e-9 if (adt == "complex128" and pdt == "float64") else 1e-4
            assert abs(e1 - e0) <= etol * e0, (lib, adt, pdt, e0, e1)

# additive composition (complex128, float64 positions): shift(a) then shift(b) == shift(a+b)
for lib, shape in itertools.product(("np", "torch"), [(8, 8), (7, 9), (6, 5)]):
    arr = rand(shape, "complex128", lib)
    pa = positions_for(1, "float64", lib, "frac")
    pb = positions_for(1, "float64", lib, "frac")
    one = pu.fourier_shift_expand(pu.fourier_shift_expand(arr, pa)[0], pb)[0]
    both = pu.fourier_shift_expand(arr, pa + pb)[0]
    assert np.allclose(_np(one), _np(both), atol=1e-9), (lib, shape)
    back = pu.fourier_shift_expand(pu.fourier_shift_expand(arr, pa)[0], -pa)[0]
    assert np.allclose(_np(back), _np(arr), atol=1e-9)
    ncheck += 1

# --------------------------------------------------------------------------------------
# 3. sum_patches: old == new, adjointness
# --------------------------------------------------------------------------------------
for dt, obj_shape, pshape in itertools.product(
    (torch.float32, torch.float64, torch.complex64, torch.complex128),
    [(6, 7), (2, 5, 5), (1, 9, 4), (12,)],
    [(4, 3, 3), (2, 5, 2, 3), (1, 1, 1), (0, 3, 3), (7,)],
):
    nobj = int(np.prod(obj_shape))
    torch_to_np = str(dt).split(".")[-1]
    npt = rand(pshape, torch_to_np, "torch")
    # indices with repeats and wrap-around
    idx = torch.from_numpy(
        (RNG.integers(0, 3 * nobj, size=pshape) % nobj).astype(np.int64)
    )
    if idx.numel() > 2:
        idx.view(-1)[1] = idx.view(-1)[0]  # guaranteed repeat
        idx.view(-1)[2] = nobj - 1
    old = orig_sum_patches(npt, idx, obj_shape)
    new = pu.sum_patches(npt, idx, obj_shape)
    assert_bit_identical(old, new, f"sum_patches {dt} {obj_shape} {pshape}")
    assert new.dtype == dt and tuple(new.shape) == tuple(obj_shape)
    ncheck += 1
    # adjoint of patch extraction: <S p, o> == <p, E o>
    o = rand(obj_shape, torch_to_np, "torch")
    lhs = torch.sum(new.conj() * o)
    rhs = torch.sum(npt.conj() * o.reshape(-1)[idx])
    tol = 1e-4 if dt in (torch.float32, torch.complex64) else 1e-10
    assert abs(complex(lhs) - complex(rhs)) <= tol * max(1.0, abs(complex(rhs))), (lhs, rhs)

# special values (signed zeros, inf, nan) go through the same path
for dt in (torch.complex64, torch.complex128):
    vals = torch.tensor(
        [complex(0.0, -0.0), complex(-0.0, 0.0), complex(float("inf"), 1.0),
         complex(1.0, float("-inf")), complex(float("nan"), 2.0), complex(3.0, float("nan")),
         complex(1e-40, -1e-40), complex(1e30, 1e30)],
        dtype=dt,
    )
    idx = torch.tensor([0, 1, 2, 3, 4, 5, 6, 6])
    with np.errstate(all="ignore"):
        assert_bit_identical(
            orig_sum_patches(vals, idx, (2, 4)), pu.sum_patches(vals, idx, (2, 4)), "special"
        )
    ncheck += 1

# --------------------------------------------------------------------------------------
# 4. DetectorPixelated.forward: old == new, Parseval
# --------------------------------------------------------------------------------------
for dt, shape in itertools.product(
    ("complex64", "complex128", "float32", "float64"),
    [(1, 1, 8, 8), (3, 4, 7, 9), (2, 5, 6, 5), (4, 1, 1, 4)],
):
    ew = rand(shape, dt, "torch")
    old = orig_detector_forward(None, ew)
    new = DetectorPixelated.forward(None, ew)
    assert_bit_identical(old, new, f"detector {dt} {shape}")
    assert not new.is_complex() and tuple(new.shape) == shape[1:]
    tot_in = float(torch.sum(torch.abs(ew.to(torch.complex128)) ** 2))
    tot_out = float(torch.sum(new.to(torch.float64)))
    assert abs(tot_in - tot_out) <= (1e-4 if "32" in dt or dt == "complex64" else 1e-10) * max(
        1.0, tot_in
    )
    ncheck += 1
try:
    det = DetectorPixelated()
    ew = rand((2, 3, 6, 8), "complex64", "torch")
    assert_bit_identical(orig_detector_forward(det, ew), det.forward(ew), "detector instance")
except TypeError:
    pass

# --------------------------------------------------------------------------------------
# 5. PtychographyBase._propagate_array: old == new, unitarity
# --------------------------------------------------------------------------------------
for dt, shape, tshape in itertools.product(
    ("complex64", "complex128"),
    [(8, 8), (2, 3, 7, 9), (1, 4, 6, 5), (3, 1, 4)],
    ["2d", "batched"],
):
    arr = rand(shape, dt, "torch")
    rdt = torch.float32 if dt == "complex64" else torch.float64
    kr = torch.fft.fftfreq(shape[-2], 0.3, dtype=rdt)
    kc = torch.fft.fftfreq(shape[-1], 0.25, dtype=rdt)
    k2 = kr[:, None] ** 2 + kc[None] ** 2
    prop = torch.exp(-1.0j * torch.pi * 0.0197 * 12.5 * k2)
    if tshape == "batched" and len(shape) > 2:
        prop = prop.expand(shape[-3], *prop.shape).clone()
    old = orig_propagate_array(None, arr, prop)
    new = PtychographyBase._propagate_array(None, arr, prop)
    assert_bit_identical(old, new, f"propagate {dt} {shape} {tshape}")
    # conjugated kernel (lazy-conj tensor, as used by the analytic backward pass)
    oldc = orig_propagate_array(None, arr, torch.conj(prop))
    newc = PtychographyBase._propagate_array(None, arr, torch.conj(prop))
    assert_bit_identical(oldc, newc, f"propagate conj {dt} {shape} {tshape}")
    tol = 1e-4 if dt == "complex64" else 1e-10
    e0 = float(torch.sum(torch.abs(arr.to(torch.complex128)) ** 2))
    e1 = float(torch.sum(torch.abs(new.to(torch.complex128)) ** 2))
    assert abs(e0 - e1) <= tol * max(1.0, e0)
    back = PtychographyBase._propagate_array(None, new, torch.conj(prop))
    assert torch.allclose(back, arr, atol=tol * 10)
    ncheck += 1

# --------------------------------------------------------------------------------------
# 6. autograd: gradients through old and new are bit-identical too
# --------------------------------------------------------------------------------------
def grad_of(fn, x):
    x = x.clone().requires_grad_(True)
    out = fn(x)
    w = torch.linspace(0.5, 1.5, out.numel(), dtype=torch.float64).reshape(out.shape)
    loss = torch.sum(w.to(out.real.dtype) * (out.abs() ** 2 if out.is_complex() else out))
    loss.backward()
    return x.grad


for dt in ("complex64", "complex128"):
    ew = rand((2, 3, 6, 7), dt, "torch")
    assert_bit_identical(
        grad_of(lambda x: orig_detector_forward(None, x), ew),
        grad_of(lambda x: DetectorPixelated.forward(None, x), ew),
        f"grad detector {dt}",
    )
    prop = torch.exp(1.0j * rand((6, 7), "float32" if dt == "complex64" else "float64", "torch"))
    assert_bit_identical(
        grad_of(lambda x: orig_propagate_array(None, x, prop), ew),
        grad_of(lambda x: PtychographyBase._propagate_array(None, x, prop), ew),
        f"grad propagate {dt}",
    )
    idx = torch.from_numpy(RNG.integers(0, 30, size=(2, 3, 6, 7)).astype(np.int64))
    assert_bit_identical(
        grad_of(lambda x: orig_sum_patches(x, idx, (5, 6)), ew),
        grad_of(lambda x: pu.sum_patches(x, idx, (5, 6)), ew),
        f"grad sum_patches {dt}",
    )
    pos = positions_for(3, "float32" if dt == "complex64" else "float64", "torch", "frac")
    arr = rand((6, 7), dt, "torch")
    assert_bit_identical(
        grad_of(lambda x: orig_fourier_shift_expand(x, pos), arr),
        grad_of(lambda x: pu.fourier_shift_expand(x, pos), arr),
        f"grad shift_expand wrt array {dt}",
    )
    assert_bit_identical(
        grad_of(lambda q: orig_fourier_shift_expand(arr, q), pos),
        grad_of(lambda q: pu.fourier_shift_expand(arr, q), pos),
        f"grad shift_expand wrt positions {dt}",
    )
    assert_bit_identical(
        grad_of(lambda q: orig_fourier_shift_expand(arr.real.contiguous(), q), pos),
        grad_of(lambda q: pu.fourier_shift_expand(arr.real.contiguous(), q), pos),
        f"grad shift_expand real array wrt positions {dt}",
    )
    ncheck += 6

print(f"OK: {ncheck} old==new comparisons bit-identical; C16 identities hold")
