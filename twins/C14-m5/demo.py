"""Demo for property C14 (serializer skip lists).

Two parts:
  A. Differential: a verbatim copy of the ORIGINAL save / _recursive_save /
     _recursive_load / load (embedded below as text) is swapped onto AutoSerialize
     and run on a spread of object graphs / skip specs / stores; the files written
     (every file, byte for byte) and the objects loaded are required to be identical
     to what the code in the tree produces.
  B. The property itself is asserted on the code in the tree.

Run as:  PYTHONPATH=<root>/src /venv/bin/python demo.py
Writes only inside a tempfile.TemporaryDirectory.
"""

import contextlib
import copy
import io
import math
import os
import sys
import tempfile
import zipfile
from pathlib import Path

import numpy as np
import torch
import zarr

import quantem.core.io.serialize as ser
from quantem.core.io.serialize import AutoSerialize

# --------------------------------------------------------------------------------------
# Verbatim copy of the ORIGINAL functions (methods keep their 4-space indentation)
# --------------------------------------------------------------------------------------
ORIG_METHODS = r'''    def save(
        self,
        path: str | Path,
        mode: Literal["w", "o"] = "w",
        store: Literal["auto", "zip", "dir"] = "auto",
        skip: Union[str, type, Sequence[Union[str, type]]] = (),
        compression_level: int | None = 4,
    ) -> None:
        """
        Save the current object to disk using Zarr serialization.

        Parameters
        ----------
        path : str or Path
            Target file path. Use '.zip' extension for zip format, otherwise a directory.
        mode : {'w', 'o'}
            'w' = write only if file doesn't exist, 'o' = overwrite if it does.
        store : {'auto', 'zip', 'dir'}
            Storage format. 'auto' infers from file extension.
        skip : str, type, or list of (str or type)
            Attribute names/types to skip (by name or type) during serialization.
        compression_level : int or None
            If set (0–9), applies Zstandard compression with Blosc backend at that level.
            Level 0 disables compression. Raises ValueError if > 9.

        Notes
        -----
        Skipped attribute names and types are also stored in the file metadata for correct
        round-trip skipping during load().
        """
        # Validate compression level
        if compression_level is not None:
            if not (0 <= compression_level <= 9):
                raise ValueError(
                    f"compression_level must be between 0 and 9, got {compression_level}"
                )
            compressors = [
                {
                    "name": "blosc",
                    "configuration": {
                        "cname": "zstd",
                        "clevel": int(compression_level),
                        "shuffle": "bitshuffle",
                    },
                }
            ]
        else:
            compressors = None

        path = str(path)
        # Auto-infer storage format if needed
        if store == "auto":
            store = "zip" if path.endswith(".zip") else "dir"

        # Ensure .zip extension if requested
        if store == "zip" and not path.endswith(".zip"):
            print(f"Warning: appending .zip to path '{path}'")
            path += ".zip"

        # Handle overwrite vs. write protection
        if os.path.exists(path):
            if mode == "o":
                if os.path.isdir(path):
                    shutil.rmtree(path)
                else:
                    os.remove(path)
            else:
                raise FileExistsError(f"File '{path}' already exists. Use mode='o' to overwrite.")

        # Normalize skip argument (split to names and types)
        if isinstance(skip, (str, type)):
            skip = [skip]
        skip_names = {s for s in skip if isinstance(s, str)}
        skip_types = tuple(s for s in skip if isinstance(s, type))

        def write_skip_metadata(root):
            # Store skip info as attributes for correct deserialization
            root.attrs["_autoserialize_skip_names"] = list(skip_names)
            root.attrs["_autoserialize_skip_types"] = [
                f"{t.__module__}.{t.__qualname__}" for t in skip_types
            ]

        # Main branch: choose between zip and directory storage
        if store == "zip":
            # Always use tempdir for safe atomic write
            with tempfile.TemporaryDirectory() as tmpdir:
                store_obj = LocalStore(tmpdir)
                root = zarr.group(store=store_obj, overwrite=True)
                self._recursive_save(self, root, skip_names, skip_types, compressors)
                write_skip_metadata(root)
                # Zip up all files in tempdir
                try:
                    with ZipFile(path, mode="w") as zf:
                        for dirpath, _, filenames in os.walk(tmpdir):
                            for filename in filenames:
                                full_path = os.path.join(dirpath, filename)
                                rel_path = os.path.relpath(full_path, tmpdir)
                                zf.write(full_path, arcname=rel_path)
                except BaseException:
                    # Never leave a partial (but readable) archive behind
                    if os.path.exists(path):
                        os.remove(path)
                    raise
        elif store == "dir":
            # Directory mode requires no extension
            if os.path.splitext(path)[1]:
                raise ValueError(
                    f"Expected a directory path for store='dir', but got file-like path '{path}'"
                )
            try:
                os.makedirs(path, exist_ok=True)
                store_obj = LocalStore(path)
                root = zarr.group(store=store_obj, overwrite=True)
                self._recursive_save(self, root, skip_names, skip_types, compressors)
                write_skip_metadata(root)
            except BaseException:
                # The target did not exist (or was removed above): never leave a partial,
                # but loadable, object behind when serialisation fails part-way
                shutil.rmtree(path, ignore_errors=True)
                raise
        else:
            raise ValueError(f"Unknown store type: {store}")

    def _recursive_save(
        self,
        obj,
        group: zarr.Group,
        skip_names: set[str] = set(),
        skip_types: tuple[type, ...] = (),
        compressors=None,
    ) -> None:
        # Store class identity and version metadata at group root if not already set
        if "_autoserialize" not in group.attrs:
            group.attrs["_autoserialize"] = {
                "version": 1,
                "class_module": obj.__class__.__module__,
                "class_name": obj.__class__.__qualname__,
            }

        # Support both attrs and plain Python classes
        attrs_fields = getattr(obj.__class__, "__attrs_attrs__", None)
        if attrs_fields is not None:
            items = [(field.name, getattr(obj, field.name)) for field in attrs_fields]
        else:
            items = obj.__dict__.items()

        for attr_name, attr_value in items:
            # Skip any attributes matching names/types in skip lists
            if attr_name in skip_names or isinstance(attr_value, skip_types):
                continue

            # Use unified serialization method
            self._serialize_value(
                attr_value, group, attr_name, skip_names, skip_types, compressors
            )

    @classmethod
    def _recursive_load(
        cls,
        group: zarr.Group,
        skip_names: AbstractSet[str] = frozenset(),
        skip_types: tuple[type, ...] = (),
    ) -> object:
        """
        Recursively reconstruct an AutoSerialize object from a Zarr group,
        honoring attribute/type skipping for selective deserialization.
        """
        # --- Load class identity and ensure version is compatible ---
        meta = cast(dict[str, Any], group.attrs["_autoserialize"])
        version = int(meta.get("version", 1))
        if version != 1:
            raise ValueError(f"Unsupported AutoSerialize version: {version}")
        module_name = cast(str, meta["class_module"])
        class_name = cast(str, meta["class_name"])
        module = __import__(module_name, fromlist=[class_name])
        cls_obj = getattr(module, class_name)
        obj = cls_obj.__new__(cls_obj)  # Avoid __init__ side effects

        # If attrs package is used, only allow whitelisted attribute names
        attrs_fields = getattr(cls_obj, "__attrs_attrs__", None)
        if attrs_fields is not None:
            attrs_item_names = [f.name for f in attrs_fields]
        else:
            attrs_item_names = []

        set_attrs = set()

        # --- Restore simple attributes ---
        for name, val in group.attrs.items():
            if (
                name in ("_autoserialize", "_autoserialize_skip_names", "_autoserialize_skip_types")
                or name.endswith(".torch_save")
                or name.endswith(".is_path")
            ):
                continue  # Skip metadata/flags
            if name in skip_names:
                continue
            if attrs_item_names and name not in attrs_item_names:
                continue

            # Convert string paths back to pathlib.Path objects if needed
            val = cls._convert_string_to_path_if_needed(val, group, name)

            setattr(obj, name, val)
            set_attrs.add(name)

        # --- Restore datasets (arrays/tensors/serialized objects) ---
        for ds in group.array_keys():
            if ds in skip_names:
                continue
            arr_np = AutoSerialize._read_array_np(group, ds)
            try:
                payload = gzip.decompress(arr_np.tobytes())
                v = dill.loads(payload)
            except Exception:
                v = arr_np
                if group.attrs.get(f"{ds}.torch_save", False):
                    v = torch.from_numpy(v)
            if type(v) in skip_types:
                continue
            setattr(obj, ds, v)
            set_attrs.add(ds)

        # --- Restore subgroups (optimizers, modules, nested objects, containers) ---
        for name in group.group_keys():
            if name in skip_names:
                continue
            subgrp = AutoSerialize._get_group(group, name)

            # torch tensor group
            if subgrp.attrs.get("_torch_tensor"):
                data = AutoSerialize._read_array_np(subgrp, "tensor").tobytes()
                buf = io.BytesIO(data)
                tensor = torch.load(buf, map_location="cpu", weights_only=False)
                if type(tensor) in skip_types:
                    continue
                setattr(obj, name, tensor)
                set_attrs.add(name)

            # torch optimizer group
            elif subgrp.attrs.get("_torch_optimizer"):
                data = AutoSerialize._read_array_np(subgrp, "optimizer").tobytes()
                buf = io.BytesIO(data)
                opt = torch.load(buf, map_location="cpu", weights_only=False)
                if type(opt) in skip_types:
                    continue

                setattr(obj, name, opt)
                set_attrs.add(name)

            # torch scheduler group
            elif subgrp.attrs.get("_torch_scheduler"):
                data = AutoSerialize._read_array_np(subgrp, "scheduler").tobytes()
                buf = io.BytesIO(data)
                scheduler = torch.load(buf, map_location="cpu", weights_only=False)
                if type(scheduler) in skip_types:
                    continue
                setattr(obj, name, scheduler)
                set_attrs.add(name)

            # torch logger group
            elif subgrp.attrs.get("_torch_logger"):
                # Recreate logger from saved metadata
                logger_class_name = subgrp.attrs.get("class_name", "SummaryWriter")

                if logger_class_name == "SummaryWriter":
                    from torch.utils.tensorboard import SummaryWriter

                    # Extract logger parameters with explicit type casting
                    log_dir = subgrp.attrs.get("log_dir", None)

                    comment = str(cast(Any, subgrp.attrs.get("comment", "")))
                    max_queue = int(cast(Any, subgrp.attrs.get("max_queue", 10)))
                    flush_secs = int(cast(Any, subgrp.attrs.get("flush_secs", 120)))
                    filename_suffix = str(cast(Any, subgrp.attrs.get("filename_suffix", "")))

                    # Create new logger instance
                    logger = SummaryWriter(
                        log_dir=log_dir,
                        comment=comment,
                        max_queue=max_queue,
                        flush_secs=flush_secs,
                        filename_suffix=filename_suffix,
                    )
                else:
                    # For other logger types, create a basic instance or skip
                    print(
                        f"Warning: Unknown logger type '{logger_class_name}', skipping logger restoration"
                    )
                    continue

                if type(logger) in skip_types:
                    continue
                setattr(obj, name, logger)
                set_attrs.add(name)

            # python logger group
            elif subgrp.attrs.get("_python_logger"):
                # Recreate Python logger from saved metadata
                logger_class_name = subgrp.attrs.get("class_name", "Logger")

                if logger_class_name == "Logger":
                    import logging

                    # Extract logger parameters
                    logger_name = cast(str, subgrp.attrs.get("logger_name", "quantem"))
                    logger_level = int(cast(Any, subgrp.attrs.get("logger_level", logging.INFO)))

                    # Create new logger instance
                    logger = logging.getLogger(logger_name)
                    logger.setLevel(logger_level)
                else:
                    # For other logger types, create a basic instance or skip
                    print(
                        f"Warning: Unknown Python logger type '{logger_class_name}', skipping logger restoration"
                    )
                    continue

                if type(logger) in skip_types:
                    continue
                setattr(obj, name, logger)
                set_attrs.add(name)

            # torch module group
            elif subgrp.attrs.get("_torch_whole_module"):
                data = AutoSerialize._read_array_np(subgrp, "module").tobytes()
                buf = io.BytesIO(data)
                mod = torch.load(buf, map_location="cpu", weights_only=False)
                if type(mod) in skip_types:
                    continue

                # Fix PyTorch module set attributes that might be corrupted
                if isinstance(mod, torch.nn.Module):
                    cls._fix_torch_module_sets(mod)

                setattr(obj, name, mod)
                set_attrs.add(name)

            # nested AutoSerialize group
            elif "_autoserialize" in subgrp.attrs:
                m = cast(dict[str, Any], subgrp.attrs["_autoserialize"])
                submod_name = cast(str, m["class_module"])
                subcls_name = cast(str, m["class_name"])
                submod = __import__(submod_name, fromlist=[subcls_name])
                subcls = getattr(submod, subcls_name)
                if subcls in skip_types:
                    continue
                val = subcls._recursive_load(subgrp, skip_names, skip_types)
                if type(val) in skip_types:
                    continue

                setattr(obj, name, val)
                set_attrs.add(name)

            # containers (list, tuple, dict)
            elif subgrp.attrs.get("_container_type", None) is not None:
                val = cls._deserialize_container(cast(zarr.Group, subgrp))
                if type(val) in skip_types:
                    continue
                setattr(obj, name, val)
                set_attrs.add(name)

            # NumPy random generator
            elif subgrp.attrs.get("_numpy_rng"):
                import numpy.random as npr

                # rng_type = subgrp.attrs.get("_rng_type", "Generator")
                bit_generator_type = subgrp.attrs.get("_bit_generator_type", "PCG64")
                # rng_state = subgrp.attrs["_rng_state"]

                # Create the appropriate bit generator
                if bit_generator_type == "PCG64":
                    bit_gen = npr.PCG64()
                elif bit_generator_type == "MT19937":
                    bit_gen = npr.MT19937()
                elif bit_generator_type == "Philox":
                    bit_gen = npr.Philox()
                elif bit_generator_type == "SFC64":
                    bit_gen = npr.SFC64()
                else:
                    # Fallback to default
                    bit_gen = npr.PCG64()

                # Create generator with fresh state
                rng = npr.Generator(bit_gen)
                # Note: We don't restore the exact state due to type compatibility issues
                # The generator will work fine with fresh state and can be re-seeded if needed

                setattr(obj, name, rng)
                set_attrs.add(name)

            # PyTorch generator (skipped during save)
            elif subgrp.attrs.get("_torch_rng_skipped"):
                # Create a new generator since we didn't save the state
                rng = torch.Generator()
                setattr(obj, name, rng)
                set_attrs.add(name)

            else:
                print(f"Unhandled group: {name} with attrs: {dict(subgrp.attrs)}")
                raise ValueError(f"Unknown subgroup structure: {subgrp.path}")

        # Remove attributes in skip_names that may have been set by __init__ (when using __new__)
        for name in skip_names:
            if hasattr(obj, name):
                delattr(obj, name)

        # attrs pattern: call post-init if defined
        if hasattr(obj, "__attrs_post_init__"):
            obj.__attrs_post_init__()

        # Fix PyTorch module set attributes after all loading is complete
        if isinstance(obj, torch.nn.Module):
            cls._fix_torch_module_sets(obj)

        # Also fix any nested PyTorch modules in the object's attributes
        # Use a more defensive approach to avoid triggering property accessors
        for attr_name in dir(obj):
            if not attr_name.startswith("_"):  # Skip private attributes
                try:
                    # Check if it's a property first to avoid triggering accessors
                    if hasattr(type(obj), attr_name):
                        attr_descriptor = getattr(type(obj), attr_name)
                        if hasattr(attr_descriptor, "__get__") and not hasattr(
                            attr_descriptor, "__set__"
                        ):
                            # This is a read-only property, skip it to avoid triggering computation
                            continue

                    attr_value = getattr(obj, attr_name)
                    if isinstance(attr_value, torch.nn.Module):
                        cls._fix_torch_module_sets(attr_value)
                except (AttributeError, RuntimeError, ValueError, KeyError):
                    # Skip attributes that can't be accessed or cause other errors
                    pass

        return obj'''

ORIG_LOAD = r'''def load(
    path: str | Path,
    skip: Union[str, type, Sequence[Union[str, type]]] = (),
) -> Any:
    """
    Load an AutoSerialize object from disk.

    Parameters
    ----------
    path : str or Path
        Directory or .zip file containing a serialized object.
    skip : str, type, or list of (str or type)
        Names/types of attributes to skip when loading.
        Combined with skip info stored in the file, if present.

    Returns
    -------
    obj : Any
        Reconstructed AutoSerialize instance.
    """
    # Normalize skip argument to sets/tuples for merging
    if isinstance(skip, (str, type)):
        skip = [skip]
    user_skip_names = {s for s in skip if isinstance(s, str)}
    user_skip_types = tuple(s for s in skip if isinstance(s, type))

    # Load Zarr store from directory or extracted zip
    if os.path.isdir(path):
        store = LocalStore(path)
    else:
        tempdir = tempfile.TemporaryDirectory()
        with ZipFile(path, "r") as zf:
            zf.extractall(tempdir.name)
        store = LocalStore(tempdir.name)

    root = zarr.group(store=store)
    if "_autoserialize" not in root.attrs:
        raise KeyError("Missing '_autoserialize' metadata in Zarr root attrs.")
    meta = cast(dict[str, Any], root.attrs["_autoserialize"])
    version = int(meta.get("version", 1))
    if version != 1:
        raise ValueError(f"Unsupported AutoSerialize version: {version}")

    # Read skip metadata (names/types) stored with the file, if present
    file_skip_names = set(cast(Sequence[str], root.attrs.get("_autoserialize_skip_names", [])))
    file_skip_types_raw = cast(
        Sequence[str] | None, root.attrs.get("_autoserialize_skip_types", [])
    )
    file_skip_types = (
        tuple(
            # Import each type by fully-qualified name from string
            __import__(t.rpartition(".")[0], fromlist=[t.rpartition(".")[2]]).__dict__[  # type: ignore[index]
                t.rpartition(".")[2]
            ]
            for t in file_skip_types_raw
        )
        if file_skip_types_raw
        else tuple()
    )

    # Merge user-specified and file-stored skip lists/types (avoid duplicates)
    skip_names = user_skip_names | file_skip_names
    skip_types = user_skip_types + tuple(t for t in file_skip_types if t not in user_skip_types)

    # Dynamically import target class, then reconstruct from Zarr
    mod = __import__(cast(str, meta["class_module"]), fromlist=[cast(str, meta["class_name"])])
    cls = getattr(mod, cast(str, meta["class_name"]))
    return cls._recursive_load(root, skip_names=skip_names, skip_types=skip_types)'''

# Determinism shim for the byte-for-byte file comparison: gzip.compress stamps the current
# time into its header; pin it (applies equally to the original and the in-tree code).
_gzip_compress = ser.gzip.compress
ser.gzip.compress = lambda data, *a, **kw: _gzip_compress(data, *a, **{**kw, "mtime": 0})

_ns = dict(vars(ser))
exec(compile("class _Orig:\n" + ORIG_METHODS + "\n\n" + ORIG_LOAD, "<orig-serialize>", "exec"), _ns)
_METHODS = ("save", "_recursive_save", "_recursive_load")
OLD = {n: _ns["_Orig"].__dict__[n] for n in _METHODS}
NEW = {n: AutoSerialize.__dict__[n] for n in _METHODS}
OLD_LOAD = _ns["load"]
NEW_LOAD = ser.load


@contextlib.contextmanager
def implementation(which):
    """Swap the original or the in-tree methods onto AutoSerialize; yields the load function."""
    table, loader = (OLD, OLD_LOAD) if which == "old" else (NEW, NEW_LOAD)
    for n, f in table.items():
        setattr(AutoSerialize, n, f)
    try:
        yield loader
    finally:
        for n, f in NEW.items():
            setattr(AutoSerialize, n, f)


# --------------------------------------------------------------------------------------
# Object graphs (nested AutoSerialize objects reached through attributes only)
# --------------------------------------------------------------------------------------
class Leaf(AutoSerialize):
    def __init__(self, k):
        self.a = k
        self.x = 0.5 * k
        self.arr = np.arange(6, dtype=np.float32).reshape(2, 3) + k
        self.t = torch.arange(4, dtype=torch.float64) * k
        self.name = f"leaf{k}"
        self.p = Path("some") / f"dir{k}"
        self.flag = bool(k % 2)


class Mid(AutoSerialize):
    def __init__(self, k):
        self.leaf = Leaf(k + 10)
        self.arr = np.arange(5, dtype=np.int16) * k
        self.x = k
        self.lst = [1, 2, 3]
        self.mixed = ["s", 2, np.arange(3)]
        self.d = {"x": 1, "arr": np.ones(2), "k": "v"}
        self.z = complex(k, -k)  # goes through the dill fallback dataset


class Root(AutoSerialize):
    def __init__(self):
        self.mid = Mid(1)
        self.other = Leaf(2)
        self.arr = np.linspace(0, 1, 7)
        self.x = 7
        self.t = torch.tensor([1.0, 2.0], requires_grad=True)
        self.s = {1, 2, 3}
        self.none = None
        self.title = "root"


class Flat(AutoSerialize):
    def __init__(self):
        self.x = 1
        self.y = "two"
        self.arr = np.eye(2)
        self.empty = np.zeros((0, 3))
        self.scalar0d = np.array(3.25)
        self.npf = np.float32(1.25)
        self.tup = (1.5, 2.5)
        self.d = {"x": 2.0, "n": [1, "a"]}
        self.z = 2j
        self.name = "flat"
        self.t = torch.ones(2)


GRAPHS = {"root": Root, "flat": Flat, "mid": lambda: Mid(3)}

SKIPS = [
    (),
    "arr",
    ["arr"],
    ("x", "t"),
    ["missing"],
    ["leaf"],
    ["mid", "title"],
    ["arr", "other", "nothere", "a"],
    ["z", "d", "lst", "p", "none", "empty"],
    np.ndarray,
    [torch.Tensor],
    [Leaf],
    [np.ndarray, "x"],
    (complex, "name", Mid),
    [dict, list, "s"],
]


def names_of(skip):
    if isinstance(skip, (str, type)):
        skip = [skip]
    return {s for s in skip if isinstance(s, str)}


def types_of(skip):
    if isinstance(skip, (str, type)):
        skip = [skip]
    return tuple(s for s in skip if isinstance(s, type))


# --------------------------------------------------------------------------------------
# Comparison helpers
# --------------------------------------------------------------------------------------
def same(a, b, where="obj"):
    """Strict deep equality (types, dtypes, bits). Raises AssertionError with a location."""
    assert type(a) is type(b), f"{where}: type {type(a)} != {type(b)}"
    if AutoSerialize._is_autoserialize_instance(a):
        # (attribute order follows the directory listing order of the store: not compared)
        assert set(vars(a)) == set(vars(b)), f"{where}: attrs {sorted(vars(a))} != {sorted(vars(b))}"
        for k in vars(a):
            same(vars(a)[k], vars(b)[k], f"{where}.{k}")
    elif isinstance(a, np.ndarray):
        assert a.dtype == b.dtype and a.shape == b.shape, f"{where}: dtype/shape"
        assert a.tobytes() == b.tobytes(), f"{where}: array bits differ"
    elif isinstance(a, torch.Tensor):
        assert a.dtype == b.dtype and a.shape == b.shape, f"{where}: dtype/shape"
        assert a.requires_grad == b.requires_grad, f"{where}: requires_grad"
        assert a.detach().numpy().tobytes() == b.detach().numpy().tobytes(), f"{where}: bits"
    elif isinstance(a, (list, tuple)):
        assert len(a) == len(b), f"{where}: len"
        for i, (u, v) in enumerate(zip(a, b)):
            same(u, v, f"{where}[{i}]")
    elif isinstance(a, dict):
        assert set(a) == set(b), f"{where}: keys {list(a)} != {list(b)}"
        for k in a:
            same(a[k], b[k], f"{where}[{k!r}]")
    elif isinstance(a, float):
        assert a == b or (math.isnan(a) and math.isnan(b)), f"{where}: {a} != {b}"
    else:
        assert a == b, f"{where}: {a!r} != {b!r}"


def file_tree(path):
    """{relative name: bytes} for a directory store or a zip store."""
    out = {}
    if os.path.isdir(path):
        for dirpath, _, filenames in os.walk(path):
            for fn in filenames:
                full = os.path.join(dirpath, fn)
                out[os.path.relpath(full, path)] = Path(full).read_bytes()
    else:
        with zipfile.ZipFile(path) as zf:
            for n in zf.namelist():
                out[n] = zf.read(n)
    return out


def prune(obj, names, types):
    """Reference: remove named / typed attributes at every attribute-nested level (in place)."""
    for k in list(vars(obj)):
        v = vars(obj)[k]
        if k in names or isinstance(v, types):
            delattr(obj, k)
        elif AutoSerialize._is_autoserialize_instance(v):
            prune(v, names, types)
    return obj


def walk(obj, where="obj"):
    yield where, obj
    for k, v in vars(obj).items():
        if AutoSerialize._is_autoserialize_instance(v):
            yield from walk(v, f"{where}.{k}")


def quiet(fn, *a, **kw):
    """Call fn capturing stdout (the dill fallback prints); returns (result, printed text)."""
    buf = io.StringIO()
    with contextlib.redirect_stdout(buf):
        res = fn(*a, **kw)
    return res, buf.getvalue()


def outcome(fn, *a, **kw):
    try:
        return ("ok",) + quiet(fn, *a, **kw)
    except Exception as e:  # noqa: BLE001
        return ("err", type(e), str(e))


# --------------------------------------------------------------------------------------
EXTRA = ["x", "flag"]  # a different load-time list on top of the recorded one
_FULL = {}


def full_case(tmp, impl, gname, store):
    """Unskipped save (+ its plain load), once per implementation / graph / store."""
    key = (impl, gname, store)
    if key not in _FULL:
        path = os.path.join(tmp, f"{impl}_{gname}_{store}_full" + (".zip" if store == "zip" else ""))
        with implementation(impl) as load:
            _, printed = quiet(GRAPHS[gname]().save, path, store=store)
            _FULL[key] = (path, printed, file_tree(path), quiet(load, path)[0])
    return _FULL[key]


def run_case(tmp, impl, gname, store, skip, idx):
    """Save/load one configuration under one implementation; return everything observable."""
    p_full, printed_full, tree_full, full = full_case(tmp, impl, gname, store)
    p_skip = os.path.join(tmp, f"{impl}_{gname}_{store}_{idx}" + (".zip" if store == "zip" else ""))
    as_list = [skip] if isinstance(skip, (str, type)) else list(skip)
    with implementation(impl) as load:
        _, printed = quiet(GRAPHS[gname]().save, p_skip, store=store, skip=skip)
        res = {
            "printed": (printed, printed_full),
            "tree_skip": file_tree(p_skip),
            "tree_full": tree_full,
            "save_skip": quiet(load, p_skip)[0],  # skip recorded in the file only
            "load_skip": quiet(load, p_full, skip=skip)[0],  # load time only
            "both": quiet(load, path=Path(p_skip), skip=as_list + EXTRA)[0],  # both, and more
            "full": copy.deepcopy(full),
        }
    return res


def check_property(r, skip, label):
    names, types = names_of(skip), types_of(skip)
    # 1. skipped names absent at every level, for save-time, load-time and both
    for key in ("save_skip", "load_skip", "both"):
        for where, o in walk(r[key]):
            for n in names:
                assert not hasattr(o, n), f"{label}/{key}: {where} still has {n!r}"
    # 2. skipping by type at save time removes every instance of a listed type
    for key in ("save_skip", "both"):
        for where, o in walk(r[key]):
            for k, v in vars(o).items():
                assert not isinstance(v, types), f"{label}/{key}: {where}.{k} is a {type(v)}"
    # 3. everything else loads exactly as without skipping; recorded lists need no repeating
    ref = prune(r["full"], names, types)
    same(r["save_skip"], ref, f"{label}/save_skip")
    # 4. name skipping at load time == name skipping at save time
    if not types:
        same(r["load_skip"], r["save_skip"], f"{label}/load-vs-save")
    # 5. repeating the recorded list is harmless and an extra load-time list composes with it
    same(r["both"], prune(ref, set(EXTRA), ()), f"{label}/both")


def corrupt_version(path, value):
    root = zarr.open_group(path, mode="r+")
    meta = dict(root.attrs["_autoserialize"])
    meta["version"] = value
    root.attrs["_autoserialize"] = meta


def main():
    ncases = 0
    with tempfile.TemporaryDirectory() as tmp:
        idx = 0
        for gname in GRAPHS:
            for store in ("dir", "zip"):
                if gname == "flat":  # every skip spec, alternating between the stores
                    skips = SKIPS[::2] if store == "dir" else SKIPS[1::2]
                else:  # every spec is used on one of the nested graphs
                    pick = {
                        ("root", "dir"): (0, 3, 7, 8, 10, 13),
                        ("root", "zip"): (1, 6, 12),
                        ("mid", "dir"): (2, 5, 11, 14),
                        ("mid", "zip"): (4, 9),
                    }[gname, store]
                    skips = [SKIPS[i] for i in pick]
                for skip in skips:
                    idx += 1
                    label = f"{gname}/{store}/{skip!r}"
                    r_old = run_case(tmp, "old", gname, store, skip, idx)
                    r_new = run_case(tmp, "new", gname, store, skip, idx)
                    # A. old == new: files byte for byte, printed text, loaded objects
                    assert r_old["printed"] == r_new["printed"], label
                    for key in ("tree_skip", "tree_full"):
                        assert r_old[key].keys() == r_new[key].keys(), f"{label}: {key} file set"
                        for fn in r_old[key]:
                            assert r_old[key][fn] == r_new[key][fn], f"{label}: {key}/{fn} bytes"
                    for key in r_old:
                        if key not in ("printed", "tree_skip", "tree_full"):
                            same(r_old[key], r_new[key], f"{label}/{key}")
                    # B. the property, on the code in the tree
                    check_property(r_new, skip, label)
                    ncases += 1

        # error paths and argument validation: same outcome old and new
        good = os.path.join(tmp, "verdir")
        quiet(Flat().save, good, store="dir", skip=["y"])
        expect = sorted(set(vars(Flat())) - {"x", "y"})
        for value in (2, 0, "1", 1.0, True):
            corrupt_version(good, value)
            outs = []
            for impl in ("old", "new"):
                with implementation(impl) as load:
                    o = outcome(load, good, skip="x")
                    outs.append(o if o[0] == "err" else ("ok", sorted(vars(o[1])), o[2]))
            assert outs[0] == outs[1], (value, outs)
            if value in (2, 0):
                assert outs[1][0] == "err" and outs[1][1] is ValueError, outs[1]
            else:
                assert outs[1] == ("ok", expect, ""), outs[1]
        outs = []
        for impl in ("old", "new"):
            with implementation(impl) as load:
                o1 = outcome(Flat().save, good, store="dir")  # exists -> FileExistsError
                o2 = outcome(Flat().save, os.path.join(tmp, "bad.ext"), store="dir")
                o3 = outcome(Flat().save, os.path.join(tmp, f"cl_{impl}"), compression_level=11)
                o4 = outcome(load, os.path.join(tmp, "does_not_exist.zip"))
                outs.append([o1, o2, o3, o4])
        assert outs[0] == outs[1], outs
        assert [o[0] for o in outs[1]] == ["err"] * 4, outs[1]

    print(f"OK: {ncases} configurations, old == new bit-for-bit, property holds")
    return 0


if __name__ == "__main__":
    sys.exit(main())
