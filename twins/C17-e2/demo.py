import math
import sys
from collections import deque

import numpy as np
import torch

from quantem.core.utils import imaging_utils as iu

TWO_PI = 2.0 * math.pi


# ----------------------------------------------------------------------------
# test-field / mask generators and the property oracle
# ----------------------------------------------------------------------------
def wrap(x):
    return (x + math.pi) % TWO_PI - math.pi


def grid(H, W):
    y, x = torch.meshgrid(
        torch.arange(H, dtype=torch.float64),
        torch.arange(W, dtype=torch.float64),
        indexing="ij",
    )
    return y, x


def max_neighbour_diff(f, periodic):
    if periodic:
        dy = (torch.roll(f, -1, 0) - f).abs().max()
        dx = (torch.roll(f, -1, 1) - f).abs().max()
    else:
        dy = (f[1:, :] - f[:-1, :]).abs().max() if f.shape[0] > 1 else torch.tensor(0.0)
        dx = (f[:, 1:] - f[:, :-1]).abs().max() if f.shape[1] > 1 else torch.tensor(0.0)
    return float(max(dy, dx))


def rescale(f, periodic, target=2.6):
    """Scale so that the largest neighbour difference equals `target` (< pi)."""
    m = max_neighbour_diff(f, periodic)
    if m > 0:
        f = f * (target / m)
    return f.to(torch.float32)


def make_fields(H, W, periodic, rng):
    y, x = grid(H, W)
    out = {}
    if not periodic:
        out["ramp"] = rescale(0.9 * y - 0.37 * x, False)
        out["quadratic"] = rescale((y - H / 2.3) ** 2 + 0.6 * (x - W / 1.7) ** 2 + 0.3 * x * y, False)
        out["gauss"] = rescale(
            torch.exp(-((y - H / 2) ** 2 / (0.18 * H * H + 1) + (x - W / 3) ** 2 / (0.15 * W * W + 1))),
            False,
        )
    # band-limited random field built from integer frequencies: periodic by construction
    f = torch.zeros(H, W, dtype=torch.float64)
    for _ in range(5):
        m, n = int(rng.integers(-2, 3)), int(rng.integers(-2, 3))
        a, p = rng.normal(), rng.uniform(0, TWO_PI)
        f = f + a * torch.cos(TWO_PI * (m * y / H + n * x / W) + p)
    f = f + 1.5 * torch.sin(TWO_PI * y / H + 0.3) + 1.1 * torch.cos(TWO_PI * x / W)
    out["bandlimited"] = rescale(f, periodic)
    out["sincos"] = rescale(
        3.0 * torch.sin(TWO_PI * y / H) * torch.cos(TWO_PI * x / W) + 2.0 * torch.cos(2 * TWO_PI * y / H + 0.7),
        periodic,
    )
    return out


def make_masks(H, W, rng):
    y, x = grid(H, W)
    r = torch.sqrt((y - (H - 1) / 2) ** 2 + (x - (W - 1) / 2) ** 2)
    R = min(H, W) / 2
    masks = {"none": None}
    masks["disk"] = r < 0.9 * R
    masks["annulus"] = (r < 0.95 * R) & (r > 0.35 * R)
    two = torch.zeros(H, W, dtype=torch.bool)
    two[: H // 2 - 1, : W // 2] = True
    two[H // 2 + 1 :, W // 3 :] = True
    two[1:3, 1:3] = False  # a hole
    masks["two_blobs_hole"] = two
    masks["random80"] = torch.from_numpy(rng.random((H, W)) < 0.8)
    edge = torch.zeros(H, W, dtype=torch.bool)  # touches all four borders
    edge[:2, :] = True
    edge[-2:, :] = True
    edge[:, :2] = True
    edge[:, -1:] = True
    edge[H // 2, :] = True
    masks["frame"] = edge
    return masks


def components(mask, H, W, periodic):
    """4-connected components of `mask` (all True when None); returns list of index arrays."""
    m = np.ones((H, W), bool) if mask is None else mask.numpy().astype(bool)
    seen = np.zeros((H, W), bool)
    comps = []
    for sy in range(H):
        for sx in range(W):
            if not m[sy, sx] or seen[sy, sx]:
                continue
            q = deque([(sy, sx)])
            seen[sy, sx] = True
            cur = []
            while q:
                cy, cx = q.popleft()
                cur.append(cy * W + cx)
                for dy, dx in ((1, 0), (-1, 0), (0, 1), (0, -1)):
                    ny, nx = cy + dy, cx + dx
                    if periodic:
                        ny %= H
                        nx %= W
                    elif not (0 <= ny < H and 0 <= nx < W):
                        continue
                    if m[ny, nx] and not seen[ny, nx]:
                        seen[ny, nx] = True
                        q.append((ny, nx))
            comps.append(np.array(cur))
    return comps


def check_property(field, phi_in, out, mask, periodic, tag, tol=2e-3):
    """out == field + const on each component; out - phi_in == 2*pi*k + one constant everywhere."""
    H, W = field.shape
    assert out.shape == field.shape, tag
    assert out.dtype == phi_in.dtype, tag
    d = (out.double() - field.double()).flatten().numpy()
    for comp in components(mask, H, W, periodic):
        spread = d[comp].max() - d[comp].min()
        assert spread < tol, f"{tag}: not constant on a component (spread {spread})"
    r = ((out.double() - phi_in.double()) / TWO_PI).flatten().numpy()
    r = r - r[0]
    frac = np.abs(r - np.round(r)).max()
    assert frac < tol, f"{tag}: not 2*pi multiples plus one constant ({frac})"


def same_tensor(a, b):
    return a.dtype == b.dtype and a.shape == b.shape and torch.equal(a, b)


# ----------------------------------------------------------------------------
# verbatim copies of the ORIGINAL _find_wrap / _build_edges
# ----------------------------------------------------------------------------
def _find_wrap_ORIG(a, b):
    d = a - b
    return torch.where(d > math.pi, -1, torch.where(d < -math.pi, 1, 0))


def _build_edges_ORIG(phi, reliability, mask=None, wrap_around=True):
    """
    Returns edges as CPU tensors:
        i1, i2, inc sorted by reliability
    """
    H, W = phi.shape
    N = H * W

    idx = torch.arange(N).reshape(H, W)
    edges = []

    phi_f = phi.flatten()
    rel_f = reliability.flatten()
    mask_f = mask.flatten() if mask is not None else None

    def add_edges(i1, i2):
        if mask_f is not None:
            valid = mask_f[i1] & mask_f[i2]
            i1, i2 = i1[valid], i2[valid]

        inc = _find_wrap_ORIG(phi_f[i1], phi_f[i2])
        rel = rel_f[i1] + rel_f[i2]

        edges.append(  # ty:ignore[possibly-missing-attribute]
            torch.stack([i1, i2, rel, inc], dim=1)
        )

    if wrap_around:
        add_edges(idx.flatten(), torch.roll(idx, -1, 1).flatten())
        add_edges(idx.flatten(), torch.roll(idx, -1, 0).flatten())
    else:
        add_edges(idx[:, :-1].flatten(), idx[:, 1:].flatten())
        add_edges(idx[:-1, :].flatten(), idx[1:, :].flatten())

    edges = torch.cat(edges, dim=0)
    edges = edges[edges[:, 2].argsort()]

    # return integer tensors only (CPU)
    return (
        edges[:, 0].long(),
        edges[:, 1].long(),
        edges[:, 3].long(),
    )


def outcome(fn, *args, **kwargs):
    """('ok', value) or ('err', exception type) so failures can be compared too."""
    try:
        return "ok", fn(*args, **kwargs)
    except Exception as e:  # noqa: BLE001
        return "err", type(e)


def compare_edges(phi, rel, mask, wrap_around, tag):
    k_old, old = outcome(_build_edges_ORIG, phi, rel, mask, wrap_around=wrap_around)
    k_new, new = outcome(iu._build_edges, phi, rel, mask, wrap_around=wrap_around)
    assert k_old == k_new, f"{tag}: {k_old} vs {k_new}"
    if k_old == "err":
        assert old is new, f"{tag}: {old} vs {new}"
        return None
    assert isinstance(new, tuple) and len(new) == 3, tag
    for a, b in zip(old, new):
        assert same_tensor(a, b), f"{tag}: edge list differs from the original"
    return new


def check_edge_list(i1, i2, inc, phi, mask, wrap_around, tag):
    """Structural checks: every admissible neighbour pair once, correct increments."""
    H, W = phi.shape
    m = np.ones(H * W, bool) if mask is None else mask.flatten().numpy().astype(bool)
    expected = []
    for y in range(H):
        for x in range(W):
            a = y * W + x
            if wrap_around or x + 1 < W:
                expected.append((a, y * W + (x + 1) % W))
            if wrap_around or y + 1 < H:
                expected.append((a, ((y + 1) % H) * W + x))
    expected = sorted(e for e in expected if m[e[0]] and m[e[1]])
    got = sorted(zip(i1.tolist(), i2.tolist()))
    assert got == expected, f"{tag}: wrong set of edges"
    pf = phi.flatten()
    d = pf[i1] - pf[i2]
    # (phi[i2] - 2*pi*inc) is the neighbour brought within pi of phi[i1]
    assert bool(((d + TWO_PI * inc).abs() <= math.pi + 1e-5).all()), tag


def main():
    rng = np.random.default_rng(1717)
    n_cases = 0

    shapes = [(1, 1), (1, 9), (7, 1), (2, 2), (2, 5), (9, 14), (16, 11), (20, 23)]
    for periodic in (False, True):
        for H, W in shapes:
            fields = make_fields(H, W, periodic, rng)
            # plus fields with many exactly tied reliabilities and a noisy one
            fields["zeros"] = torch.zeros(H, W)
            fields["const"] = torch.full((H, W), 1.25)
            fields["noise"] = torch.from_numpy(rng.uniform(-math.pi, math.pi, (H, W))).float()
            masks = make_masks(H, W, rng) if min(H, W) >= 9 else {"none": None}
            masks["empty"] = torch.zeros(H, W, dtype=torch.bool)
            masks["full"] = torch.ones(H, W, dtype=torch.bool)
            for fname, field in fields.items():
                wrapped = wrap(field)
                for mname, mask in masks.items():
                    tag = f"{H}x{W} {fname} mask={mname} periodic={periodic}"
                    rel = iu._pixel_reliability(wrapped, mask)
                    res = compare_edges(wrapped, rel, mask, periodic, tag)
                    assert res is not None, tag
                    check_edge_list(*res, wrapped, mask, periodic, tag)
                    n_cases += 1
                    if fname in ("zeros", "const", "noise") or mname in ("empty", "full"):
                        continue
                    out = iu.unwrap_phase_2d_torch(
                        wrapped, method="reliability-sorting", mask=mask, wrap_around=periodic
                    )
                    check_property(field, wrapped, out, mask, periodic, tag)
            # already-unwrapped smooth input is returned unchanged up to a constant
            field = fields["bandlimited"]
            out = iu.unwrap_phase_2d_torch(field, mask=None, wrap_around=periodic)
            dd = out - field
            assert float(dd.max() - dd.min()) < 1e-4

    # float64 phase / reliability, reliability containing inf and nan, explicit reliability
    H, W = 10, 13
    field = make_fields(H, W, False, rng)["quadratic"]
    for wa in (False, True):
        w64 = wrap(field.double())
        compare_edges(w64, iu._pixel_reliability(w64), None, wa, "float64")
        rel = torch.from_numpy(rng.integers(0, 3, (H, W))).float()  # heavy ties
        compare_edges(wrap(field), rel, None, wa, "tied-rel")
        rel2 = rel.clone()
        rel2[2, 3] = float("inf")
        rel2[5, 5] = float("nan")
        compare_edges(wrap(field), rel2, make_masks(H, W, rng)["disk"], wa, "inf-nan-rel")
        # positional wrap_around
        a = _build_edges_ORIG(wrap(field), rel, None, wa)
        b = iu._build_edges(wrap(field), rel, None, wa)
        assert all(same_tensor(p, q) for p, q in zip(a, b))

    # bad inputs fail the same way
    w = wrap(field)
    rel = iu._pixel_reliability(w)
    for wa in (False, True):
        compare_edges(w[0], rel, None, wa, "1-d phi")
        compare_edges(w[None], rel, None, wa, "3-d phi")
        compare_edges(w, rel[:-1], None, wa, "short reliability")
        compare_edges(w, rel, torch.ones(H - 1, W, dtype=torch.bool), wa, "short mask")
        compare_edges(w, rel, torch.ones(H, W), wa, "float mask")
        compare_edges(w, rel, torch.ones(H, W, dtype=torch.int64), wa, "int mask")
        compare_edges(torch.zeros(0, 4), torch.zeros(0, 4), None, wa, "empty grid")

    print(f"PASS ({n_cases} cases)")


if __name__ == "__main__":
    main()
