"""Shared demo for the four C16 behaviour-preserving edits.

Embeds verbatim copies of the ORIGINAL functions (sum_patches_base, fourier_shift_expand,
ProbeBase._compute_propagator_arrays, array_funcs.as_type) and asserts that the functions
currently importable from quantem give bit-for-bit identical results (values, dtype, shape,
strides, exception types) on a spread of inputs relevant to property C16.  It additionally
asserts the C16 identities themselves (energy preservation, additivity, integer shift == roll,
scatter is the adjoint of gather, unit-modulus propagators, +dz then -dz is the identity).

Usage: PYTHONPATH=<root>/src /venv/bin/python demo.py
"""

import itertools
import warnings
from types import SimpleNamespace

import numpy as np
import torch

from quantem.core import config
from quantem.core.utils import array_funcs as af
from quantem.core.utils.array_funcs import numpy_to_torch_dtype, torch_to_numpy_dtype_dict
from quantem.core.utils.utils import electron_wavelength_angstrom
from quantem.diffractive_imaging import ptycho_utils as pu
from quantem.diffractive_imaging.probe_models import ProbeBase

try:  # only needed by the verbatim copy of as_type when cupy is present
    import cupy as cp  # noqa: F401
except Exception:  # pragma: no cover
    cp = None

warnings.simplefilter("error")  # any new warning emitted by an edited function fails the demo


# --------------------------------------------------------------------------------------
# verbatim copies of the ORIGINAL functions
# --------------------------------------------------------------------------------------
def orig_sum_patches_base(patches, indices, obj_shape):
    flat_weights = patches.reshape(-1)
    flat_indices = indices.reshape(-1)
    out = af.match_device(
        torch.zeros(
            int(torch.prod(torch.tensor(obj_shape))), dtype=patches.dtype, device=patches.device
        ),
        patches,
    )
    out.index_add_(0, flat_indices, flat_weights)
    return out.reshape(obj_shape)


def orig_sum_patches(patches, indices, obj_shape):
    if torch.is_complex(patches):
        real = orig_sum_patches_base(patches.real, indices, obj_shape)
        imag = orig_sum_patches_base(patches.imag, indices, obj_shape)
        return real + 1.0j * imag
    else:
        return orig_sum_patches_base(patches, indices, obj_shape)


def orig_as_type(a, dtype):
    """Cast the array to a specified type."""
    if config.get("has_torch"):
        if isinstance(a, torch.Tensor):
            if isinstance(dtype, torch.dtype):
                dt = dtype
            elif isinstance(dtype, str):
                dt = getattr(torch, dtype)
            elif isinstance(dtype, type):
                dt = numpy_to_torch_dtype(dtype)
            else:
                raise TypeError(f"Unsupported dtype for torch: {dtype}")
            return a.type(dt)
    if config.get("has_cupy"):
        if isinstance(a, cp.ndarray):
            if isinstance(dtype, (type, str, np.dtype)):
                dt = np.dtype(dtype)
            elif isinstance(dtype, torch.dtype):
                dt = torch_to_numpy_dtype_dict[dtype]
            else:
                raise TypeError(f"Unsupported dtype for cupy: {dtype}")
            return a.astype(dt)  # type:ignore ## cupy is fricken annoying sometimes
    if isinstance(a, np.ndarray):
        if isinstance(dtype, (type, str, np.dtype)):
            dt = np.dtype(dtype)
        elif isinstance(dtype, torch.dtype):
            dt = torch_to_numpy_dtype_dict[dtype]
        else:
            raise TypeError(f"Unsupported dtype for numpy: {type(dtype)} {dtype}")
        return a.astype(dt)
    else:
        raise ValueError(f"Unsupported array type: {type(a)}")


def orig_fourier_translation_operator(positions, shape, expand_dim=True, dtype=None):
    """Returns phase ramp for fourier-shifting array of shape `shape`."""
    nr, nc = shape[-2:]
    r = positions[..., 0][:, None, None]
    c = positions[..., 1][:, None, None]
    kr = af.match_device(np.fft.fftfreq(nr, d=1.0).astype(np.float32), positions)
    kc = af.match_device(np.fft.fftfreq(nc, d=1.0).astype(np.float32), positions)
    ramp_r = af.exp(-2.0j * np.pi * kr[None, :, None] * r)
    ramp_c = af.exp(-2.0j * np.pi * kc[None, None, :] * c)
    ramp = ramp_r * ramp_c
    if expand_dim:
        for _ in range(len(shape) - 2):
            ramp = ramp[:, None, ...]
    if dtype is not None:
        ramp = orig_as_type(ramp, dtype)
    return ramp


def orig_fourier_shift_expand(array, positions, expand_dim=True):
    """Fourier-shift array by flat array of positions."""
    # the ramp must stay complex: casting it to a real array dtype would keep only its cosine part
    phase = orig_fourier_translation_operator(
        positions, array.shape, expand_dim, dtype=array.dtype if af.is_complex(array) else None
    )
    fourier_array = af.fft2(array)
    shifted_fourier_array = fourier_array * phase
    shifted_array = af.ifft2(shifted_fourier_array)
    if af.is_complex(array):
        return shifted_array
    else:
        return shifted_array.real


def orig_compute_propagator_arrays(self, sampling, num_slices, slice_thicknesses):
    if num_slices == 1:
        return torch.tensor([])

    kr, kc = tuple(
        torch.fft.fftfreq(n, d, device=self.device) for n, d in zip(self.roi_shape, sampling)
    )
    k2 = (kr[:, None] ** 2 + kc[None] ** 2).to(torch.complex64)  # broadcasting to (Sr, Sc)
    probe_energy = self.probe_params["energy"]
    if probe_energy is None:
        raise ValueError("probe_model energy must be set to compute propagators.")
    wavelength = electron_wavelength_angstrom(probe_energy)
    propagators = torch.empty(
        (num_slices - 1, kr.shape[0], kc.shape[0]), dtype=torch.complex64, device=self.device
    )

    theta_r, theta_c = self.probe_tilt
    dz = torch.tensor(slice_thicknesses, device=self.device, dtype=k2.dtype)  # (T,)
    phase_factor = -1.0j * torch.pi * wavelength * dz[:, None, None]  # (T,1,1)
    propagators = torch.exp(phase_factor * k2)  # (T, Sr, Sc)
    if theta_r != 0:
        kr_term = 1.0j * (-2 * torch.pi * dz[:, None, None] * torch.tan(theta_r / 1e3))
        propagators = propagators * torch.exp(kr_term * kr[None, :, None])
    if theta_c != 0:
        kc_term = 1.0j * (-2 * torch.pi * dz[:, None, None] * torch.tan(theta_c / 1e3))
        propagators = propagators * torch.exp(kc_term * kc[None, None, :])

    return propagators


# --------------------------------------------------------------------------------------
# helpers
# --------------------------------------------------------------------------------------
def same(a, b, what):
    """bit-for-bit identity incl. type, dtype, shape and memory layout"""
    assert type(a) is type(b), (what, type(a), type(b))
    if isinstance(a, torch.Tensor):
        assert a.dtype == b.dtype, (what, a.dtype, b.dtype)
        assert a.shape == b.shape, (what, a.shape, b.shape)
        assert a.stride() == b.stride(), (what, a.stride(), b.stride())
        assert a.is_conj() == b.is_conj(), what
        assert a.requires_grad == b.requires_grad, what
        a = a.detach().resolve_conj().contiguous().numpy()
        b = b.detach().resolve_conj().contiguous().numpy()
    else:
        assert a.dtype == b.dtype, (what, a.dtype, b.dtype)
        assert a.shape == b.shape, (what, a.shape, b.shape)
        assert a.strides == b.strides, (what, a.strides, b.strides)
    assert a.tobytes() == b.tobytes(), what


def outcome(fn, *args, **kw):
    try:
        return ("ok", fn(*args, **kw))
    except Exception as e:  # noqa: BLE001
        return ("raise", type(e))


def same_outcome(f_old, f_new, what, *args, **kw):
    o, n = outcome(f_old, *args, **kw), outcome(f_new, *args, **kw)
    assert o[0] == n[0], (what, o, n)
    if o[0] == "ok":
        same(o[1], n[1], what)
    else:
        assert o[1] is n[1], (what, o, n)
    return o[0]


rng = np.random.default_rng(1234)
gen = torch.Generator().manual_seed(4321)
n_checks = 0


# --------------------------------------------------------------------------------------
# 1. sum_patches_base / sum_patches : scatter, adjoint of gather
# --------------------------------------------------------------------------------------
def patch_index_sets(obj_hw, roi, npos, idtype):
    """index sets as the dataset builds them: rounded position + fftfreq offsets, wrapped"""
    H, W = obj_hw
    r0 = torch.randint(-2 * H, 2 * H, (npos,), generator=gen)
    c0 = torch.randint(-2 * W, 2 * W, (npos,), generator=gen)
    r0[: npos // 3] = r0[0]  # repeats
    c0[: npos // 3] = c0[0]
    r0[-1], c0[-1] = H - 1, W - 1  # the last flat index H*W-1 is always present
    x = torch.fft.fftfreq(roi[0], d=1 / roi[0])
    y = torch.fft.fftfreq(roi[1], d=1 / roi[1])
    row = (r0[:, None, None] + x[None, :, None]) % H
    col = (c0[:, None, None] + y[None, None, :]) % W
    return (row * W + col).type(idtype)


for obj_hw, roi, npos in [
    ((17, 23), (5, 8), 11),
    ((16, 16), (16, 16), 7),  # roi covers the whole grid: every index wraps
    ((9, 31), (9, 4), 1),
    ((40, 33), (7, 7), 64),
    ((6, 5), (3, 2), 200),  # heavy repeats
]:
    for idtype, pdtype in itertools.product(
        (torch.int32, torch.int64),
        (torch.float32, torch.float64, torch.complex64, torch.complex128),
    ):
        idx = patch_index_sets(obj_hw, roi, npos, idtype)
        assert int(idx.min()) >= 0 and int(idx.max()) < obj_hw[0] * obj_hw[1]
        assert int(idx.max()) == obj_hw[0] * obj_hw[1] - 1  # top of the range is hit
        patches = torch.randn(npos, *roi, dtype=pdtype, generator=gen)
        for shp in (obj_hw, torch.Size(obj_hw), list(obj_hw)):
            same_outcome(orig_sum_patches, pu.sum_patches, ("sum_patches", obj_hw, roi), patches, idx, shp)
            n_checks += 1
        if not patches.is_complex():
            same(
                orig_sum_patches_base(patches, idx, obj_hw),
                pu.sum_patches_base(patches, idx, obj_hw),
                "sum_patches_base",
            )
        # mode axis in front, as used by the analytic object gradient
        p2 = torch.randn(2, npos, *roi, dtype=pdtype, generator=gen)
        i2 = torch.stack([idx, idx])
        same(orig_sum_patches(p2, i2, obj_hw), pu.sum_patches(p2, i2, obj_hw), "sum_patches 2 modes")

        # property: scatter is the exact adjoint of gather  <S p, o> == <p, G o>
        if pdtype in (torch.float64, torch.complex128):
            obj = torch.randn(*obj_hw, dtype=pdtype, generator=gen)
            gathered = obj.reshape(-1)[idx.long()]
            lhs = torch.sum(torch.conj(pu.sum_patches(patches, idx, obj_hw)) * obj)
            rhs = torch.sum(torch.conj(patches) * gathered)
            assert torch.allclose(lhs, rhs, rtol=1e-10, atol=1e-10), (lhs, rhs)

# degenerate and non-2D shapes
e_idx = torch.zeros((0, 3, 3), dtype=torch.int32)
e_p = torch.zeros((0, 3, 3), dtype=torch.float32)
for shp in ((4, 5), (0, 5), (2, 3, 4), (7,), ()):
    same_outcome(orig_sum_patches_base, pu.sum_patches_base, ("empty", shp), e_p, e_idx, shp)
idx3 = torch.randint(0, 24, (5, 2, 2), generator=gen)
p3 = torch.randn(5, 2, 2, generator=gen)
same(orig_sum_patches_base(p3, idx3, (2, 3, 4)), pu.sum_patches_base(p3, idx3, (2, 3, 4)), "3-D obj")
same(orig_sum_patches_base(p3, idx3 % 1, ()), pu.sum_patches_base(p3, idx3 % 1, ()), "0-D obj")
# the index tensor handed in is left untouched
keep = idx3.clone()
pu.sum_patches_base(p3, idx3, (2, 3, 4))
assert torch.equal(keep, idx3)


# --------------------------------------------------------------------------------------
# 2. as_type / fourier_translation_operator / fourier_shift_expand
# --------------------------------------------------------------------------------------
t_ramp = torch.exp(1j * torch.randn(3, 4, 5, dtype=torch.float64, generator=gen))
n_ramp = t_ramp.numpy().copy()
dtype_specs = [
    torch.complex64, torch.complex128, torch.float32, torch.float64, torch.int32,
    "complex64", "complex128", "float32",
    np.complex64, np.complex128, np.float32, complex, float,
    np.dtype("complex64"), np.dtype("complex128"), np.dtype("float32"),
    None, 3, 2.5, ("complex64",), torch.device("cpu"), torch.Size([2]), "not_a_dtype",
]  # fmt: skip
with warnings.catch_warnings():
    warnings.simplefilter("ignore")  # complex -> real casts warn identically in old and new
    for spec in dtype_specs:
        for arr in (t_ramp, n_ramp, [1.0, 2.0]):
            same_outcome(orig_as_type, af.as_type, ("as_type", spec, type(arr)), arr, spec)
            n_checks += 1

shapes = [(6, 6), (5, 7), (8, 3), (1, 9), (2, 5, 4), (3, 2, 7, 6)]
for shape in shapes:
    for nb in (1, 4):
        pos64 = rng.uniform(-9, 9, size=(nb, 2))
        pos64[0] = (3.0, -2.0)  # an integer shift
        for adt in (np.float32, np.float64, np.complex64, np.complex128):
            a = rng.normal(size=shape)
            if np.issubdtype(adt, np.complexfloating):
                a = a + 1j * rng.normal(size=shape)
            a = a.astype(adt)
            for pdt in (np.float32, np.float64):
                pos = pos64.astype(pdt)
                for expand in (True, False):
                    if not expand and len(shape) > 3:
                        continue
                    for arr, p in ((a, pos), (torch.from_numpy(a), torch.from_numpy(pos))):
                        what = ("fourier_shift_expand", shape, nb, adt, pdt, expand, type(arr))
                        same_outcome(
                            orig_fourier_shift_expand, pu.fourier_shift_expand, what, arr, p, expand
                        )
                        n_checks += 1
                    for dspec in (None, a.dtype, "complex128", torch.complex64, np.complex64):
                        for p in (pos, torch.from_numpy(pos)):
                            same_outcome(
                                orig_fourier_translation_operator,
                                pu.fourier_translation_operator,
                                ("fourier_translation_operator", shape, dspec, type(p)),
                                p, shape, expand, dspec,
                            )  # fmt: skip
                            n_checks += 1
# unsupported inputs fail in the same way
for bad in ([[1.0, 2.0], [3.0, 4.0]], 3.0, None, SimpleNamespace(shape=(4, 4), dtype="float32")):
    same_outcome(
        orig_fourier_shift_expand, pu.fourier_shift_expand, ("bad", type(bad)), bad, np.zeros((1, 2))
    )

# property: translation preserves total intensity, composes additively, integer == roll
for shape in [(6, 6), (5, 7), (8, 3), (9, 16)]:
    psi = torch.from_numpy(rng.normal(size=shape) + 1j * rng.normal(size=shape))  # complex128
    s1 = torch.tensor([[1.3, -2.6]], dtype=torch.float64)
    s2 = torch.tensor([[-0.45, 4.2]], dtype=torch.float64)
    a1 = pu.fourier_shift_expand(psi, s1)[0]
    a12 = pu.fourier_shift_expand(a1, s2)[0]
    a_sum = pu.fourier_shift_expand(psi, s1 + s2)[0]
    tot = torch.sum(torch.abs(psi) ** 2)
    assert a1.dtype == torch.complex128
    assert torch.allclose(torch.sum(torch.abs(a1) ** 2), tot, rtol=1e-5)
    assert torch.allclose(a12, a_sum, atol=1e-4), (a12 - a_sum).abs().max()
    ai = pu.fourier_shift_expand(psi, torch.tensor([[2.0, -3.0]], dtype=torch.float64))[0]
    assert torch.allclose(ai, torch.roll(psi, (2, -3), dims=(0, 1)), atol=1e-4)
    # real input stays real and an integer shift is a roll as well
    re = psi.real.numpy()
    ri = pu.fourier_shift_expand(re, np.array([[1.0, 4.0]]))[0]
    assert not np.iscomplexobj(ri) and np.allclose(ri, np.roll(re, (1, 4), axis=(0, 1)), atol=1e-4)


# --------------------------------------------------------------------------------------
# 3. ProbeBase._compute_propagator_arrays
# --------------------------------------------------------------------------------------
def stub(roi_shape, energy, tilt, tilt_dtype=torch.float32, grad=False):
    return SimpleNamespace(
        device="cpu",
        roi_shape=np.array(roi_shape),
        probe_params={"energy": energy},
        probe_tilt=torch.nn.Parameter(torch.tensor(tilt, dtype=tilt_dtype), requires_grad=grad),
    )


new_prop = ProbeBase._compute_propagator_arrays
for roi in [(8, 8), (7, 9), (12, 5), (1, 6), (32, 31)]:
    for sampling in [(0.2, 0.2), (0.31, 0.17), np.array([0.5, 0.123])]:
        for energy in (60e3, 80e3, 300e3):
            for tilt in [(0, 0), (3.5, 0), (0, -7.25), (1.5, 2.5)]:
                for nsl, thick in [
                    (1, np.array([])),
                    (2, np.array([10.0])),
                    (3, np.array([5.0, 12.5])),
                    (4, torch.tensor([2.0, 4.0, 8.0]).numpy()),
                    (5, [1.0, -1.0, 3.0, 20.0]),
                ]:
                    for grad in (False, True):
                        s = stub(roi, energy, tilt, grad=grad)
                        what = ("propagators", roi, tuple(sampling), energy, tilt, nsl, grad)
                        res = same_outcome(
                            orig_compute_propagator_arrays, new_prop, what, s, sampling, nsl, thick
                        )
                        assert res == "ok", what
                        n_checks += 1
# failure modes are the same
same_outcome(orig_compute_propagator_arrays, new_prop, "no energy", stub((4, 4), None, (0, 0)), (1, 1), 2, [1.0])
same_outcome(orig_compute_propagator_arrays, new_prop, "0 slices", stub((4, 4), 80e3, (0, 0)), (1, 1), 0, [])
same_outcome(orig_compute_propagator_arrays, new_prop, "3 samplings", stub((4, 4), 80e3, (0, 0)), (1, 1, 1), 2, [1.0])
bad = stub((4, 4), 80e3, (0, 0))
bad.roi_shape = np.array((4, 4, 4))
same_outcome(orig_compute_propagator_arrays, new_prop, "3-D roi", bad, (1, 1, 1), 2, [1.0])

# property: unit modulus, energy preservation and  P(dz) P(-dz) == identity
for roi, tilt in [((8, 8), (0, 0)), ((7, 10), (4.0, -2.0)), ((16, 9), (0, 1.0))]:
    props = new_prop(stub(roi, 200e3, tilt), (0.25, 0.3), 3, [7.0, -7.0])
    assert props.shape == (2, *roi) and props.dtype == torch.complex64
    assert torch.allclose(props.abs(), torch.ones(2, *roi), atol=1e-5)
    psi = torch.randn(2, 3, *roi, dtype=torch.complex64, generator=gen)

    def propagate(array, propagator_array):  # ptychography_base._propagate_array
        return torch.fft.ifft2(torch.fft.fft2(array) * propagator_array)

    fwd = propagate(psi, props[0])
    assert torch.allclose((fwd.abs() ** 2).sum((-1, -2)), (psi.abs() ** 2).sum((-1, -2)), rtol=1e-4)
    back = propagate(fwd, props[1])
    assert torch.allclose(back, psi, atol=1e-4), (back - psi).abs().max()

print(f"demo OK: {n_checks} old-vs-new comparisons bit-identical, C16 identities hold")
