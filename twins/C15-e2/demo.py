"""Demo for C15 patch 2: DriftInterpolator.transform_rows (knots -> per-pixel coordinates).

Checks (on the unmodified tree and with the patch applied):
  * transform_rows / transform_coordinates / warp_image are bit-identical to a verbatim copy
    of the ORIGINAL if / elif / else implementation for 1..7 knots, for single rows (2, k),
    whole knot arrays (2, rows, k), bent (non-straight) lines, and they fail in the same way
    (same exception type and message) for malformed knots;
  * geometry: straight scan lines described by 1, 2, 3 or 4 knots give the same coordinates,
    equal to canvas centre + rotation of the offset from the image centre;
  * unit weight per pixel; identical stack is a fixed point of align_translation.
"""

import warnings

import matplotlib

matplotlib.use("Agg")

import numpy as np
from scipy.interpolate import interp1d

from quantem.imaging.drift import DriftCorrection, DriftInterpolator

warnings.filterwarnings("ignore")


# ----------------------------------------------------------------------------------------
# verbatim copies of the ORIGINAL methods (HEAD of the worktree)
# ----------------------------------------------------------------------------------------
def original_transform_rows(self, knots_row):
    num_knots = knots_row.shape[-1]
    basis = np.linspace(0, 1, num_knots)

    if num_knots == 1:
        xa = knots_row[0] + self.u[None, :] * self.scan_fast[0] * (self.input_shape[1] - 1)
        ya = knots_row[1] + self.u[None, :] * self.scan_fast[1] * (self.input_shape[1] - 1)
    elif num_knots == 2:
        xa = interp1d(basis, knots_row[0], kind="linear", assume_sorted=True)(self.u)
        ya = interp1d(basis, knots_row[1], kind="linear", assume_sorted=True)(self.u)
    else:
        kind = "quadratic" if num_knots == 3 else "cubic"
        xa = interp1d(
            basis,
            knots_row[0],
            kind=kind,
            fill_value="extrapolate",
            assume_sorted=True,
        )(self.u)
        ya = interp1d(
            basis,
            knots_row[1],
            kind=kind,
            fill_value="extrapolate",
            assume_sorted=True,
        )(self.u)

    return xa, ya


def original_transform_coordinates(self, knots):
    num_knots = knots.shape[-1]

    if num_knots == 1:
        # vectorized version for speed
        xa, ya = original_transform_rows(self, knots)
    else:
        xa = np.zeros(self.input_shape)
        ya = np.zeros(self.input_shape)
        for i in range(self.input_shape[0]):
            xa[i], ya[i] = original_transform_rows(self, knots[:, i])

    return xa, ya


# ----------------------------------------------------------------------------------------
def same(a, b):
    return (
        isinstance(a, np.ndarray)
        and isinstance(b, np.ndarray)
        and a.shape == b.shape
        and a.dtype == b.dtype
        and np.array_equal(a, b, equal_nan=True)
    )


def outcome(fn, *args):
    try:
        return ("ok", fn(*args))
    except Exception as e:  # noqa: BLE001
        return ("err", type(e), str(e))


def assert_same_outcome(o_new, o_old, what):
    assert o_new[0] == o_old[0], (what, o_new, o_old)
    if o_new[0] == "err":
        assert o_new[1:] == o_old[1:], (what, o_new, o_old)
    else:
        assert len(o_new[1]) == len(o_old[1]) == 2, what
        assert same(o_new[1][0], o_old[1][0]) and same(o_new[1][1], o_old[1][1]), what


def straight_knots(shape, canvas, angle_deg, n_knots):
    t = np.deg2rad(angle_deg)
    fast = np.array([np.sin(-t), np.cos(-t)])
    slow = np.array([np.cos(-t), -np.sin(-t)])
    v = np.linspace(-(shape[0] - 1) / 2, (shape[0] - 1) / 2, shape[0])
    u = np.linspace(-(shape[1] - 1) / 2, (shape[1] - 1) / 2, n_knots)
    xa = (canvas[0] - 1) / 2 + u[None, :] * fast[0] + v[:, None] * slow[0]
    ya = (canvas[1] - 1) / 2 + u[None, :] * fast[1] + v[:, None] * slow[1]
    return np.stack([xa, ya], axis=0), fast, slow


def expected_coordinates(shape, canvas, fast, slow):
    dr = np.arange(shape[0])[:, None] - (shape[0] - 1) / 2
    dc = np.arange(shape[1])[None, :] - (shape[1] - 1) / 2
    return (
        (canvas[0] - 1) / 2 + dr * slow[0] + dc * fast[0],
        (canvas[1] - 1) / 2 + dr * slow[1] + dc * fast[1],
    )


rng = np.random.default_rng(0)
shapes = [(8, 8), (7, 11), (12, 5), (9, 10), (3, 2), (1, 6), (5, 1)]
angles = [0.0, 90.0, 180.0, 270.0, 33.0, 123.4, 359.5]
n_checked = 0

for shape in shapes:
    canvas = (
        int(np.round(shape[0] * 1.25 / 2) * 2),
        int(np.round(shape[1] * 1.25 / 2) * 2),
    )
    for angle in angles:
        coords = []
        for n_knots in range(1, 8):
            knots, fast, slow = straight_knots(shape, canvas, angle, n_knots)
            interp = DriftInterpolator(
                input_shape=shape,
                output_shape=canvas,
                scan_fast=fast,
                scan_slow=slow,
                pad_value=0.3,
                kde_sigma=0.5,
            )
            bent = knots + rng.normal(scale=0.7, size=knots.shape)

            for kn in (knots, bent):
                # whole image
                assert_same_outcome(
                    outcome(interp.transform_coordinates, kn),
                    outcome(original_transform_coordinates, interp, kn),
                    ("coords", shape, angle, n_knots),
                )
                # whole knot array handed to transform_rows directly (interp1d along last axis)
                assert_same_outcome(
                    outcome(interp.transform_rows, kn),
                    outcome(original_transform_rows, interp, kn),
                    ("rows-nd", shape, angle, n_knots),
                )
                # row by row, as used by the non-rigid optimiser
                for r in range(shape[0]):
                    assert_same_outcome(
                        outcome(interp.transform_rows, kn[:, r]),
                        outcome(original_transform_rows, interp, kn[:, r]),
                        ("row", shape, angle, n_knots, r),
                    )
                    # flattened-and-reshaped optimiser vector, non-contiguous view, int dtype
                    x = kn[:, r, :].ravel().reshape(2, n_knots)
                    assert_same_outcome(
                        outcome(interp.transform_rows, x),
                        outcome(original_transform_rows, interp, x),
                        ("row-x", shape, angle, n_knots, r),
                    )
                    xi = np.round(x).astype(int)
                    assert_same_outcome(
                        outcome(interp.transform_rows, xi),
                        outcome(original_transform_rows, interp, xi),
                        ("row-int", shape, angle, n_knots, r),
                    )
                n_checked += 1

            # geometry of the straight line
            if n_knots <= 4 and shape[1] > 1:
                xa, ya = interp.transform_coordinates(knots)
                xe, ye = expected_coordinates(shape, canvas, fast, slow)
                assert xa.shape == ya.shape == shape
                assert np.allclose(xa, xe, atol=1e-9, rtol=0), (shape, angle, n_knots)
                assert np.allclose(ya, ye, atol=1e-9, rtol=0), (shape, angle, n_knots)
                coords.append((xa, ya))

                # warp: old == new and unit weight per pixel
                image = rng.normal(size=shape)
                im_new, w_new = interp.warp_image(image, knots)
                assert abs(w_new.sum() - shape[0] * shape[1]) <= 2e-3 * shape[0] * shape[1]
                im_b, w_b = interp.warp_image(image, bent, upsample_factor=2, kde_sigma=0.8)
                assert abs(w_b.sum() - shape[0] * shape[1]) <= 2e-3 * shape[0] * shape[1]

        for xa, ya in coords[1:]:
            assert np.allclose(xa, coords[0][0], atol=1e-9, rtol=0)
            assert np.allclose(ya, coords[0][1], atol=1e-9, rtol=0)

# ---- malformed inputs fail identically ----------------------------------------------------
interp = DriftInterpolator((6, 9), (8, 12), np.array([0.0, 1.0]), np.array([1.0, 0.0]), 0.0, 0.5)
bad_inputs = [
    np.zeros((2, 0)),  # no knots at all
    np.zeros((2, 6, 0)),
    np.zeros((1, 1)),  # only one coordinate, 1 knot
    np.zeros((1, 2)),  # only one coordinate, 2 knots
    np.zeros((1, 3)),
    np.zeros((1, 5)),
    np.zeros(3),  # 1D
    np.array(1.0),  # 0D
    np.full((2, 3), np.nan),
    np.array([[0.0, np.inf, 1.0, 2.0], [1.0, 2.0, 3.0, 4.0]]),
    np.zeros((2, 4, 3)) + 1j,  # complex knots
    np.zeros((3, 2)),  # extra coordinate is ignored
]
for bad in bad_inputs:
    assert_same_outcome(
        outcome(interp.transform_rows, bad),
        outcome(original_transform_rows, interp, bad),
        ("bad-rows", bad.shape),
    )
    assert_same_outcome(
        outcome(interp.transform_coordinates, bad),
        outcome(original_transform_coordinates, interp, bad),
        ("bad-coords", bad.shape),
    )
for bad in ([[0.0, 1.0], [1.0, 2.0]], None):
    assert_same_outcome(
        outcome(interp.transform_rows, bad),
        outcome(original_transform_rows, interp, bad),
        ("bad-type", type(bad)),
    )

# 2 knots do NOT extrapolate (u stays inside [0, 1]); nothing is cached between calls
k2 = np.array([[1.0, 5.0], [2.0, 2.0]])
a1 = interp.transform_rows(k2)
a2 = interp.transform_rows(k2 + 1.0)
a3 = interp.transform_rows(k2)
assert same(a1[0], a3[0]) and same(a1[1], a3[1]) and not np.array_equal(a1[0], a2[0])
assert a1[0][0] == 1.0 and a1[0][-1] == 5.0


# ---- whole pipeline: fixed point of translation alignment ---------------------------------
def make_image(shape, seed):
    r = np.random.default_rng(seed)
    im = r.normal(size=shape)
    rr, cc = np.meshgrid(np.arange(shape[0]), np.arange(shape[1]), indexing="ij")
    for _ in range(4):
        r0, c0 = r.uniform(1, shape[0] - 2), r.uniform(1, shape[1] - 2)
        im += 6.0 * np.exp(-((rr - r0) ** 2 + (cc - c0) ** 2) / (2 * 1.3**2))
    return im


for shape, n_img, angle, n_knots, pad, sigma, up in [
    ((16, 16), 2, 0.0, 1, 0.25, 0.5, 8),
    ((15, 22), 3, 90.0, 2, 0.25, 0.5, 8),
    ((21, 14), 4, 37.0, 3, 0.5, 0.8, 4),
    ((18, 25), 2, 200.0, 4, 0.1, 1.0, 16),
]:
    im = make_image(shape, 11)
    dc = DriftCorrection.from_data([im.copy() for _ in range(n_img)], [angle] * n_img)
    dc.preprocess(pad_fraction=pad, number_knots=n_knots, kde_sigma=sigma)
    for ind in range(n_img):
        xa_n, ya_n = dc.interpolator[ind].transform_coordinates(dc.knots[ind])
        xa_o, ya_o = original_transform_coordinates(dc.interpolator[ind], dc.knots[ind])
        assert same(xa_n, xa_o) and same(ya_n, ya_o)
        assert abs(dc.weights_warped.array[ind].sum() - im.size) <= 2e-3 * im.size
    before = [k.copy() for k in dc.knots]
    dc.align_translation(upsample_factor=up, show_merged=False)
    for k0, k1 in zip(before, dc.knots):
        assert np.allclose(k1, k0, atol=1e-6, rtol=0), np.abs(k1 - k0).max()

print(f"PASS ({n_checked} knot arrays compared old vs new)")
