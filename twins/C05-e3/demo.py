# ---------------------------------------------------------------------------------------------
# shared harness: small ptychography problem + checkpoint/resume comparison
# ---------------------------------------------------------------------------------------------
import contextlib
import io
import os
import tempfile
import warnings

import matplotlib

matplotlib.use("Agg")
import numpy as np
import torch

from quantem.core.datastructures.dataset4dstem import Dataset4dstem
from quantem.diffractive_imaging.dataset_models import PtychographyDatasetRaster
from quantem.diffractive_imaging.detector_models import DetectorPixelated
from quantem.diffractive_imaging.object_models import ObjectPixelated
from quantem.diffractive_imaging.probe_models import ProbePixelated
from quantem.diffractive_imaging.ptychography import Ptychography

warnings.filterwarnings("ignore")
ENERGY = 300e3


def make_dataset(sx=7, sy=6, n=(16, 16), seed=3):
    rng = np.random.default_rng(seed)
    arr = rng.random((sx, sy, n[0], n[1])).astype(np.float32) + 0.1
    yy, xx = np.meshgrid(np.arange(n[0]) - n[0] / 2, np.arange(n[1]) - n[1] / 2, indexing="ij")
    arr += 20 * ((yy**2 + xx**2) < (min(n) / 4) ** 2)
    d = Dataset4dstem.from_array(
        array=arr, sampling=(1.0, 1.0, 0.03, 0.03), units=("A", "A", "A^-1", "A^-1")
    )
    pd = PtychographyDatasetRaster.from_dataset4dstem(d, verbose=0)
    pd.preprocess(
        com_fit_function="constant",
        plot_rotation=False,
        plot_com=False,
        probe_energy=ENERGY,
        force_com_rotation=0,
        force_com_transpose=False,
    )
    return pd


def make_ptycho(sx=7, sy=6, n=(16, 16), num_probes=1, obj_type="complex", pad=(4, 4), seed=3):
    pd = make_dataset(sx, sy, n, seed)
    obj_model = ObjectPixelated.from_uniform(num_slices=1, obj_type=obj_type, slice_thicknesses=1)
    probe_model = ProbePixelated.from_params(
        num_probes=num_probes,
        probe_params={"energy": ENERGY, "defocus": 50, "semiangle_cutoff": 15},
    )
    pt = Ptychography.from_models(
        dset=pd,
        obj_model=obj_model,
        probe_model=probe_model,
        detector_model=DetectorPixelated(),
        rng=11,
        verbose=0,
    )
    pt.preprocess(obj_padding_px=pad, plot_rotation=False, plot_com=False)
    return pt


def quiet(fn, *a, **k):
    with contextlib.redirect_stdout(io.StringIO()):
        return fn(*a, **k)


def lrs_as_dict(pt):
    return {k: np.asarray(v, dtype=float) for k, v in pt.iter_lrs.items()}


def assert_same_report(a, b, what, rtol=0.0, atol=0.0):
    """a and b report the same iteration count, losses, LR history, constraints, obj, probe."""
    assert a.num_iters == b.num_iters, (what, a.num_iters, b.num_iters)
    np.testing.assert_allclose(a.iter_losses, b.iter_losses, rtol=rtol, atol=atol, err_msg=what)
    la, lb = lrs_as_dict(a), lrs_as_dict(b)
    assert set(la) == set(lb), (what, set(la), set(lb))
    for k in la:
        np.testing.assert_allclose(la[k], lb[k], rtol=rtol, atol=atol, err_msg=f"{what} lr[{k}]")
    np.testing.assert_allclose(a.obj, b.obj, rtol=rtol, atol=atol, err_msg=what + " obj")
    np.testing.assert_allclose(a.probe, b.probe, rtol=rtol, atol=atol, err_msg=what + " probe")
    ca, cb = a.constraints, b.constraints
    assert set(ca) == set(cb), what
    for cat in ("object", "probe", "dataset"):
        assert set(ca[cat]) == set(cb[cat]), (what, cat)
        for key in ca[cat]:
            va, vb = ca[cat][key], cb[cat][key]
            if isinstance(va, (np.ndarray, torch.Tensor)) or isinstance(vb, (np.ndarray, torch.Tensor)):
                np.testing.assert_allclose(np.asarray(va), np.asarray(vb), err_msg=f"{what} {cat}.{key}")
            elif isinstance(va, (list, tuple)):
                assert list(va) == list(vb), (what, cat, key, va, vb)
            else:
                assert va == vb or (va is None and vb is None), (what, cat, key, va, vb)


def optimizer_state_tensors(pt):
    out = {}
    for name, opt in pt.optimizers.items():
        for gi, g in enumerate(opt.param_groups):
            for pi, p in enumerate(g["params"]):
                for k, v in opt.state.get(p, {}).items():
                    out[(name, gi, pi, k)] = v.detach().cpu().numpy() if isinstance(v, torch.Tensor) else v
    return out


def assert_bound(pt, what):
    """every optimizer steps exactly the tensors the model optimises; state is keyed by them."""
    models = {"object": pt.obj_model, "probe": pt.probe_model, "dataset": pt.dset}
    for name, opt in pt.optimizers.items():
        cur = models[name].get_optimization_parameters()
        cur = [cur] if isinstance(cur, torch.Tensor) else list(cur)
        bound = [p for g in opt.param_groups for p in g["params"]]
        assert len(bound) == len(cur), (what, name)
        for a, b in zip(bound, cur):
            assert a is b, (what, name, "optimizer not bound to live parameter")
        for p in opt.state:
            assert any(p is b for b in bound), (what, name, "stale optimizer state key")
        sch = models[name].scheduler
        if sch is not None:
            assert sch.optimizer is opt, (what, name, "scheduler bound to another optimizer")


def checkpoint_resume_case(td, tag, n_total, k, opt_params, sched_params, store, *,
                           num_probes=1, obj_type="complex", shape=(7, 6, (16, 16)),
                           constraints=None, save_raw=True, tol=1e-4):
    """run n_total iterations straight vs k + (save|clone) + (n_total-k); compare everything."""
    constraints = constraints or {}
    import copy as _copy

    def fresh():
        pt = make_ptycho(shape[0], shape[1], shape[2], num_probes=num_probes, obj_type=obj_type)
        return pt

    def first(pt, n):
        pt.reconstruct(
            num_iters=n,
            reset=True,
            optimizer_params=_copy.deepcopy(opt_params),
            scheduler_params=_copy.deepcopy(sched_params),
            constraints=_copy.deepcopy(constraints),
            batch_size=pt.dset.num_gpts,
        )

    def more(pt, n):
        pt.reconstruct(num_iters=n, batch_size=pt.dset.num_gpts)

    ref = fresh()
    first(ref, k)
    path = os.path.join(td, f"{tag}.zip" if store == "zip" else f"{tag}_dir")
    quiet(ref.save, path, store=store, save_raw_data=save_raw)
    if save_raw:
        loaded = quiet(Ptychography.from_file, path)
    else:
        loaded = quiet(
            Ptychography.from_file,
            path,
            dset=make_dataset(shape[0], shape[1], shape[2]),
        )
    cloned = quiet(ref.clone)
    # the saved object itself is untouched by save()/clone()
    assert not hasattr(ref, "_dataset_metadata")
    for other, nm in ((loaded, "loaded"), (cloned, "cloned")):
        assert other is not ref
        assert_same_report(ref, other, f"{tag}:{nm}@{k}")
        assert_bound(other, f"{tag}:{nm}@{k}")
        sa, sb = optimizer_state_tensors(ref), optimizer_state_tensors(other)
        assert set(sa) == set(sb), (tag, nm, set(sa) ^ set(sb))
        for key in sa:
            np.testing.assert_allclose(np.asarray(sa[key]), np.asarray(sb[key]), err_msg=f"{tag}:{nm} state {key}")
    assert_bound(ref, f"{tag}:ref@{k}")
    rest = n_total - k
    if rest:
        for pt in (ref, loaded, cloned):
            more(pt, rest)
    for other, nm in ((loaded, "loaded"), (cloned, "cloned")):
        assert_same_report(ref, other, f"{tag}:{nm}@{n_total}", rtol=tol, atol=tol)
        assert_bound(other, f"{tag}:{nm}@{n_total}")
    assert ref.num_iters == n_total
    for key, v in ref.iter_lrs.items():
        assert len(v) == n_total, (tag, key, len(v))
    return ref


# ---------------------------------------------------------------------------------------------
# part A: verbatim copies of the ORIGINAL AutoSerialize._serialize_value and
# AutoSerialize._recursive_load (the two functions the patch touches); they can be swapped in
# for the installed ones, so the same objects are written / read by both generations
# ---------------------------------------------------------------------------------------------
import gzip
import hashlib
import zipfile
from typing import AbstractSet, Any, cast

import dill
import zarr

from quantem.core.io.serialize import AutoSerialize
from quantem.core.io.serialize import load as autoserialize_load


def orig_serialize_value(
    self,
    value: Any,
    group: zarr.Group,
    name: str,
    skip_names: set[str] = set(),
    skip_types: tuple[type, ...] = (),
    compressors=None,
) -> None:
    """
    Unified method to serialize any value type to a Zarr group.
    This eliminates duplication between _recursive_save and _serialize_container.
    """
    # --- Serialization handlers by type ---
    if isinstance(value, torch.Tensor):
        # Save entire tensor with torch.save to preserve requires_grad, grad_fn, etc.
        # This is more robust than converting to numpy which loses gradient information
        subgroup = group.require_group(name)
        subgroup.attrs["_torch_tensor"] = True
        subgroup.attrs["_tensor_shape"] = list(value.shape)
        subgroup.attrs["_tensor_dtype"] = str(value.dtype)
        subgroup.attrs["_tensor_device"] = str(value.device)
        subgroup.attrs["_tensor_requires_grad"] = bool(value.requires_grad)

        buffer = io.BytesIO()
        torch.save(value, buffer)
        buffer.seek(0)
        byte_arr = np.frombuffer(buffer.read(), dtype="uint8")
        self._write_bytes(subgroup, "tensor", byte_arr.tobytes(), compressors=None)

    elif isinstance(value, torch.optim.Optimizer):
        # Save entire optimizer with torch.save for robustness
        subgroup = group.require_group(name)
        subgroup.attrs["_torch_optimizer"] = True
        subgroup.attrs["class_name"] = value.__class__.__name__

        buffer = io.BytesIO()
        torch.save(value, buffer)
        buffer.seek(0)
        byte_arr = np.frombuffer(buffer.read(), dtype="uint8")
        self._write_bytes(subgroup, "optimizer", byte_arr.tobytes(), compressors=None)

    elif hasattr(value, "step") and hasattr(value, "get_last_lr"):
        # Handle LR schedulers with torch.save for robustness
        subgroup = group.require_group(name)
        subgroup.attrs["_torch_scheduler"] = True
        subgroup.attrs["class_name"] = value.__class__.__name__

        buffer = io.BytesIO()
        torch.save(value, buffer)
        buffer.seek(0)
        byte_arr = np.frombuffer(buffer.read(), dtype="uint8")
        self._write_bytes(subgroup, "scheduler", byte_arr.tobytes(), compressors=None)

    elif hasattr(value, "add_scalar") and hasattr(value, "add_image"):
        # Handle PyTorch loggers (SummaryWriter, etc.) - save basic info only
        subgroup = group.require_group(name)
        subgroup.attrs["_torch_logger"] = True
        subgroup.attrs["class_name"] = value.__class__.__name__

        # Store basic logger information that can be reconstructed
        if hasattr(value, "log_dir"):
            subgroup.attrs["log_dir"] = str(value.log_dir)
        if hasattr(value, "comment"):
            subgroup.attrs["comment"] = str(value.comment) if value.comment else ""
        if hasattr(value, "max_queue"):
            subgroup.attrs["max_queue"] = int(value.max_queue)
        if hasattr(value, "flush_secs"):
            subgroup.attrs["flush_secs"] = int(value.flush_secs)
        if hasattr(value, "filename_suffix"):
            subgroup.attrs["filename_suffix"] = (
                str(value.filename_suffix) if value.filename_suffix else ""
            )
    elif hasattr(value, "log") and hasattr(value, "info"):
        # Handle other logging objects (like Python's logging.Logger)
        subgroup = group.require_group(name)
        subgroup.attrs["_python_logger"] = True
        subgroup.attrs["class_name"] = value.__class__.__name__

        # Store logger name and level if available
        if hasattr(value, "name"):
            subgroup.attrs["logger_name"] = str(value.name)
        if hasattr(value, "level"):
            subgroup.attrs["logger_level"] = int(value.level)

    elif isinstance(value, torch.nn.Module) or (
        hasattr(value, "__module__") and ("torch" in str(value.__module__))
    ):
        # Save entire torch module with torch.save for robustness
        subgroup = group.require_group(name)
        subgroup.attrs["_torch_whole_module"] = True
        buffer = io.BytesIO()
        torch.save(value, buffer)
        buffer.seek(0)
        byte_arr = np.frombuffer(buffer.read(), dtype="uint8")
        self._write_bytes(subgroup, "module", byte_arr.tobytes(), compressors=None)

    elif isinstance(value, np.ndarray):
        # Save as native array
        if name not in group:
            self._write_ndarray(group, name, value, compressors)

    elif isinstance(value, (int, float, str, bool, type(None))):
        # Scalars saved as attributes
        group.attrs[name] = value
    elif hasattr(value, "dtype") and hasattr(value, "item"):
        # Handle numpy scalar types (np.float32, np.int64, etc.)
        group.attrs[name] = value.item()
    elif hasattr(value, "__fspath__") or str(type(value)).startswith("<class 'pathlib."):
        # Handle pathlib.Path objects and other path-like objects
        group.attrs[name] = str(value)
        group.attrs[f"{name}.is_path"] = True

    elif self._is_autoserialize_instance(value):
        # Nested AutoSerialize subtree
        subgroup = group.require_group(name)
        self._recursive_save(value, subgroup, skip_names, skip_types, compressors)

    elif isinstance(value, (list, tuple, dict)):
        # Save containers recursively (with nested AutoSerialize support)
        subgroup = group.require_group(name)
        self._serialize_container(value, subgroup, skip_names, skip_types, compressors)

    elif isinstance(value, set):
        # Convert set to list for serialization, store type info
        subgroup = group.require_group(name)
        # Convert set items to list and serialize
        list_value = list(value)
        self._serialize_container(list_value, subgroup, skip_names, skip_types, compressors)
        # Tag after the list has been written: _serialize_container tags the group as "list"
        subgroup.attrs["_container_type"] = "set"

    elif hasattr(value, "bit_generator"):
        # NumPy random generator - save state through bit_generator
        subgroup = group.require_group(name)
        subgroup.attrs["_numpy_rng"] = True
        # Get state from the bit_generator
        rng_state = value.bit_generator.state
        if hasattr(rng_state, "tolist"):
            subgroup.attrs["_rng_state"] = rng_state.tolist()
        else:
            subgroup.attrs["_rng_state"] = rng_state
        subgroup.attrs["_rng_type"] = value.__class__.__name__
        subgroup.attrs["_bit_generator_type"] = value.bit_generator.__class__.__name__

    elif hasattr(value, "get_state") and hasattr(value, "set_state"):
        # PyTorch generator - skip for now as state structure is complex
        # Just store a marker that this was a generator
        subgroup = group.require_group(name)
        subgroup.attrs["_torch_rng_skipped"] = True
        subgroup.attrs["_rng_type"] = "torch.Generator"
        # Don't try to save the state - it's not essential for core functionality

    else:
        # Fallback: dill-serialize + gzip-compress
        print(f"falling back in serialize for {name} of type {type(value)}")
        serialized = dill.dumps(value)
        compressed = gzip.compress(serialized)
        self._write_bytes(group, name, compressed, compressors)


def orig_recursive_load(
    cls,
    group: zarr.Group,
    skip_names: AbstractSet[str] = frozenset(),
    skip_types: tuple[type, ...] = (),
) -> object:
    """
    Recursively reconstruct an AutoSerialize object from a Zarr group,
    honoring attribute/type skipping for selective deserialization.
    """
    # --- Load class identity and ensure version is compatible ---
    meta = cast(dict[str, Any], group.attrs["_autoserialize"])
    version = int(meta.get("version", 1))
    if version != 1:
        raise ValueError(f"Unsupported AutoSerialize version: {version}")
    module_name = cast(str, meta["class_module"])
    class_name = cast(str, meta["class_name"])
    module = __import__(module_name, fromlist=[class_name])
    cls_obj = getattr(module, class_name)
    obj = cls_obj.__new__(cls_obj)  # Avoid __init__ side effects

    # If attrs package is used, only allow whitelisted attribute names
    attrs_fields = getattr(cls_obj, "__attrs_attrs__", None)
    if attrs_fields is not None:
        attrs_item_names = [f.name for f in attrs_fields]
    else:
        attrs_item_names = []

    set_attrs = set()

    # --- Restore simple attributes ---
    for name, val in group.attrs.items():
        if (
            name in ("_autoserialize", "_autoserialize_skip_names", "_autoserialize_skip_types")
            or name.endswith(".torch_save")
            or name.endswith(".is_path")
        ):
            continue  # Skip metadata/flags
        if name in skip_names:
            continue
        if attrs_item_names and name not in attrs_item_names:
            continue

        # Convert string paths back to pathlib.Path objects if needed
        val = cls._convert_string_to_path_if_needed(val, group, name)

        setattr(obj, name, val)
        set_attrs.add(name)

    # --- Restore datasets (arrays/tensors/serialized objects) ---
    for ds in group.array_keys():
        if ds in skip_names:
            continue
        arr_np = AutoSerialize._read_array_np(group, ds)
        try:
            payload = gzip.decompress(arr_np.tobytes())
            v = dill.loads(payload)
        except Exception:
            v = arr_np
            if group.attrs.get(f"{ds}.torch_save", False):
                v = torch.from_numpy(v)
        if type(v) in skip_types:
            continue
        setattr(obj, ds, v)
        set_attrs.add(ds)

    # --- Restore subgroups (optimizers, modules, nested objects, containers) ---
    for name in group.group_keys():
        if name in skip_names:
            continue
        subgrp = AutoSerialize._get_group(group, name)

        # torch tensor group
        if subgrp.attrs.get("_torch_tensor"):
            data = AutoSerialize._read_array_np(subgrp, "tensor").tobytes()
            buf = io.BytesIO(data)
            tensor = torch.load(buf, map_location="cpu", weights_only=False)
            if type(tensor) in skip_types:
                continue
            setattr(obj, name, tensor)
            set_attrs.add(name)

        # torch optimizer group
        elif subgrp.attrs.get("_torch_optimizer"):
            data = AutoSerialize._read_array_np(subgrp, "optimizer").tobytes()
            buf = io.BytesIO(data)
            opt = torch.load(buf, map_location="cpu", weights_only=False)
            if type(opt) in skip_types:
                continue

            setattr(obj, name, opt)
            set_attrs.add(name)

        # torch scheduler group
        elif subgrp.attrs.get("_torch_scheduler"):
            data = AutoSerialize._read_array_np(subgrp, "scheduler").tobytes()
            buf = io.BytesIO(data)
            scheduler = torch.load(buf, map_location="cpu", weights_only=False)
            if type(scheduler) in skip_types:
                continue
            setattr(obj, name, scheduler)
            set_attrs.add(name)

        # torch logger group
        elif subgrp.attrs.get("_torch_logger"):
            # Recreate logger from saved metadata
            logger_class_name = subgrp.attrs.get("class_name", "SummaryWriter")

            if logger_class_name == "SummaryWriter":
                from torch.utils.tensorboard import SummaryWriter

                # Extract logger parameters with explicit type casting
                log_dir = subgrp.attrs.get("log_dir", None)

                comment = str(cast(Any, subgrp.attrs.get("comment", "")))
                max_queue = int(cast(Any, subgrp.attrs.get("max_queue", 10)))
                flush_secs = int(cast(Any, subgrp.attrs.get("flush_secs", 120)))
                filename_suffix = str(cast(Any, subgrp.attrs.get("filename_suffix", "")))

                # Create new logger instance
                logger = SummaryWriter(
                    log_dir=log_dir,
                    comment=comment,
                    max_queue=max_queue,
                    flush_secs=flush_secs,
                    filename_suffix=filename_suffix,
                )
            else:
                # For other logger types, create a basic instance or skip
                print(
                    f"Warning: Unknown logger type '{logger_class_name}', skipping logger restoration"
                )
                continue

            if type(logger) in skip_types:
                continue
            setattr(obj, name, logger)
            set_attrs.add(name)

        # python logger group
        elif subgrp.attrs.get("_python_logger"):
            # Recreate Python logger from saved metadata
            logger_class_name = subgrp.attrs.get("class_name", "Logger")

            if logger_class_name == "Logger":
                import logging

                # Extract logger parameters
                logger_name = cast(str, subgrp.attrs.get("logger_name", "quantem"))
                logger_level = int(cast(Any, subgrp.attrs.get("logger_level", logging.INFO)))

                # Create new logger instance
                logger = logging.getLogger(logger_name)
                logger.setLevel(logger_level)
            else:
                # For other logger types, create a basic instance or skip
                print(
                    f"Warning: Unknown Python logger type '{logger_class_name}', skipping logger restoration"
                )
                continue

            if type(logger) in skip_types:
                continue
            setattr(obj, name, logger)
            set_attrs.add(name)

        # torch module group
        elif subgrp.attrs.get("_torch_whole_module"):
            data = AutoSerialize._read_array_np(subgrp, "module").tobytes()
            buf = io.BytesIO(data)
            mod = torch.load(buf, map_location="cpu", weights_only=False)
            if type(mod) in skip_types:
                continue

            # Fix PyTorch module set attributes that might be corrupted
            if isinstance(mod, torch.nn.Module):
                cls._fix_torch_module_sets(mod)

            setattr(obj, name, mod)
            set_attrs.add(name)

        # nested AutoSerialize group
        elif "_autoserialize" in subgrp.attrs:
            m = cast(dict[str, Any], subgrp.attrs["_autoserialize"])
            submod_name = cast(str, m["class_module"])
            subcls_name = cast(str, m["class_name"])
            submod = __import__(submod_name, fromlist=[subcls_name])
            subcls = getattr(submod, subcls_name)
            if subcls in skip_types:
                continue
            val = subcls._recursive_load(subgrp, skip_names, skip_types)
            if type(val) in skip_types:
                continue

            setattr(obj, name, val)
            set_attrs.add(name)

        # containers (list, tuple, dict)
        elif subgrp.attrs.get("_container_type", None) is not None:
            val = cls._deserialize_container(cast(zarr.Group, subgrp))
            if type(val) in skip_types:
                continue
            setattr(obj, name, val)
            set_attrs.add(name)

        # NumPy random generator
        elif subgrp.attrs.get("_numpy_rng"):
            import numpy.random as npr

            # rng_type = subgrp.attrs.get("_rng_type", "Generator")
            bit_generator_type = subgrp.attrs.get("_bit_generator_type", "PCG64")
            # rng_state = subgrp.attrs["_rng_state"]

            # Create the appropriate bit generator
            if bit_generator_type == "PCG64":
                bit_gen = npr.PCG64()
            elif bit_generator_type == "MT19937":
                bit_gen = npr.MT19937()
            elif bit_generator_type == "Philox":
                bit_gen = npr.Philox()
            elif bit_generator_type == "SFC64":
                bit_gen = npr.SFC64()
            else:
                # Fallback to default
                bit_gen = npr.PCG64()

            # Create generator with fresh state
            rng = npr.Generator(bit_gen)
            # Note: We don't restore the exact state due to type compatibility issues
            # The generator will work fine with fresh state and can be re-seeded if needed

            setattr(obj, name, rng)
            set_attrs.add(name)

        # PyTorch generator (skipped during save)
        elif subgrp.attrs.get("_torch_rng_skipped"):
            # Create a new generator since we didn't save the state
            rng = torch.Generator()
            setattr(obj, name, rng)
            set_attrs.add(name)

        else:
            print(f"Unhandled group: {name} with attrs: {dict(subgrp.attrs)}")
            raise ValueError(f"Unknown subgroup structure: {subgrp.path}")

    # Remove attributes in skip_names that may have been set by __init__ (when using __new__)
    for name in skip_names:
        if hasattr(obj, name):
            delattr(obj, name)

    # attrs pattern: call post-init if defined
    if hasattr(obj, "__attrs_post_init__"):
        obj.__attrs_post_init__()

    # Fix PyTorch module set attributes after all loading is complete
    if isinstance(obj, torch.nn.Module):
        cls._fix_torch_module_sets(obj)

    # Also fix any nested PyTorch modules in the object's attributes
    # Use a more defensive approach to avoid triggering property accessors
    for attr_name in dir(obj):
        if not attr_name.startswith("_"):  # Skip private attributes
            try:
                # Check if it's a property first to avoid triggering accessors
                if hasattr(type(obj), attr_name):
                    attr_descriptor = getattr(type(obj), attr_name)
                    if hasattr(attr_descriptor, "__get__") and not hasattr(
                        attr_descriptor, "__set__"
                    ):
                        # This is a read-only property, skip it to avoid triggering computation
                        continue

                attr_value = getattr(obj, attr_name)
                if isinstance(attr_value, torch.nn.Module):
                    cls._fix_torch_module_sets(attr_value)
            except (AttributeError, RuntimeError, ValueError, KeyError):
                # Skip attributes that can't be accessed or cause other errors
                pass

    return obj


@contextlib.contextmanager
def original_serializer():
    saved = (AutoSerialize.__dict__["_serialize_value"], AutoSerialize.__dict__["_recursive_load"])
    AutoSerialize._serialize_value = orig_serialize_value
    AutoSerialize._recursive_load = classmethod(orig_recursive_load)
    try:
        yield
    finally:
        AutoSerialize._serialize_value, AutoSerialize._recursive_load = saved
    assert AutoSerialize.__dict__["_serialize_value"] is saved[0]


@contextlib.contextmanager
def installed_serializer():
    yield


def tree_digest(path):
    """relative file name -> sha256 of the bytes, for a directory store or a zip store"""
    out = {}
    if os.path.isdir(path):
        for dirpath, _dirs, files in os.walk(path):
            for f in files:
                full = os.path.join(dirpath, f)
                with open(full, "rb") as fh:
                    out[os.path.relpath(full, path)] = hashlib.sha256(fh.read()).hexdigest()
    else:
        with zipfile.ZipFile(path) as zf:
            for name in zf.namelist():
                out[name] = hashlib.sha256(zf.read(name)).hexdigest()
    assert out, path
    return out


class Box(AutoSerialize):
    def __init__(self, **kw):
        self.__dict__.update(kw)


class BadModule(torch.nn.Module):
    def __init__(self):
        super().__init__()
        self.lin = torch.nn.Linear(2, 2)
        self.fn = lambda x: x  # cannot be pickled -> torch.save fails half-way through a save


def canon(x, depth=0):
    """structure that compares equal iff two loaded objects are observably the same"""
    assert depth < 12
    if isinstance(x, torch.nn.Module):
        return ("module", type(x).__name__, x.training, canon(dict(x.state_dict()), depth + 1),
                [(n, p.requires_grad) for n, p in x.named_parameters()],
                type(getattr(x, "_non_persistent_buffers_set", None)).__name__)
    if isinstance(x, torch.Tensor):
        return ("tensor", type(x).__name__, str(x.dtype), tuple(x.shape), x.requires_grad, str(x.device),
                x.is_leaf, x.detach().cpu().contiguous().numpy().tobytes())
    if isinstance(x, torch.optim.Optimizer):
        return ("optimizer", type(x).__name__, canon(x.state_dict(), depth + 1))
    if hasattr(x, "step") and hasattr(x, "get_last_lr"):
        return ("scheduler", type(x).__name__, canon(x.state_dict(), depth + 1), canon(x.optimizer, depth + 1))
    if isinstance(x, np.ndarray):
        return ("ndarray", str(x.dtype), x.shape, x.tobytes())
    if isinstance(x, AutoSerialize):
        return ("autoserialize", type(x).__name__, canon(dict(x.__dict__), depth + 1))
    if isinstance(x, dict):
        return ("dict", sorted(((repr(k), canon(v, depth + 1)) for k, v in x.items()), key=lambda kv: kv[0]))
    if isinstance(x, (list, tuple)):
        return (type(x).__name__, [canon(v, depth + 1) for v in x])
    if isinstance(x, (set, frozenset)):
        return ("set", sorted(repr(v) for v in x))
    if isinstance(x, (np.random.Generator, torch.Generator)):
        return (type(x).__name__,)  # state is not restored by the serializer (either version)
    if isinstance(x, (int, float, str, bool, type(None), complex, np.generic)):
        return (type(x).__name__, repr(x))
    return (type(x).__name__, repr(x))


def make_box():
    g = torch.Generator().manual_seed(5)
    lin = torch.nn.Linear(3, 2)
    seq = torch.nn.Sequential(torch.nn.Linear(4, 3), torch.nn.Tanh(), torch.nn.Linear(3, 1))
    seq.register_buffer("scale", torch.arange(3.0), persistent=False)
    with torch.no_grad():
        for i, p in enumerate(list(lin.parameters()) + list(seq.parameters())):
            p.copy_(torch.randn(p.shape, generator=g) * (i + 1))
    adam = torch.optim.Adam(lin.parameters(), lr=0.01, betas=(0.8, 0.9))
    sgd = torch.optim.SGD(seq.parameters(), lr=0.1, momentum=0.9)
    plain = torch.optim.SGD(seq.parameters(), lr=0.3)  # never stepped: empty state
    exp = torch.optim.lr_scheduler.ExponentialLR(adam, gamma=0.5)
    plat = torch.optim.lr_scheduler.ReduceLROnPlateau(sgd, patience=0, factor=0.5)
    for step in range(3):
        for opt, mod, nin in ((adam, lin, 3), (sgd, seq, 4)):
            opt.zero_grad()
            mod(torch.randn(5, nin, generator=g)).pow(2).sum().backward()
            opt.step()
        exp.step()
        plat.step(1.0 + step)
    base = torch.randn(6, 5, generator=g)
    leaf = torch.randn(3, 4, generator=g, dtype=torch.float64).requires_grad_(True)
    inner = Box(
        t_complex=torch.complex(torch.randn(2, 3, generator=g), torch.randn(2, 3, generator=g)),
        opt=plain,
        deep=Box(t=torch.tensor([1, 2, 3], dtype=torch.int64), name="deep"),
    )
    return Box(
        t_scalar=torch.tensor(3.5),
        t_empty=torch.zeros(0, 3),
        t_bool=torch.tensor([[True, False], [False, True]]),
        t_view=base[::2, 1:4],  # non-contiguous view: torch.save stores the whole storage
        t_leaf=leaf,
        t_param=torch.nn.Parameter(torch.randn(2, 2, generator=g)),
        t_half=torch.randn(7, generator=g).to(torch.float16),
        lin=lin,
        seq=seq,
        adam=adam,
        sgd=sgd,
        exp=exp,
        plat=plat,
        inner=inner,
        in_list=[torch.ones(2), lin, 3, "s", [torch.zeros(1, dtype=torch.int32)]],
        in_dict={"a": torch.full((2, 2), 7.0), "m": seq, "n": {"t": torch.tensor(1)}},
        arr=np.arange(6.0).reshape(2, 3),
        n=4,
        name="root",
        lrs=[0.1, 0.05],
    )


def save_with(ctx, obj, path, **kw):
    with ctx():
        return quiet(obj.save, path, **kw)


def load_with(ctx, path, **kw):
    with ctx():
        return quiet(autoserialize_load, path, **kw)


def outcome(fn):
    try:
        return ("ok", fn())
    except BaseException as e:  # noqa: BLE001
        return (type(e).__name__, str(e))


def serializer_equivalence(td):
    box = make_box()
    reference = canon(box)
    n = 0
    for store, ext in (("dir", ""), ("zip", ".zip")):
        for level in (4, None, 0):
            pn = os.path.join(td, f"box_new_{store}_{level}{ext}")
            po = os.path.join(td, f"box_old_{store}_{level}{ext}")
            save_with(installed_serializer, box, pn, store=store, compression_level=level)
            save_with(original_serializer, box, po, store=store, compression_level=level)
            assert canon(box) == reference  # saving does not change the object
            # same files written, byte for byte
            dn, do = tree_digest(pn), tree_digest(po)
            assert dn == do, (store, level, sorted(set(dn.items()) ^ set(do.items()))[:4])
            # every (writer, reader) combination gives the same object
            got = [canon(load_with(r, p)) for r in (installed_serializer, original_serializer) for p in (pn, po)]
            assert all(gq == got[0] for gq in got[1:]), (store, level)
            n += 1
    # what comes back is what went in (for the torch payloads handled by the touched code)
    back = load_with(installed_serializer, pn)
    for key in ("t_scalar", "t_empty", "t_bool", "t_view", "t_leaf", "t_param", "t_half", "lin",
                "seq", "adam", "sgd", "exp", "plat"):
        a, b = canon(getattr(box, key)), canon(getattr(back, key))
        assert a == b, key
    assert canon(box.inner) == canon(back.inner)
    assert isinstance(back.seq._non_persistent_buffers_set, set)
    # skipping by name and by type is honoured identically by both readers
    for skip in (["adam"], [torch.optim.Adam], [torch.optim.SGD, "exp"], [torch.nn.Linear, torch.Tensor],
                 [torch.nn.Parameter, Box], torch.optim.lr_scheduler.ExponentialLR):
        a = load_with(installed_serializer, pn, skip=skip)
        b = load_with(original_serializer, pn, skip=skip)
        assert canon(a) == canon(b), skip
        assert sorted(a.__dict__) == sorted(b.__dict__)
        n += 1
    assert not hasattr(load_with(installed_serializer, pn, skip=[torch.optim.Adam]), "adam")

    # failure injection 1: torch.save fails half-way -> same exception, nothing left behind
    for store, ext in (("dir", ""), ("zip", ".zip")):
        res = []
        for tag, ctx in (("new", installed_serializer), ("old", original_serializer)):
            bad = Box(first=torch.ones(3), broken=BadModule(), last=torch.zeros(2))
            p = os.path.join(td, f"bad_{tag}_{store}{ext}")
            r = outcome(lambda: save_with(ctx, bad, p, store=store))
            assert r[0] != "ok", r
            assert not os.path.exists(p), p
            res.append(r)
        assert res[0] == res[1], res
        n += 1

    # failure injection 2: a damaged blob on disk -> both readers fail the same way
    good = os.path.join(td, "box_new_dir_None")
    for victim in ("adam", "lin", "t_leaf", "exp"):
        dmg = os.path.join(td, f"damaged_{victim}")
        import shutil

        shutil.copytree(good, dmg)
        hit = 0
        for dirpath, _d, files in os.walk(os.path.join(dmg, victim)):
            for f in files:
                if f != "zarr.json":
                    full = os.path.join(dirpath, f)
                    size = os.path.getsize(full)
                    with open(full, "wb") as fh:
                        fh.write(b"\x07" * size)
                    hit += 1
        assert hit >= 1, victim
        a = outcome(lambda: canon(load_with(installed_serializer, dmg)))
        b = outcome(lambda: canon(load_with(original_serializer, dmg)))
        assert a[0] != "ok" and a == b, (victim, a, b)
        n += 1
    return n


# ---------------------------------------------------------------------------------------------
# part B: a real reconstruction written / read by both generations, then the property itself
# ---------------------------------------------------------------------------------------------
def ptycho_cross_generation(td):
    opt = {"object": {"type": "adam", "lr": 1e-2}, "probe": {"type": "sgd", "lr": 1e-3, "momentum": 0.9},
           "dataset": {"type": "adamw", "lr": 1e-3}}
    sch = {"object": {"type": "exp", "gamma": 0.8}, "probe": {"type": "plateau", "patience": 0, "cooldown": 0}}
    ref = make_ptycho(6, 7, (14, 16), num_probes=2)
    ref.reconstruct(num_iters=2, reset=True, optimizer_params=opt, scheduler_params=sch,
                    batch_size=ref.dset.num_gpts, constraints={"probe": {"orthogonalize_probe": True}})
    paths = {}
    for store, ext in (("zip", ".zip"), ("dir", "")):
        for tag, ctx in (("new", installed_serializer), ("old", original_serializer)):
            p = os.path.join(td, f"pt_{tag}_{store}{ext}")
            with ctx():
                quiet(ref.save, p, store=store, save_raw_data=True)
            paths[(tag, store)] = p
        assert tree_digest(paths[("new", store)]) == tree_digest(paths[("old", store)]), store
    loaded = {}
    for (tag, store), p in paths.items():
        for rtag, ctx in (("new", installed_serializer), ("old", original_serializer)):
            if store == "dir" and tag != rtag:
                continue  # keep the run time down: cross combinations only for the zip store
            with ctx():
                loaded[(tag, store, rtag)] = quiet(Ptychography.from_file, p)
    for key, pt in loaded.items():
        assert_same_report(ref, pt, f"cross {key} @2")
        assert_bound(pt, f"cross {key} @2")
        sa, sb = optimizer_state_tensors(ref), optimizer_state_tensors(pt)
        assert set(sa) == set(sb)
        for k in sa:
            np.testing.assert_array_equal(np.asarray(sa[k]), np.asarray(sb[k]))
    for pt in [ref, *loaded.values()]:
        pt.reconstruct(num_iters=2, batch_size=pt.dset.num_gpts)
    for key, pt in loaded.items():
        assert_same_report(ref, pt, f"cross {key} @4", rtol=1e-4, atol=1e-4)
    return len(loaded)


def main():
    with tempfile.TemporaryDirectory() as td:
        n = serializer_equivalence(td)
        print(f"serializer old-vs-new: {n} checks identical (files, loaded objects, failures)")
        m = ptycho_cross_generation(td)
        print(f"reconstruction written/read by both generations: {m} reloads resume identically")
        checkpoint_resume_case(
            td, "mixed_plateau", 3, 1,
            {"object": {"type": "adamw", "lr": 1e-2}, "probe": {"type": "adam", "lr": 1e-3}},
            {"object": {"type": "plateau", "patience": 0, "cooldown": 0, "threshold": 0.5}},
            "dir", num_probes=2, obj_type="pure_phase", shape=(5, 8, (12, 18)), save_raw=False, tol=1e-3,
        )
        checkpoint_resume_case(
            td, "split0_sgd", 3, 0, {"object": {"type": "sgd", "lr": 1e-2}}, {}, "zip",
            obj_type="potential", shape=(6, 5, (14, 12)),
        )
    print("PASS")


if __name__ == "__main__":
    main()
